"""props_c05 — C05 (global failure: identity, position, propagation, conversion of exceptions)
plugged into the shared engine pipeline (lib/engine_check.py).

projection : full result string (exception chain: type, message, byte/line/column of every level),
             final cursor, R (Control::raise) and G (Control::raise_nested) events  [= default]
oracle     : judges the IMPLEMENTATION's record against the specification side only:
   (1) every parse_error in the chain: what() == source:line:column: message (harness marker BADWHAT),
       (byte, line, column) == track(eol policy, initial counters, input[:byte]) recomputed here,
       byte within the input; the message names a must-target / raise-target / try_catch sub-rule of
       the dumped table (default "parse error matching <demangled name>" or the custom error_message);
   (2) a small exception machine over the event log (needs the B/E invocation trace, ctl >= 2):
       an exception is born only at an R event (legal only while no exception is in flight, raised by
       the innermost open must/raise frame, for that frame's own target, at the position where the
       failing attempt left the cursor, which lies between the frame's start and the end of input),
       or at a throwing action (the harness' deterministic throw predicate, recomputed here);
       a failing must target MUST be followed by the raise;  while an exception is in flight only
       unwind hooks, exits-by-exception and state destructors may follow, until a try_catch frame
       whose filter admits the exception type converts it (return_false: failure hook / exit 0 with
       the cursor at the frame's start when M = required; raise_nested: G at the frame's start for
       the frame's sub-rule, then a nested exception); frames whose filter does not admit it must
       pass it on; the exception alive at the end must be exactly the one parse() reported.
extra_grams: must / if_must / if_must_else / opt_must / star_must / list_must / raise / raise_message /
             custom error_message / all eight try_catch variants, nested in predicates, repetitions,
             choices, each other; eol-crossing inputs for the position part.
"""
import random

import corpus
import engine_run as er

BASE_CORPUS = False          # the shared systematic corpus is sampled below (extra_grams) to fit the time budget
MAXLEN = {"quick": 4, "thorough": 5}

EOL_CH = {"lf": 10, "cr": 13, "crlf": 10, "lf_crlf": 10, "cr_crlf": 13}


# --------------------------------------------------------------------------- spec helpers
def track(ch, init, data):
    """position of a consumed prefix: byte counts bytes, the eol character starts a new line"""
    b, l, c = init
    for x in data:
        b += 1
        if x == ch:
            l += 1
            c = 1
        else:
            c += 1
    return (b, l, c)


def cfg_parts(rec):
    f, c, a, m, e = rec["cfg"].split(".")
    lazy = e.startswith("lazy-")
    if lazy:
        e = e[5:]
    init = (0, 1, 1)
    if e.endswith("@7-3-5"):
        e = e[:-6]
        init = (7, 3, 5)
    return int(f), int(c), int(a), int(m), e, lazy, init


def parse_chain(res):
    """'XP:<hex>:b,l,c[:BADWHAT=..]>S:act' -> list of dicts, outermost first"""
    out = []
    for p in res[1:].split(">"):
        if p.startswith("P:"):
            t = p.split(":")
            b, l, c = (int(x) for x in t[2].split(","))
            out.append({"k": "P", "msg": bytes.fromhex(t[1]).decode("latin1"), "pos": (b, l, c), "bad": any(x.startswith("BADWHAT") for x in t[3:])})
        elif p.startswith("S"):
            out.append({"k": "S"})
        elif p.startswith("F:"):
            out.append({"k": "F", "tag": int(p[2:])})
        else:
            out.append({"k": p[:1] or "?"})
    return out


def throw_pred(r, b, e):      # harness/vharness.hpp
    return ((r * 5 + b * 7 + e * 3) % 5) == 0


def ithrow(b, e):
    return ((b + e) % 4) == 3


def admits(flt, exn):
    """which exception types a try_catch filter names (catch(...), std::exception, parse_error_base, a named type)"""
    k = exn["k"]
    if flt == "any":
        return True
    if flt == "std":
        return k in ("P", "S", "N")
    if flt == "parse":
        return k in ("P", "N")
    if flt.startswith("type:"):
        return k == "F" and exn.get("tag") == int(flt[5:])
    return False


def msg_targets(K):
    """message -> set of nodes that may legitimately be named by a parse_error"""
    cache = getattr(K, "_c05_targets", None)
    if cache is not None:
        return cache
    targets = set()
    for n, nd in K.table.items():
        h = nd["head"][0]
        if h == "must" and nd["subs"]:
            targets.add(nd["subs"][-1])
        elif h == "raise" and nd["subs"]:
            targets.add(nd["subs"][0])
        elif h == "try_catch_nested" and nd["subs"]:
            targets.add(nd["subs"][0])
    m = {}
    for n in targets:
        m.setdefault(er.expected_message(K, None, n), set()).add(n)
    for n in list(getattr(K, "rof", ())) + list(getattr(K, "rofs", ())):
        # must_if control families (ctl4/ctl5): the control's error table has the message "mustif" for these rules
        m.setdefault("mustif", set()).add(n)
    K._c05_targets = m
    return m


def reach(K, root):
    cache = K.__dict__.setdefault("_c05_reach", {})
    if root not in cache:
        seen = set()
        todo = [root]
        while todo:
            x = todo.pop()
            if x in seen or x not in K.table:
                continue
            seen.add(x)
            todo += K.table[x]["subs"]
        cache[root] = seen
    return cache[root]


LIMIT_MSGS = ("maximum parser rule nesting depth exceeded", "maximum allowed rule consumption reached", "maximum allowed rule consumption exceeded")


# --------------------------------------------------------------------------- known finding: lazy tracking inside rematch
KNOWN_SIGS = {"KNOWN:lazy-rematch-position": "rematch under tracking_mode::lazy reports positions relative to the rematched span"}


def _lazy_rematch(K, rec):
    """internal/rematch.hpp builds its inner memory_input from m.inputerator(); with tracking_mode::lazy that is a bare
    const char*, so the inner input counts byte/line/column from the START OF THE REMATCHED SPAN: a parse_error raised
    inside rematch< Head, Rules... > (and every position seen by controls/actions there) is relative, not absolute."""
    e = rec["cfg"].split(".")[4]
    return e.startswith("lazy-") and any(K.table[x]["head"][0] == "rematch" and len(K.table[x]["subs"]) > 1 for x in reach(K, rec["root"]))


_POS = __import__("re").compile(r"\d+,\d+,\d+")


def projection(rec, K, model):
    import engine_props as ep
    s = ep.projection(rec, "C05", K=K, model=model)
    if False and _lazy_rematch(K, rec):      # the lazy-rematch defect is repaired (/repo 1d941ee): positions are compared in full again
        # the shared driver computes lazy positions as absolute ones; positions of this class are judged by the oracle
        # (known finding), identity / chain structure / events are still compared
        res, cur, evs = (s.split("|") + ["", ""])[:3]
        res = __import__("re").sub(r":\d+,\d+,\d+", ":*", res)
        evs = __import__("re").sub(r",\d+,\d+,\d+;", ",*;", evs + (";" if evs and not evs.endswith(";") else ""))
        s = res + "|*|" + evs
    return s


TC_EXPECT = [("try_catch_false", "parse"), ("try_catch_false", "any"), ("try_catch_false", "std"), ("try_catch_false", "type:1"),
             ("try_catch_nested", "parse"), ("try_catch_nested", "any"), ("try_catch_nested", "std"), ("try_catch_nested", "type:1")]


def _filter_tie(K, rec, counters):
    """surface-side expectation for the try_catch family: the rule TEXT of the generated grammar names the exception type
    (try_catch_std_return_false< ... > etc.); the class the compiler actually instantiated (rule_t, as dumped) must be the
    conversion for exactly that type - also for the forms with several rules, which forward to the one-rule form."""
    g = K.grams[rec["gid"]]
    done = K.__dict__.setdefault("_c05_tie_done", {})
    if rec["gid"] in done:
        return done[rec["gid"]]
    msgs = []
    tcs = [t for t in g.tags if t.startswith("tc") and t[2:].isdigit()]
    if tcs and "c05:nest" not in g.tags:
        want = TC_EXPECT[int(tcs[0][2:])]
        for x in reach(K, rec["root"]):
            h = K.table[x]["head"]
            if h[0].startswith("try_catch"):
                counters["try_catch_filter_ties"] += 1
                if (h[0], h[1]) != want:
                    msgs.append("the grammar text asks for %s converting '%s' but the instantiated rule (node %d) is %s converting '%s'" % (want[0], want[1], x, h[0], h[1]))
    done[rec["gid"]] = msgs
    return msgs


def oracle(K, rec, counters):
    tie = _filter_tie(K, rec, counters)
    if tie:
        return tie[:1]
    out = _oracle(K, rec, counters)
    if out and _lazy_rematch(K, rec):
        counters["known_lazy_rematch_cases"] += 1
        return ["KNOWN:lazy-rematch-position|" + out[0]]
    return out


# --------------------------------------------------------------------------- oracle
def _oracle(K, rec, counters):
    out = []
    fam, ctl, A, M, eol, lazy, init = cfg_parts(rec)
    data = bytes.fromhex(rec["input"]) if rec["input"] != "-" else b""
    res = rec["res"]
    chain = parse_chain(res) if res.startswith("X") else []
    ch = EOL_CH[eol]
    targets = msg_targets(K)

    # ---- (1) every parse_error of the chain: what(), position consistency, identity
    for lvl, x in enumerate(chain):
        if x["k"] != "P":
            continue
        counters["parse_errors_checked"] += 1
        if x["bad"]:
            out.append("what() is not source:line:column: message for '%s'" % x["msg"][:60])
        b, l, c = x["pos"]
        if not (init[0] <= b <= init[0] + len(data)):
            out.append("parse_error position byte %d outside the input [%d, %d]" % (b, init[0], init[0] + len(data)))
        elif eol != "cr_crlf":       # cr_crlf: eager and lazy tracking disagree after "\r\n" (recorded under C06)
            want = track(ch, init, data[:b - init[0]])
            counters["positions_checked"] += 1
            if want != (b, l, c):
                out.append("parse_error position %d:%d:%d is not the position of the consumed prefix (%d:%d:%d)" % (b, l, c, want[0], want[1], want[2]))
        if x["msg"] not in targets and x["msg"] not in LIMIT_MSGS:
            out.append("parse_error message '%s' names no must / raise target of the grammar" % x["msg"][:80])
        if lvl + 1 < len(chain) and x["msg"] in LIMIT_MSGS:
            out.append("a limit error carries a nested exception")
    for lvl, x in enumerate(chain[:-1]):
        if x["k"] != "P":
            out.append("a non-parse_error exception carries a nested exception")

    evs = er.events_of(rec)
    if fam >= 9:
        counters["skipped_custom_action_family"] += 1
        return out
    if any(k in "SOFURGBE" and n and n[0] != ctl for k, n in evs):
        counters["skipped_control_switch"] += 1      # control< ctlK, ... > inside: part of the run has no invocation trace
        return out

    # ---- (2) the exception machine over the log
    table = K.table
    has_trace = ctl >= 2
    stack = []          # open B frames: dict(rule, M, pos)
    pending = None      # exception in flight: dict(k, who, pos, inner, tag)
    expect_raise = None  # (rule, pos): a must target just failed -> next event must be its raise
    n_raise = 0
    last_exit = None

    def head(r):
        nd = table.get(r)
        return nd["head"] if nd else ["?"]

    def convert_ok(frame_rule):
        h = head(frame_rule)
        return h[0] in ("try_catch_false", "try_catch_nested") and admits(h[1], pending)

    for k, n in evs:
        if expect_raise is not None and not (k == "R" and n[1] == expect_raise[0]):
            out.append("must target %d failed at %s but no raise follows (next event %s)" % (expect_raise[0], expect_raise[1], k))
            expect_raise = None
        if pending is not None and has_trace:
            # only unwinding may happen, or a conversion by the innermost try_catch frame
            if k == "U" or k == "D":
                continue
            if k == "E" and n[2] == 2:
                if not stack:
                    out.append("exit-by-exception without open frame")
                    break
                fr = stack.pop()
                if fr["rule"] != n[1]:
                    out.append("exit of rule %d closes frame of rule %d" % (n[1], fr["rule"]))
                    break
                own = pending.pop("own_of", None) == fr["rule"]     # thrown by the frame's own action, after its match() body returned
                if convert_ok(fr["rule"]) and not fr.get("converted") and not own:
                    out.append("%s (rule %d) let an exception of a type it names pass (%s)" % (" ".join(head(fr["rule"])), fr["rule"], pending["k"]))
                h = head(fr["rule"])
                if h[0] == "try_catch_nested" and tuple(n[3:6]) != fr["pos"]:
                    out.append("try_catch_raise_nested (rule %d) left the cursor at %s, started at %s" % (fr["rule"], tuple(n[3:6]), fr["pos"]))
                if h[0] == "try_catch_false" and fr["M"] == 1 and tuple(n[3:6]) != fr["pos"]:
                    out.append("try_catch_return_false (rule %d, required) passed an exception on with the cursor at %s, started at %s" % (fr["rule"], tuple(n[3:6]), fr["pos"]))
                continue
            if k == "G":
                fr = stack[-1] if stack else None
                counters["nested_conversions"] += 1
                if fr is None or head(fr["rule"])[0] != "try_catch_nested":
                    out.append("raise_nested while the innermost frame is rule %s (%s)" % (fr and fr["rule"], fr and head(fr["rule"])[0]))
                    break
                if not admits(head(fr["rule"])[1], pending):
                    out.append("try_catch_raise_nested (rule %d, filter %s) converted an exception type it does not name (%s)" % (fr["rule"], head(fr["rule"])[1], pending["k"]))
                if table[fr["rule"]]["subs"][:1] != [n[1]]:
                    out.append("raise_nested blames rule %d, not the sub-rule of frame %d" % (n[1], fr["rule"]))
                if tuple(n[2:5]) != fr["pos"]:
                    out.append("raise_nested position %s is not the start %s of the try_catch frame" % (tuple(n[2:5]), fr["pos"]))
                pending = {"k": "N", "who": n[1], "pos": tuple(n[2:5]), "inner": pending}
                fr["converted"] = True
                continue
            # anything else: must be the innermost try_catch_return_false frame resuming (failure hook or exit 0)
            fr = stack[-1] if stack else None
            if fr is not None and head(fr["rule"])[0] == "try_catch_false" and ((k == "F" and n[1] == fr["rule"]) or (k == "E" and n[1] == fr["rule"] and n[2] == 0)):
                counters["return_false_conversions"] += 1
                if not admits(head(fr["rule"])[1], pending):
                    out.append("try_catch_return_false (rule %d, filter %s) converted an exception type it does not name (%s)" % (fr["rule"], head(fr["rule"])[1], pending["k"]))
                pending = None
                fr["caught"] = True
                # fall through: process the event normally
            else:
                out.append("event %s%s while an exception (%s) is in flight and the innermost frame is rule %s (%s): exception swallowed or control resumed" %
                           (k, n[:2], pending["k"], fr and fr["rule"], fr and head(fr["rule"])[0]))
                break
        if k == "B":
            stack.append({"rule": n[1], "M": n[3], "pos": tuple(n[4:7])})
        elif k == "E":
            if not stack:
                out.append("exit without open frame")
                break
            fr = stack.pop()
            if fr["rule"] != n[1]:
                out.append("exit of rule %d closes frame of rule %d" % (n[1], fr["rule"]))
                break
            if n[2] == 2:
                if pending is None:
                    out.append("rule %d exits by exception but nothing was thrown" % n[1])
                    break
            pos = tuple(n[3:6])
            if fr.get("caught"):
                if n[2] != 0:
                    out.append("try_catch_return_false (rule %d) caught an exception but returned %d" % (n[1], n[2]))
                if fr["M"] == 1 and pos != fr["pos"]:
                    out.append("try_catch_return_false (rule %d) caught an exception in required mode but left the cursor at %s (started at %s)" % (n[1], pos, fr["pos"]))
                counters["caught_frames_checked"] += 1
            if n[2] == 0 and ctl >= 4 and n[1] in getattr(K, "rof", ()):
                # a rule that must match (message in the must_if error table, raise_on_failure) can only leave by success or
                # by exception: whatever made the attempt fail (its body, or a veto of its own action), failure() raises
                out.append("rule %d has a must_if message but its attempt ended in a local failure at %s (its failure() did not raise)" % (n[1], pos))
            if n[2] == 0 and stack and head(stack[-1]["rule"])[0] == "must" and table[stack[-1]["rule"]]["subs"][-1:] == [n[1]]:
                expect_raise = (n[1], pos)
            last_exit = (n[1], n[2], pos)
        elif k == "R":
            n_raise += 1
            counters["raise_events"] += 1
            pos = tuple(n[2:5])
            if pending is not None and has_trace:
                out.append("raise for rule %d while another exception is in flight" % n[1])
            if n[1] >= 0 and has_trace:
                fr = stack[-1] if stack else None
                h = head(fr["rule"]) if fr else ["?"]
                if fr is None or h[0] not in ("must", "raise") or table[fr["rule"]]["subs"][-1:] != [n[1]]:
                    out.append("raise blames rule %d while the innermost frame is rule %s (%s)" % (n[1], fr and fr["rule"], h[0]))
                else:
                    if h[0] == "must":
                        if expect_raise is None or expect_raise != (n[1], pos):
                            out.append("raise for must target %d at %s does not follow its failing attempt %s" % (n[1], pos, expect_raise))
                        counters["must_raises_checked"] += 1
                    else:
                        if pos != fr["pos"]:
                            out.append("raise< %d > at %s, the rule started at %s" % (n[1], pos, fr["pos"]))
                    if not (fr["pos"][0] <= pos[0] <= init[0] + len(data)):
                        out.append("raise position byte %d outside [attempt start %d, end of input %d]" % (pos[0], fr["pos"][0], init[0] + len(data)))
            expect_raise = None
            pending = {"k": "P", "who": n[1], "pos": pos}
        elif k == "F" and ctl >= 4 and n[1] in getattr(K, "rof", ()):
            # must_if< errors >::control: failure() raises for a rule the error table has a message for.  The raise happens
            # inside the rule's own frame, after its match() body returned: position = where the failed attempt left the cursor
            counters["must_if_failure_raises"] += 1
            pos = tuple(n[2:5])
            fr = stack[-1] if stack else None
            if has_trace and (fr is None or fr["rule"] != n[1]):
                out.append("must_if failure() of rule %d while the innermost frame is rule %s" % (n[1], fr and fr["rule"]))
            elif has_trace and not (fr["pos"][0] <= pos[0] <= init[0] + len(data)):
                out.append("must_if raise position byte %d outside [attempt start %d, end of input %d]" % (pos[0], fr["pos"][0], init[0] + len(data)))
            pending = {"k": "P", "who": n[1], "pos": pos, "own_of": n[1]}
        elif k == "A" and n[0] in (5, 6):
            if throw_pred(n[1], n[2], n[5]):
                counters["action_throws"] += 1
                pending = {"k": "S"} if n[0] == 5 else {"k": "F", "tag": 1}
                if stack and stack[-1]["rule"] == n[1]:
                    pending["own_of"] = n[1]
        elif k == "I" and n[0] == 2:
            if ithrow(n[1], n[4]):
                pending = {"k": "S"}
        elif k == "J" and n[0] == 13:
            pending = {"k": "S"}
    else:
        if expect_raise is not None:
            out.append("must target %d failed but the log ends without its raise" % expect_raise[0])
        # ---- the exception alive at the end is what parse() reported
        counters["final_exception_compared"] += 1

        def describe(p):
            if p is None:
                return []
            if p["k"] == "N":
                return [("P", er.expected_message(K, None, p["who"]), p["pos"])] + describe(p["inner"])      # raise_nested: normal.hpp message
            if p["k"] == "P":
                if p["who"] < 0:
                    return [("P", None, p["pos"])]
                return [("P", er.expected_message(K, None, p["who"], ctl), p["pos"])]
            if p["k"] == "F":
                return [("F", p["tag"])]
            return [(p["k"],)]

        def got():
            r = []
            for x in chain:
                if x["k"] == "P":
                    r.append(("P", x["msg"], x["pos"]))
                elif x["k"] == "F":
                    r.append(("F", x["tag"]))
                else:
                    r.append((x["k"],))
            return r
        want = describe(pending)
        have = got()
        same = len(want) == len(have) and all(w == h or (w[0] == "P" == h[0] and w[1] is None and w[2] == h[2] and h[1] in LIMIT_MSGS) for w, h in zip(want, have))
        if has_trace or not any("try_catch" in table[x]["head"][0] for x in reach(K, rec["root"])):
            if not same and not (res == "RUNAWAY"):
                # without the invocation trace conversions cannot be followed: only compare when the chunk has no try_catch rule
                if has_trace or (len(want) <= 1):
                    out.append("parse() reported %s but the exception in flight at the end of the log is %s" % (have or res[:1], want or "none"))
        if has_trace and stack:
            out.append("%d invocation frames still open at the end" % len(stack))
    return out


# --------------------------------------------------------------------------- grammars
def _raising_bodies():
    """constructs that can fail globally (the R slot of the conversion / propagation templates)"""
    return [
        ("must1", "must< one< 'a' > >"),
        ("cfmust", "seq< one< 'a' >, must< one< 'b' > > >"),
        ("mustseq", "must< seq< one< 'a' >, one< 'b' > > >"),                 # attempt consumes then fails: raise inside the attempt
        ("mustsor", "must< sor< seq< one< 'a' >, one< 'a' >, one< 'b' > >, seq< one< 'a' >, one< 'c' > > > >"),   # furthest point beyond the raise position
        ("must2", "must< one< 'a' >, N0 >"),
        ("raise_msg", "sor< one< 'b' >, raise_message< 'o', 'o', 'p', 's' > >"),
        ("raise_t", "seq< opt< one< 'a' > >, raise< N1 > >"),
        ("if_must", "if_must< one< 'a' >, one< 'b' >, one< 'c' > >"),
        ("if_must_else", "if_must_else< one< 'a' >, one< 'b' >, N0 >"),
        ("opt_must", "opt_must< N1, one< 'c' > >"),
        ("star_must", "star_must< one< 'a' >, one< 'b' > >"),
        ("list_must", "list_must< one< 'a' >, one< 'b' > >"),
        ("named_throw", "seq< N0, N0 >"),                                       # opt inside N0 matches empty -> throwing families fire
        ("custom_msg", "seq< one< 'a' >, must< NC > >"),
        ("plus_named", "plus< N1 >"),
    ]


TC = ["try_catch_return_false", "try_catch_any_return_false", "try_catch_std_return_false", "try_catch_type_return_false< vh::foreign_exn,",
      "try_catch_raise_nested", "try_catch_any_raise_nested", "try_catch_std_raise_nested", "try_catch_type_raise_nested< vh::foreign_exn,"]


def _tc(i, body):
    t = TC[i % len(TC)]
    return ("%s %s >" % (t, body)) if t.endswith(",") else ("%s< %s >" % (t, body))


def _contexts():
    return [
        ("top", lambda x: x),
        ("sor_first", lambda x: "sor< %s, any >" % x),
        ("sor_last", lambda x: "sor< string< 'a', 'c' >, %s >" % x),
        ("seq_mid", lambda x: "seq< one< 'a' >, %s, one< 'c' > >" % x),
        ("star_body", lambda x: "star< seq< %s, one< 'c' > > >" % x),
        ("plus_body", lambda x: "plus< seq< one< 'c' >, %s > >" % x),
        ("under_at", lambda x: "seq< at< %s >, opt< %s > >" % (x, x)),
        ("under_not_at", lambda x: "seq< not_at< %s >, any >" % x),
        ("opt_then", lambda x: "seq< opt< %s >, star< any > >" % x),
        ("under_must", lambda x: "must< %s, eof >" % x),
        ("rep", lambda x: "rep_min_max< 1, 2, %s >" % x),
        ("until", lambda x: "until< one< 'c' >, seq< %s, any > >" % x),
        ("ite_cond", lambda x: "if_then_else< %s, one< 'b' >, one< 'c' > >" % x),
        ("ite_then", lambda x: "if_then_else< one< 'a' >, %s, one< 'c' > >" % x),
        ("if_must_cond", lambda x: "if_must< %s, one< 'c' > >" % x),
        ("state", lambda x: "state< vh::st< 0 >, %s >" % x),
        ("disable", lambda x: "seq< disable< %s >, opt< one< 'c' > > >" % x),
        ("rematch", lambda x: "rematch< %s, star< any > >" % x),
        ("if_apply", lambda x: "if_apply< %s, vh::ia< 0 > >" % x),
        ("control", lambda x: "control< vh::ctl1, %s >" % x),
        ("partial", lambda x: "partial< one< 'a' >, %s >" % x),
        ("strict", lambda x: "strict< one< 'a' >, %s >" % x),
        ("list", lambda x: "list< %s, one< 'c' > >" % x),
    ]


NAMED = [("N0", "seq< one< 'a' >, opt< one< 'b' > > >"), ("N1", "seq< one< 'a' >, one< 'b' > >"),
         # a rule with a custom error_message (the struct body is smuggled through the definition text)
         ("NC", "one< 'b' >, vh::named { static constexpr const char* error_message = \"custom message for NC\"; }; struct NCdummy : success"),
         # ... and one whose own body raises: the rule try_catch_*_raise_nested< NX > blames, with its custom message
         ("NX", "seq< one< 'a' >, must< one< 'b' > > >, vh::named { static constexpr const char* error_message = \"custom message for NX\"; }; struct NXdummy : success")]


def _mk(body, tags, alphabet="abc", extra_inputs=()):
    rules = [(n, e) for n, e in NAMED if (n in body.replace("NCdummy", ""))]
    return corpus.Gram(0, rules, body, tags=tags, alphabet=alphabet, extra_inputs=extra_inputs)


def _c05_family(tier, seed):
    rnd = random.Random(seed * 31 + 5)
    bodies = _raising_bodies()
    ctxs = _contexts()
    out = []
    k = 0
    # (a) propagation: raising body x context (no try_catch): the exception must reach parse() unchanged
    for bi, (bn, b) in enumerate(bodies):
        picks = ctxs if tier == "thorough" else [ctxs[(bi * 5 + j * 7) % len(ctxs)] for j in range(2)]
        for cn, wrap in picks:
            out.append(_mk(wrap(b), ["c05", "c05:propagate", "raise", bn, "ctx:" + cn]))
    # (b) conversion: try_catch variant x raising body x context
    for ti in range(len(TC)):
        for bi, (bn, b) in enumerate(bodies):
            if tier != "thorough" and (ti * 3 + bi) % 4 != 0:
                continue
            picks = [ctxs[0], ctxs[(ti * 7 + bi * 3 + 1) % len(ctxs)]] if tier != "thorough" else \
                [ctxs[0], ctxs[(ti * 7 + bi * 3 + 1) % len(ctxs)], ctxs[(ti * 5 + bi * 11 + 2) % len(ctxs)]]
            for cn, wrap in picks:
                out.append(_mk(wrap(_tc(ti, b)), ["c05", "c05:convert", "catch", bn, "tc%d" % ti, "ctx:" + cn]))
            k += 1
        # the forms with several rules (they forward to the one-rule form with seq< Rules... >): a named rule whose action
        # may throw std / foreign exceptions, then a raising body
        for bi in ((ti, ti + 5) if tier != "thorough" else range(0, len(bodies), 2)):
            bn, b = bodies[bi % len(bodies)]
            out.append(_mk(_tc(ti, "N0, %s" % b), ["c05", "c05:convert", "c05:pack", "catch", bn, "tc%d" % ti]))
            out.append(_mk("sor< %s, star< any > >" % _tc(ti, "opt< N1 >, N0, %s" % b), ["c05", "c05:convert", "c05:pack", "catch", bn, "tc%d" % ti]))
    # (c) try_catch inside try_catch (nested chains, re-conversion), try_catch with several rules
    for ti in range(len(TC)):
        for tj in ([4, 5, 0, 1] if tier != "thorough" else range(len(TC))):
            b = bodies[(ti * 3 + tj) % len(bodies)][1]
            out.append(_mk(_tc(ti, "seq< opt< one< 'c' > >, %s >" % _tc(tj, b)), ["c05", "c05:nest", "catch"]))
    out.append(_mk("try_catch_return_false< one< 'a' >, must< one< 'b' > >, one< 'c' > >", ["c05", "catch"]))
    out.append(_mk("sor< try_catch_return_false< one< 'a' >, must< one< 'b' > > >, seq< one< 'a' >, one< 'c' > > >", ["c05", "catch"]))
    out.append(_mk("star< try_catch_any_return_false< N0, must< one< 'c' > > > >", ["c05", "catch"]))
    out.append(_mk("try_catch_raise_nested< try_catch_raise_nested< one< 'a' >, must< N1 > > >", ["c05", "catch"]))
    # the nested (outer) parse_error names the try_catch rule's sub-rule: a sub-rule with a custom error_message
    out.append(_mk("try_catch_raise_nested< NX >", ["c05", "catch", "c05:nestmsg"]))
    out.append(_mk("seq< opt< one< 'c' > >, try_catch_any_raise_nested< NX > >", ["c05", "catch", "c05:nestmsg"]))
    out.append(_mk("sor< try_catch_return_false< try_catch_raise_nested< NX > >, star< any > >", ["c05", "catch", "c05:nestmsg"]))
    out.append(_mk("try_catch_raise_nested< NC, must< one< 'c' > > >", ["c05", "catch", "c05:nestmsg"]))
    # (d) positions: raises after consumed line ends, every eol policy (choose_cfgs), lazy tracking, initial counters
    for al, body in [
        ("a\nb", "seq< star< sor< one< 'a' >, eol > >, must< one< 'b' >, eof > >"),
        ("a\nb", "must< seq< one< 'a' >, eol, one< 'b' > > >"),
        ("a\n\r", "seq< until< eol >, must< one< 'a' > > >"),
        ("a\n\r", "if_must< one< 'a' >, seq< eolf, one< 'a' > > >"),
        ("a\n\r", "star_must< one< 'a' >, any, one< '\\n', '\\r' > >"),
        ("a\n\r", "try_catch_raise_nested< seq< any, any, must< eof > > >"),
        ("a\nb", "seq< star< not_one< 'b' > >, sor< eof, raise_message< 'e', 'n', 'd' > > >"),
        ("a\r\n", "list_must< one< 'a' >, eol >"),
        # multi-byte literals that contain the eol character, consumed before the failing must rule
        ("a\nb", "seq< star< istring< 'A', '\\n' > >, must< one< 'b' >, eof > >"),
        ("a\nb", "seq< opt< string< 'a', '\\n', 'a' > >, star< istring< 'a' > >, must< eolf > >"),
        ("a\r\n", "seq< star< sor< string< '\\r', '\\n' >, one< 'a' > > >, must< eof > >"),
    ]:
        g = _mk(body, ["c05", "c05:pos", "raise"], alphabet=al)
        out.append(g)
    rnd.shuffle(out)
    if _finding_listed():
        # the recorded finding is replayed on every run (prints KNOWN-FINDING); see KNOWN_SIGS
        out.insert(0, _mk("seq< opt< one< 'b' > >, rematch< one< 'a' >, must< one< 'b' > > > >", ["c05", "c05:pos", "c05:known", "raise"]))
    if tier != "thorough":
        # keep the quick tier small but let every seed see a different slice of (a)-(c); (d) always present
        keep = [g for g in out if "c05:pos" in g.tags or "c05:pack" in g.tags or "c05:nestmsg" in g.tags] + [g for g in out if "c05:pos" not in g.tags and "c05:pack" not in g.tags and "c05:nestmsg" not in g.tags][:84]
        out = keep
    return out


def _mustif_family(tier, seed):
    """must_if controls (families ctl4/ctl5 of the harness): named rules with a message in the control's error table raise
    from Control< Rule >::failure(); must< Rule > raises with that message.  Nested inside predicates, repetitions,
    choices and the try_catch family."""
    rnd = random.Random(seed * 131 + 9)
    out = []
    bodies = [
        ("N1", ["N1"]), ("sor< N1, one< 'c' > >", ["N1"]), ("seq< opt< N0 >, N1 >", ["N1"]), ("seq< N0, one< 'c' > >", ["N0"]),
        ("must< N1 >", ["N1"]), ("seq< one< 'a' >, must< N1 > >", ["N1"]), ("must< N0, N1 >", ["N0"]), ("star< N1 >", ["N1"]),
        ("if_must< one< 'a' >, N1 >", ["N1"]), ("sor< seq< N1, one< 'c' > >, N0 >", ["N0", "N1"]), ("seq< at< N0 >, N1 >", ["N0"]),
        ("seq< not_at< N1 >, any >", ["N1"]), ("plus< sor< one< 'c' >, N1 > >", ["N1"]), ("seq< NC, must< NC > >", ["NC"]),
        ("seq< one< 'a' >, must< NC > >", []),        # custom error_message on an unmarked rule: must_if falls back to the base raise
    ]
    ctxs = _contexts()
    for bi, (b, marks) in enumerate(bodies):
        picks = [ctxs[0], ctxs[(bi * 5 + 3) % len(ctxs)]] if tier != "thorough" else [ctxs[0]] + [ctxs[(bi * 5 + 3 + 4 * j) % len(ctxs)] for j in range(4)]
        for cn, wrap in picks:
            g = _mk(wrap(b), ["c05", "c05:mustif", "raise", "ctx:" + cn])
            g.mustif = set(marks)
            out.append(g)
        for ti in ([bi % len(TC), (bi + 4) % len(TC)] if tier != "thorough" else range(len(TC))):
            g = _mk(_tc(ti, b), ["c05", "c05:mustif", "catch", "tc%d" % ti])
            g.mustif = set(marks)
            out.append(g)
    # the documented opt-out: message in the error table, raise_on_failure = false -> local failure stays local, must< R > raises "mustif"
    for b, marks in [("sor< N1, one< 'c' > >", ["~N1"]), ("seq< opt< N0 >, sor< N1, must< N1 > > >", ["~N1"]), ("star< sor< N1, one< 'c' > > >", ["~N1", "N0"]),
                     ("sor< seq< N1, one< 'c' > >, N0, must< N1 > >", ["~N0", "~N1"]), ("if_must< one< 'a' >, N1 >", ["~N1"])]:
        for cn, wrap in [ctxs[0], ctxs[1], ctxs[4]]:
            g = _mk(wrap(b), ["c05", "c05:mustif", "c05:soft", "raise", "ctx:" + cn])
            g.mustif = set(marks)
            out.append(g)
    # the root itself and a try_catch rule as must_if rules: the raise comes out of the rule's OWN failure(), outside its try block
    g = _mk("seq< N1, one< 'c' > >", ["c05", "c05:mustif", "raise"]); g.mustif = {"G"}; out.append(g)
    g = corpus.Gram(0, [("T0", "try_catch_return_false< seq< one< 'a' >, must< one< 'b' > > > >")], "sor< T0, star< any > >", tags=["c05", "c05:mustif", "catch"], mustif=["T0"]); out.append(g)
    g = corpus.Gram(0, [("T0", "try_catch_any_raise_nested< seq< one< 'a' >, one< 'b' > > >")], "seq< opt< one< 'c' > >, T0 >", tags=["c05", "c05:mustif", "catch"], mustif=["T0"]); out.append(g)
    return out


MUSTIF_CFGS = [("act0", "ctl4", 1, 1, "lf_crlf"), ("act0", "ctl5", 1, 0, "lf_crlf"), ("act3", "ctl4", 1, 0, "lf_crlf"), ("act5", "ctl4", 1, 1, "lf_crlf"),
               ("act1", "ctl5", 0, 1, "lf_crlf", "lazy"), ("act6", "ctl5", 1, 0, "lf", "init")]


def extra_grams(tier, seed, start_gid):
    base = corpus.systematic(tier)

    def cls(g):
        if "catch" in g.tags:
            return "catch"
        if "raise" in g.tags:
            return "raise"
        if any(t.startswith("basis:") and ("raising" in t or "cfraise" in t) for t in g.tags):
            return "rbasis"
        return "other"
    sel = []
    cnt = {"catch": 0, "raise": 0, "rbasis": 0, "other": 0}
    step = {"quick": {"catch": 2, "raise": 3, "rbasis": 4, "other": 12}, "thorough": {"catch": 2, "raise": 8, "rbasis": 8, "other": 64}}[tier if tier in ("quick", "thorough") else "quick"]
    for g in base:
        c = cls(g)
        cnt[c] += 1
        if (cnt[c] + seed) % step[c] == 0 and "maybe_loop" not in g.tags:
            sel.append(g)
    nrand = 8 if tier != "thorough" else 50
    sel += corpus.random_grammars(seed, nrand, start_gid=0)
    sel += [g for g in corpus.atom_grammars(tier, start_gid=0) if "must" in g.root or "raise" in g.root]
    sel += _c05_family(tier, seed)
    sel += _mustif_family(tier, seed)
    return sel


C05_CFGS = [
    ("act0", "ctl2", 1, 1, "lf_crlf"),            # 0 no actions, required, invocation trace
    ("act5", "ctl2", 1, 0, "lf_crlf"),            # 1 throwing std actions, optional
    ("act6", "ctl2", 1, 1, "lf_crlf"),            # 2 throwing foreign actions, required
    ("act3", "ctl3", 1, 0, "lf_crlf"),            # 3 veto everywhere, optional, control without unwind
    ("act6", "ctl3", 1, 0, "lf_crlf"),            # 4 foreign, optional, no unwind
    ("act5", "ctl2", 1, 1, "lf_crlf", "lazy"),    # 5 std, required, lazy tracking
    ("act0", "ctl2", 1, 0, "lf_crlf", "init"),    # 6 initial counters 7-3-5
    ("act1", "ctl0", 1, 1, "lf_crlf"),            # 7 void actions, no trace
    ("act0", "ctl2", 0, 0, "lf_crlf"),            # 8 apply_mode::nothing
    ("act8", "ctl1", 1, 1, "lf_crlf", "lazy+init"),
]
POS_CFGS = [("act0", "ctl2", 1, 1, "lf"), ("act0", "ctl2", 1, 0, "crlf", "lazy"), ("act1", "ctl2", 1, 1, "lf_crlf", "init"),
            ("act0", "ctl3", 1, 1, "cr"), ("act5", "ctl2", 1, 0, "lf", "lazy+init"), ("act0", "ctl2", 1, 1, "cr_crlf")]


def _finding_listed():
    try:
        import vlib
        sig = KNOWN_SIGS["KNOWN:lazy-rematch-position"]
        return any(k.get("property") == "C05" and k.get("status") == "open" and k.get("signature") == sig for k in vlib.load_known_findings())
    except Exception:      # noqa
        return False


def choose_cfgs(g, k, tier):
    if "c05:known" in g.tags:
        return [("act0", "ctl2", 1, 1, "lf_crlf", "lazy+init")]
    if "atoms" in g.tags:
        return er.EOL_CFGS
    if "c05:mustif" in g.tags:
        # the vetoing family under must_if (a rule that matched but was vetoed must still raise from failure()) for every grammar
        return MUSTIF_CFGS if tier == "thorough" else sorted(set([MUSTIF_CFGS[0], MUSTIF_CFGS[2], MUSTIF_CFGS[1 + k % 5]]))
    if "c05:pos" in g.tags:
        return POS_CFGS if tier == "thorough" else POS_CFGS[:4] + [POS_CFGS[4 + k % 2]]
    if tier == "thorough":
        idx = [0, 1, 2, 3 + k % 2, 5 + k % 5]
    else:
        idx = [0, 1 + k % 2, [3, 4, 5, 6, 7, 8, 9][k % 7]]
        if "c05" in g.tags or "catch" in g.tags:
            idx = [0, 1 + k % 2, [2 - k % 2, 3, 4, 5, 6, 8][(k // 2) % 6]]
    return [C05_CFGS[i] for i in sorted(set(idx))]
