"""engine_check — shared body of the engine property checks (C01, C02, C04, C05, C06, C08, C09, C13).

Per chunk (= one translation unit of generated grammars), in a worker process:
  compile against /repo/include (cached by content), dump the tables, run the extracted model
  and the implementation on the same cases, compare the property's projection, run the
  property's oracle on the implementation's trace.  The parent aggregates."""
import collections
import concurrent.futures
import re

import importlib

import engine_props as ep
import engine_run as er
import vlib


def prop_module(pid):
    """optional property-specific module lib/props_<id>.py:  oracle(K, rec, counters) -> [messages],
    extra_grams(tier, seed, start_gid) -> [corpus.Gram], choose_cfgs(g, k, tier) -> [cfg tuples] or None,
    projection(rec, K, model) -> str, KNOWN_SIGS = {"KNOWN:tag": signature}, WANT_TAGS, BASE_CORPUS (bool), MAXLEN"""
    try:
        return importlib.import_module("props_" + pid.lower())
    except ModuleNotFoundError as e:
        if e.name != "props_" + pid.lower():
            raise
        return None


KNOWN_SIGS = {
    "KNOWN:own-action-throws": "a rule whose own action throws gets start but no success/failure/unwind",
}


def case_of(K, r):
    g = K.grams[r["gid"]]
    return {"gid": r["gid"], "root": g.root, "rules": g.rules, "cfg": r["cfg"], "input_hex": r["input"]}


def signature(K, rec, msg):
    g = K.grams[rec["gid"]]
    skip = ("classical", "loop", "raise", "catch", "switch", "state", "inline", "random", "maybe_loop")
    tags = sorted(t for t in g.tags if not t.startswith(("ctx:", "basis:")) and t not in skip)
    m = re.sub(r"\d+", "#", msg)
    return ("%s: %s" % ("/".join(tags) or "random", m))[:200]


def work(args):
    common, ch, cfgs_of, maxlen, pid, sanitize = args
    out = {"known_seen": set(), "diffs": [], "violations": [], "n": 0, "ndiff": 0, "cells": collections.Counter(), "nontrivial": set(), "samples": [],
           "dist": collections.Counter(), "error": None, "gids": [g.gid for g in ch], "extra": collections.Counter()}
    try:
        K = er.run_chunk(common, ch, cfgs_of, maxlen, sanitize=sanitize)
    except Exception as e:  # noqa
        out["error"] = "exception in worker: %r" % (e,)
        return out
    if K.error:
        out["error"] = K.error
        out["crash"] = getattr(K, "crash", None)
        return out
    pm_ = prop_module(pid)
    oracle = getattr(pm_, "oracle", None) or ep.ORACLES.get(pid)
    proj = getattr(pm_, "projection", None)
    known_sigs = dict(KNOWN_SIGS)
    known_sigs.update(getattr(pm_, "KNOWN_SIGS", {}))
    if pid == "C01":
        for g in ch:
            if g.surface is not None:
                t = K.tie.get(g.gid)
                out["extra"]["classical_grammars"] += 1
                if t == "1":
                    out["extra"]["structure_tie_ok"] += 1
                elif t == "0":
                    out["ndiff"] += 1
                    out["diffs"].append(("structure tie failed: the table dumped by the compiler does not denote the surface grammar (Denote.structure_tie)",
                                         {"gid": g.gid, "root": g.root, "rules": g.rules, "surface": g.surface}, None, None))
    for ri, rm in zip(K.impl, K.model):
        out["n"] += 1
        out["dist"][len(ri["input"]) // 2 if ri["input"] != "-" else 0] += 1
        if ri["res"] == "BUDGET":
            out["cells"]["budget_exhausted_not_compared"] += 1      # terminating but very expensive run (exponential backtracking)
            continue
        if rm["res"] in ("OOF", "ERR") or ri["res"] == "RUNAWAY":
            out["cells"]["nonterminating"] += 1
            if not (rm["res"] == "OOF" and ri["res"] == "RUNAWAY"):
                out["ndiff"] += 1
                if len(out["diffs"]) < 5:
                    out["diffs"].append(("termination / bounds verdict differs", case_of(K, ri), ri["res"], rm["res"]))
            continue
        if proj:
            pi = proj(ri, K, False)
            pm = proj(rm, K, True)
        else:
            pi = ep.projection(ri, pid)
            pm = ep.projection(rm, pid, K=K, model=True)
        if pi != pm:
            out["ndiff"] += 1
            if len(out["diffs"]) < 5:
                out["diffs"].append(("trace projection %s differs" % pid, case_of(K, ri), pi[:1500], pm[:1500]))
        kind = ri["res"][:1] + ("+" if ri["cur"].split(",")[0] != "0" else "0")
        out["cells"][kind] += 1
        out["nontrivial"].add((ri["gid"], ri["cfg"], kind, ri["events"].count(";") // 4))
        if oracle:
            msgs = oracle(K, ri, out["extra"])
            for msg in msgs[:3]:
                if msg.startswith("KNOWN:"):
                    sig = known_sigs[msg.split("|")[0]]
                    if sig not in out["known_seen"]:
                        out["known_seen"].add(sig)
                        g = K.grams[ri["gid"]]
                        out["violations"].append((sig, sig, {"grammar_cpp": g.cpp(), "cfg": ri["cfg"], "input_hex": ri["input"], "impl_trace": ri["events"][:2000],
                                                             "gram": {"gid": g.gid, "rules": g.rules, "root": g.root, "surface": g.surface, "tags": sorted(g.tags), "pre": g.pre}}))
                    out["extra"]["known_finding_occurrences"] += 1
                    continue
                if len(out["violations"]) < 40:
                    g = K.grams[ri["gid"]]
                    out["violations"].append((signature(K, ri, msg), msg,
                                              {"grammar_cpp": g.cpp(), "cfg": ri["cfg"], "input_hex": ri["input"], "impl_trace": ri["events"][:4000],
                                               "impl_result": ri["res"], "impl_cursor": ri["cur"],
                                               "gram": {"gid": g.gid, "rules": g.rules, "root": g.root, "surface": g.surface, "tags": sorted(g.tags), "pre": g.pre}}))
        if len(out["samples"]) < 2 and ri["events"].count(";") > 8 and (ri["gid"] * 7 + len(ri["input"])) % 97 == 0:
            out["samples"].append({"grammar": K.grams[ri["gid"]].root, "cfg": ri["cfg"], "input_hex": ri["input"], "result": ri["res"], "cursor": ri["cur"],
                                   "events": ri["events"][:300]})
    out["nontrivial"] = len(out["nontrivial"])
    out["known_seen"] = sorted(out["known_seen"])
    return out


def run(ctx, pid, want_tags=None, sanitize_thorough=False):
    ctx.proofs("Properties_" + pid)
    pm_ = prop_module(pid)
    grams, cfgs_of, chunks, maxlen = er.plan(ctx.tier, ctx.seed, want_tags=want_tags or getattr(pm_, "WANT_TAGS", None),
                                             extra=getattr(pm_, "extra_grams", None), choose=getattr(pm_, "choose_cfgs", None),
                                             base=getattr(pm_, "BASE_CORPUS", True), maxlen=getattr(pm_, "MAXLEN", {}).get(ctx.tier) if pm_ else None)
    common = er.prepare_common()
    jobs = [(common, ch, cfgs_of, maxlen, pid, False) for ch in chunks]
    if sanitize_thorough and ctx.tier == "thorough":
        # same corpus again under ASan+UBSan on exact-size heap buffers (atoms and every 4th chunk)
        jobs += [(common, ch, cfgs_of, maxlen, pid, True) for i, ch in enumerate(chunks) if i % 4 == 0 or any("atoms" in g.tags for g in ch)]
    with concurrent.futures.ProcessPoolExecutor(max_workers=vlib.JOBS) as ex:
        results = list(ex.map(work, jobs))
    n = ndiff = nontrivial = 0
    cells = collections.Counter()
    dist = collections.Counter()
    extra = collections.Counter()
    samples = []
    for r in results:
        if r["error"]:
            if r.get("crash"):
                ctx.violation("crash/sanitizer: " + re.sub(r"0x[0-9a-f]+|\d+", "#", r["crash"]["report"])[:150], r["error"][:600], r["crash"])
            else:
                ctx.diff("corpus chunk could not be built/run/translated against the current tree", {"gids": r["gids"], "error": r["error"]})
            continue
        n += r["n"]
        ndiff += r["ndiff"]
        nontrivial += r["nontrivial"]
        cells.update(r["cells"])
        dist.update(r["dist"])
        extra.update(r["extra"])
        samples += r["samples"]
        for what, case, impl, model in r["diffs"]:
            if len(ctx.diffs) < 25:
                ctx.diff(what, case, impl=impl, model=model)
        for sig, msg, replay in r["violations"]:
            ctx.violation(sig, msg, replay)
    if ndiff > len(ctx.diffs):
        ctx.note("%d trace differences in total" % ndiff)
        if not ctx.diffs:
            ctx.diff("trace differences", {"count": ndiff})
    ctx.cover(evaluations=n, distinct=nontrivial, validated=n - ndiff,
              rule="systematic head x behaviour-basis x calling-context grammars + seeded random grammars (VERIF_SEED), every input over {a,b,c} up to length %d, 3-7 configurations each (action family x control family x apply mode x rewind mode); distinct non-trivial = distinct (grammar, configuration, outcome class, trace-length bucket)" % maxlen,
              samples=samples[:8] or [{"note": "no sample selected"}],
              grammars=len(grams), outcome_cells=dict(cells), input_length_histogram={str(k): v for k, v in sorted(dist.items())},
              oracle_counters=dict(extra),
              templates=len({t for g in grams for t in g.tags if not t.startswith(("ctx:", "basis:"))}))


def replay(j):
    """bin/check --replay <file>: rebuild the stored grammar against the current tree, run the stored
    configuration and input through implementation and model, re-evaluate the property's oracle."""
    import corpus
    pid = j["property"]
    rp = j.get("replay") or {}
    if "gram" not in rp:
        print("replay file carries no concrete case (kind=%s)" % j.get("kind"))
        print(j.get("broken") or j.get("what"))
        return 1
    gd = rp["gram"]
    g = corpus.Gram(gd["gid"], [tuple(x) for x in gd["rules"]], gd["root"], tags=gd["tags"], surface=gd["surface"], pre=gd.get("pre", ""))
    inp = bytes.fromhex(rp["input_hex"]).decode("latin1") if rp["input_hex"] != "-" else ""
    g.alphabet = ""
    g.extra_inputs = [inp] if inp else []
    g.maxlen = 0
    cfgs = [er.cfg_of_name(rp["cfg"])]
    common = er.prepare_common()
    K = er.run_chunk(common, [g], {g.gid: cfgs[:1]}, 0, label="replay")
    if K.error:
        print("REPLAY: could not run:", K.error)
        return 1
    pm_ = prop_module(pid)
    oracle = getattr(pm_, "oracle", None) or ep.ORACLES.get(pid)
    proj = getattr(pm_, "projection", None)
    bad = 0
    cnt = collections.Counter()
    for ri, rm in zip(K.impl, K.model):
        if ri["input"] != rp["input_hex"]:
            continue
        print("impl :", ri["res"], ri["cur"], ri["events"][:400])
        print("model:", rm["res"], rm["cur"], rm["events"][:400])
        differ = (proj(ri, K, False) != proj(rm, K, True)) if proj else (ep.projection(ri, pid) != ep.projection(rm, pid, K=K, model=True))
        if differ:
            print("REPLAY: model and implementation differ on the %s projection" % pid)
            bad += 1
        for msg in (oracle(K, ri, cnt) if oracle else []):
            if msg.startswith("KNOWN:"):
                print("REPLAY: known finding reproduced:", msg)
                continue
            print("REPLAY: VIOLATION reproduced:", msg)
            bad += 1
    if not bad:
        print("REPLAY: not reproduced on the current tree")
    return 1 if bad else 0
