"""props_c01 — C01 uses the shared corpus plus the required-context booster of props_c02 (every combinator template
with the consume-then-fail basis in every slot under a non-last sor alternative / a loop body): the classical ones
carry a surface term, so the formalism oracle (Spec.peg_fn) judges them.  Plus the degenerate atoms: empty value
lists (one<> is the formalism's failure, not_one<> its dot) and literals with an embedded NUL byte."""
import corpus
import props_c02
from props_c02 import choose_cfgs, BOOST_CFGS   # noqa: F401

BASE_CORPUS = True


def _degenerate():
    T = corpus.T
    atoms = [
        T("one<>", "(failure)"), T("not_one<>", "(any)"),
        T("string< 'a', 0, 'b' >", "(string 97 0 98)"), T("string< 0 >", "(string 0)"), T("one< 0, 'b' >", "(one 0 98)"), T("not_one< 0 >", "(not_one 0)"),
        T("string< 'a', 'b', 'c' >", "(string 97 98 99)"), T("range< 0, 'a' >", "(range 0 97)"),
    ]
    ctxs = dict(corpus.contexts())
    out = []
    for t in atoms:
        for cname in ("top", "sor_first", "star_body", "under_not_at", "opt_then"):
            g = corpus.mk(0, ctxs[cname](t), ["classical", "c01:degenerate", "ctx:" + cname])
            g.alphabet = "a\0bc"
            g.extra_inputs = ["a\0b", "a\0c", "axy", "a\0ba\0b", "\0", "\0\0", "ab\0"]
            g.maxlen = 3
            out.append(g)
    return out


def extra_grams(tier, seed, start_gid):
    return props_c02.extra_grams(tier, seed, start_gid) + _degenerate()
