"""props_c01 — C01 uses the shared corpus plus the required-context booster of props_c02 (every combinator template
with the consume-then-fail basis in every slot under a non-last sor alternative / a loop body): the classical ones
carry a surface term, so the formalism oracle (Spec.peg_fn) judges them."""
from props_c02 import extra_grams, choose_cfgs, BOOST_CFGS   # noqa: F401

BASE_CORPUS = True
