"""props_c13 — C13 (state / action / control switching is scoped) on the shared engine pipeline.

oracle      : judges the IMPLEMENTATION's event log against the specification side, never against the model:
              1. the scope checker StateScope.accepts EXTRACTED from Coq (coq/ExtractC13.v + driver/c13_driver.ml), run once
                 per chunk over every log that carries the invocation trace (control families ctl2 / ctl3);
              2. its Python mirror (class Machine: same frames, same lexical-scope functions child_dv / own), which adds what
                 the real state objects report beyond the model's events — instance ids, the `outer` instance handed to the
                 constructor and to success(), the instance every action saw — and readable messages; a disagreement
                 between mirror and extracted checker is itself reported;
              3. without the invocation trace (ctl0 / ctl1): nesting of N/Y/D, ids, outer instances, instance seen by actions;
              4. grammars tagged multi:<kind>: a surface-level expectation for multi-argument switch rules
                 (action< A, R1, R2 >, control<>, disable<>, enable<>, state<>): the whole pack, nothing behind it.
projection  : result kind + state / action / hook / invocation events (model vs implementation).
extra_grams : every switch kind attached to a named rule (custom family act9/act10) x calling contexts
              (backtracking, predicates, disabled sections, loops, must<> / throwing actions inside the scope,
              apply_mode::nothing, nesting) + hand-written specials.
"""
import os
import re
import subprocess
import tempfile

import corpus
import engine_run as er
import vlib

WANT_TAGS = {"state", "switch", "c13"}
BASE_CORPUS = True
MAXLEN = {"quick": 4, "thorough": 5}
KNOWN_SIGS = {}


# --------------------------------------------------------------------------- configuration of a grammar
ACT_RE = re.compile(r"template<>\s*struct\s+act(\d+)<\s*@NS@::(\w+)\s*>\s*:\s*(m_\w+)(?:<\s*(?:vh::)?(?:act|ctl)?(\d+)\s*>)?")


def custom_acts(K, gid):
    """{(family, node): (kind, arg)} of the match-level actions the grammar's `pre` text attaches"""
    cache = K.__dict__.setdefault("_c13_acts", {})
    if gid in cache:
        return cache[gid]
    g = K.grams[gid]
    by_name = {}
    for node, (nm, _) in K.names.items():
        by_name[nm] = node
    out = {}
    for m in ACT_RE.finditer(g.pre or ""):
        fam, name, kind, arg = int(m.group(1)), m.group(2), m.group(3)[2:], m.group(4)
        node = by_name.get("g%d::%s" % (gid, name))
        if node is not None:
            out[(fam, node)] = (kind, int(arg) if arg is not None else None)
    cache[gid] = out
    return out


def reachable(K, root):
    seen = set()
    todo = [root]
    while todo:
        r = todo.pop()
        if r in seen or r not in K.table:
            continue
        seen.add(r)
        todo += K.table[r]["subs"]
    return seen


def untraced_possible(K, gid, root, ctl0):
    """can a control family without invocation trace (ctl0 / ctl1) become active in this grammar?"""
    cache = K.__dict__.setdefault("_c13_untraced", {})
    key = (gid, root)
    if key not in cache:
        bad = False
        for r in reachable(K, root):
            h = K.table[r]["head"]
            if h[0] == "control" and int(h[1]) < 2:
                bad = True
        for (_, _), (kind, arg) in custom_acts(K, gid).items():
            if kind == "change_control" and arg is not None and arg < 2:
                bad = True
        cache[key] = bad
    return cache[key] or ctl0 < 2


# --------------------------------------------------------------------------- the lexical-scope functions (StateScope.v)
def state_action(ak):
    return ak is not None and ak[0] in ("change_state", "change_action_and_state")


def redispatch(ak):
    if ak is not None and ak[0] in ("change_action", "change_action_and_state"):
        return ak[1]
    return None


def eff(ak, v):
    a, fam, ctl = v
    if ak is not None:
        if ak[0] == "change_control":
            return (a, fam, ak[1])
        if ak[0] == "enable_action":
            return (1, fam, ctl)
        if ak[0] == "disable_action":
            return (0, fam, ctl)
    return v


def child_of_head(head, v, a, ctl):
    pa, fam, pctl = v
    h = head[0]
    if h == "enable":
        ok = a == 1
    elif h in ("disable", "at", "not_at"):
        ok = a == 0
    elif h == "rep_min_max":
        ok = (a == 0) or (a == pa)
    else:
        ok = a == pa
    cctl = int(head[1]) if h == "control" else pctl
    cfam = int(head[1]) if h == "action" else fam
    if ok and ctl == cctl:
        return (a, cfam, ctl)
    return None


class Machine:
    """frames: ["R", v] / ["I", r, v, pend, begin_pos] / ["B", r, kind, succ, inst]; pend = None | ("closed", succ)"""

    def __init__(self, K, gid, v0):
        self.K = K
        self.acts = custom_acts(K, gid)
        self.st = [["R", v0]]
        self.prev = None
        self.counter = 0

    def ak(self, fam, r):
        return self.acts.get((fam, r))

    def sealed(self):
        t = self.st[-1]
        return (t[0] == "B" and t[3] is not None) or (t[0] == "I" and t[3] is not None)

    def ctx(self):
        for f in reversed(self.st):
            if f[0] != "B":
                return f
        return None

    def innermost_inst(self, skip=0):
        n = 0
        for f in reversed(self.st):
            if f[0] == "B":
                if n == skip:
                    return f[4]
                n += 1
        return 0

    def child_dv(self, a, ctl):
        if self.sealed():
            return None, "an event follows the delivery of success / the destruction of the state of change_state"
        f = self.ctx()
        if f[0] == "R":
            return ((f[1] if (a == f[1][0] and ctl == f[1][2]) else None), "root entered with other modes than parse<> was called with")
        if f[0] == "I" and f[3] is None:
            r0, v0 = f[1], f[2]
            ak = self.ak(v0[1], r0)
            nf = redispatch(ak)
            if nf is not None:
                if a == v0[0] and ctl == v0[2]:
                    return (a, nf, ctl), ""
                return None, "re-dispatch of rule %d by %s changes apply mode / control" % (r0, ak[0])
            v1 = eff(ak, v0)
            head = self.K.table.get(r0, {"head": ["?"]})["head"]
            v = child_of_head(head, v1, a, ctl)
            return v, "child of rule %d (%s%s, values A=%d fam=%d ctl=%d) entered with A=%d ctl=%d" % (
                r0, head[0], (" + " + ak[0]) if ak else "", v1[0], v1[1], v1[2], a, ctl)
        return None, "invocation entered in a closed frame"

    def own(self):
        if self.sealed() or (self.st[-1][0] == "B" and self.st[-1][2] == "KS"):
            return None
        f = self.ctx()
        if f[0] == "I" and f[3] is None:
            ak = self.ak(f[2][1], f[1])
            if redispatch(ak) is None:
                return f[1], eff(ak, f[2])
        return None

    def pre_a(self):
        t = self.st[-1]
        return t[0] == "I" and t[3] is None and state_action(self.ak(t[2][1], t[1]))

    def step(self, k, n, counters):
        """returns None or a message"""
        st = self.st
        if k == "B":
            ctl, r, a, pos = n[0], n[1], n[2], tuple(n[4:7])
            v, why = self.child_dv(a, ctl)
            if v is None:
                return "switch scope: " + why
            st.append(["I", r, v, None, pos])
            counters["invocations_checked"] += 1
        elif k == "E":
            ctl, r, res, pos = n[0], n[1], n[2], tuple(n[3:6])
            t = st[-1]
            if t[0] != "I" or t[1] != r:
                return "exit of rule %d while %s is innermost (state not destroyed before the frame is left?)" % (r, "a state block" if t[0] == "B" else "rule %s" % (t[1] if len(t) > 2 else "?"))
            if ctl != t[2][2]:
                return "exit of rule %d reported by control %d, entered with control %d" % (r, ctl, t[2][2])
            if t[3] is not None:
                want = pos if (t[2][0] == 1 and res == 1) else None
                if t[3][1] != want:
                    if want is None:
                        return "change_state: success delivered at %s although rule %d returned %d with apply mode %d" % (t[3][1], r, res, t[2][0])
                    if t[3][1] is None:
                        return "change_state: rule %d matched with actions enabled but the state never received success" % r
                    return "change_state: success position %s is not the cursor after the match %s (rule %d)" % (t[3][1], want, r)
                counters["action_state_blocks"] += 1
            st.pop()
        elif k == "N":
            inst, outer, pos = n[0], n[1], tuple(n[2:5])
            self.counter += 1
            if inst != self.counter:
                return "state instance ids not consecutive at construction: %d after %d" % (inst, self.counter - 1)
            if outer != self.innermost_inst():
                return "state %d constructed with outer state %d, innermost open state is %d" % (inst, outer, self.innermost_inst())
            f = self.ctx()
            if f[0] == "I" and f[4] != pos:
                return "state %d constructed at %s, the attached rule %d was entered at %s" % (inst, pos, f[1], f[4])
            if self.pre_a():
                st.append(["B", st[-1][1], "KA", None, inst])
            else:
                o = self.own()
                if o is None or self.K.table.get(o[0], {"head": ["?"]})["head"][0] != "state":
                    return "state %d constructed where no state<> rule / change_state action is attached (innermost rule %s)" % (inst, o[0] if o else "?")
                st.append(["B", o[0], "KS", None, inst])
            counters["state_blocks"] += 1
        elif k == "Y":
            inst, outer, pos = n[0], n[1], tuple(n[2:5])
            t = st[-1]
            if t[0] != "B" or t[4] != inst:
                return "success for state %d which is not the innermost open state" % inst
            if t[3] is not None:
                return "success delivered twice to state %d" % inst
            if outer != self.innermost_inst(skip=1):
                return "success of state %d received outer state %d, expected %d" % (inst, outer, self.innermost_inst(skip=1))
            if t[2] == "KS":
                p = self.prev
                if not (p and p[0] == "E" and p[1][2] == 1):
                    return "state<>: success delivered to state %d although the sub-rule did not just return true" % inst
                if tuple(p[1][3:6]) != pos:
                    return "state<>: success position %s is not the cursor after the match %s" % (pos, tuple(p[1][3:6]))
            t[3] = pos
            counters["successes"] += 1
        elif k == "D":
            inst = n[0]
            t = st[-1]
            if t[0] != "B" or t[4] != inst:
                return "state %d destroyed while it is not the innermost open state / frame" % inst
            if t[2] == "KS":
                p = self.prev
                if t[3] is None and p and p[0] == "E" and p[1][2] == 1:
                    return "state<>: the sub-rule matched but state %d was destroyed without success" % inst
                st.pop()
            else:
                st.pop()
                b = st[-1]
                if b[0] != "I" or b[3] is not None:
                    return "change_state block of state %d not directly inside its rule's frame" % inst
                b[3] = ("closed", t[3])
        elif k in "SOFU":
            ctl, r = n[0], n[1]
            o = self.own()
            if o is None or o[0] != r:
                return "hook %s of rule %d outside that rule's own frame" % (k, r)
            if o[1][2] != ctl:
                return "switch scope: hook %s of rule %d reported by control %d, control in force is %d" % (k, r, ctl, o[1][2])
        elif k in "AZ":
            fam, r, inst = n[0], n[1], n[-1]
            o = self.own()
            if o is None or o[0] != r:
                return "action of rule %d outside that rule's own frame" % r
            if o[1][1] != fam:
                return "switch scope: action of family %d called for rule %d, family in force is %d" % (fam, r, o[1][1])
            if o[1][0] != 1:
                return "switch scope: action called for rule %d although actions are disabled here" % r
            if inst != self.innermost_inst():
                return "action of rule %d saw state %d, innermost open state is %d" % (r, inst, self.innermost_inst())
            counters["actions_checked"] += 1
        elif k in "RG":
            o = self.own()
            if o is None:
                return "raise outside any rule's own frame"
            if o[1][2] != n[0]:
                return "switch scope: raise reported by control %d, control in force is %d" % (n[0], o[1][2])
        elif k in "IJ":
            o = self.own()
            if o is None or o[1][0] != 1:
                return "switch scope: inline action called although actions are disabled here"
        self.prev = (k, n)
        return None


def weak_oracle(evs, counters):
    """without the invocation trace: nesting, instance ids, outer instances, success placement, instance seen by actions"""
    stack = []
    counter = 0
    prev = None
    for k, n in evs:
        top = stack[-1][0] if stack else 0
        if prev and prev[0] == "Y" and k != "D":
            return ["an event follows success of state %d before its destruction" % prev[1][0]]
        if k == "N":
            counter += 1
            if n[0] != counter:
                return ["state instance ids not consecutive at construction: %d after %d" % (n[0], counter - 1)]
            if n[1] != top:
                return ["state %d constructed with outer state %d, innermost open state is %d" % (n[0], n[1], top)]
            stack.append([n[0], False])
        elif k == "Y":
            if not stack or stack[-1][0] != n[0]:
                return ["success for state %d which is not the innermost open state" % n[0]]
            if stack[-1][1]:
                return ["success delivered twice to state %d" % n[0]]
            outer = stack[-2][0] if len(stack) > 1 else 0
            if n[1] != outer:
                return ["success of state %d received outer state %d, expected %d" % (n[0], n[1], outer)]
            stack[-1][1] = True
        elif k == "D":
            if not stack or stack[-1][0] != n[0]:
                return ["state %d destroyed while it is not the innermost open state" % n[0]]
            stack.pop()
        elif k in "AZ":
            if n[-1] != top:
                return ["action of rule %d saw state %d, innermost open state is %d" % (n[1], n[-1], top)]
            counters["actions_checked"] += 1
        prev = (k, n)
    if stack:
        return ["%d states never destroyed" % len(stack)]
    return []


def surface_oracle(K, rec, evs, counters):
    """grammars tagged multi:<kind>: the root is  seq< SW< L1, L2 >, L3 >  (disable< enable< L1, L2 >, L3 > for enable) in the
    SURFACE text; the switch must cover every rule of its pack and nothing behind it, whatever the library expands the pack to"""
    g = K.grams[rec["gid"]]
    kind = None
    for t in g.tags:
        if t.startswith("multi:"):
            kind = t[6:]
    if kind is None:
        return []
    cfg = rec["cfg"].split(".")
    fam0, ctl0, a0 = int(cfg[0]), int(cfg[1]), int(cfg[2])
    node = {}
    for nd, (nm, _) in K.names.items():
        for leaf in ("L1", "L2", "L3"):
            if nm == "g%d::%s" % (rec["gid"], leaf):
                node[nd] = leaf
    counters["surface_logs_checked"] += 1
    started = {}
    for k, n in evs:
        if k == "S" and n[1] in node:
            inside = node[n[1]] != "L3"
            started[node[n[1]]] = True
            want = 3 if (kind == "control" and inside) else ctl0
            if n[0] != want:
                return ["surface: start hook of %s reported by control %d, expected %d (%s)" % (node[n[1]], n[0], want, kind)]
        if k == "A" and n[1] in node:
            inside = node[n[1]] != "L3"
            if kind == "action" and n[0] != (1 if inside else fam0):
                return ["surface: action of family %d called for %s, expected %d (action<>)" % (n[0], node[n[1]], 1 if inside else fam0)]
            if kind == "disable" and inside:
                return ["surface: action called for %s inside disable<>" % node[n[1]]]
            if kind == "enable" and not inside:
                return ["surface: action called for L3 behind enable<> inside disable<>"]
            if kind == "state" and (n[-1] != 0) != inside:
                return ["surface: action for %s saw state %d (state< S, L1, L2 > followed by L3)" % (node[n[1]], n[-1])]
    if rec["res"] == "T" and rec["input"] == "616263" and a0 == 1:
        # "abc": all three leaves matched; where actions are expected they must have been called
        seen = {node[n[1]] for k, n in evs if k == "A" and n[1] in node}
        want = {"action": {"L1", "L2", "L3"}, "control": {"L1", "L2", "L3"}, "state": {"L1", "L2", "L3"}, "disable": {"L3"}, "enable": {"L1", "L2"}}[kind]
        if seen != want:
            return ["surface: on 'abc' actions were called for %s, expected %s (%s)" % (sorted(seen), sorted(want), kind)]
    return []


# --------------------------------------------------------------------------- the extracted Coq checker (StateScope.accepts)
_DRIVER = None


def checker_exe():
    global _DRIVER
    if _DRIVER is None:
        _DRIVER = vlib.build_ocaml("ExtractC13", "c13_driver.ml", "c13_driver")
    return _DRIVER


def full_mode(K, rec, evs):
    ctl0 = int(rec["cfg"].split(".")[1])
    return not (untraced_possible(K, rec["gid"], rec["root"], ctl0) or any(k in "SOFURG" and n[0] < 2 for k, n in evs))


def coq_verdicts(K):
    """run the extracted checker once per chunk over every implementation log that carries the invocation trace"""
    if "_c13_verdicts" in K.__dict__:
        return K._c13_verdicts
    out = {}
    K._c13_verdicts = out
    lines = []
    for i, rec in enumerate(K.impl):
        if rec["res"] == "RUNAWAY":
            continue
        if not full_mode(K, rec, er.events_of(rec)):
            continue
        cfg = rec["cfg"].split(".")
        lines.append("LOG %d %s %s %s %s" % (i, cfg[0], cfg[1], cfg[2], rec["events"].replace(" ", "") or "-"))
    if not lines:
        return out
    dump = []
    for node, nd in sorted(K.table.items()):
        dump.append("NODE %d %d %d %d %s | %s" % (node, 1 if nd["enabled"] else 0, 1 if nd["named"] else 0, len(nd["subs"]),
                                                  " ".join(str(x) for x in nd["subs"]), " ".join(nd["head"])))
    for gid in K.grams:
        for (fam, node), (kind, arg) in sorted(custom_acts(K, gid).items()):
            dump.append("ACT %d %d %s%s" % (fam, node, kind, (" %d" % arg) if arg is not None else ""))
    with tempfile.TemporaryDirectory(prefix="c13-") as d:
        with open(os.path.join(d, "dump.txt"), "w") as fh:
            fh.write("\n".join(dump) + "\n")
        with open(os.path.join(d, "logs.txt"), "w") as fh:
            fh.write("\n".join(lines) + "\n")
        p = subprocess.run([checker_exe(), os.path.join(d, "dump.txt"), os.path.join(d, "logs.txt")], stdout=subprocess.PIPE, stderr=subprocess.STDOUT,
                           text=True, errors="replace", timeout=1800)
    if p.returncode != 0:
        K._c13_verdict_error = "extracted scope checker failed: " + p.stdout[-500:]
        return out
    for l in p.stdout.split("\n"):
        t = l.split()
        if len(t) >= 3 and t[0] == "VERDICT":
            rec = K.impl[int(t[1])]
            out[(rec["gid"], rec["cfg"], rec["input"])] = " ".join(t[2:])
    return out


def oracle(K, rec, counters):
    if rec["res"] == "RUNAWAY":
        return []
    cfg = rec["cfg"].split(".")
    fam0, ctl0, a0 = int(cfg[0]), int(cfg[1]), int(cfg[2])
    evs = er.events_of(rec)
    out = weak_oracle(evs, counters)
    counters["logs_checked"] += 1
    if out:
        return out
    out = surface_oracle(K, rec, evs, counters)
    if out:
        return out
    if not full_mode(K, rec, evs):
        return []
    counters["logs_checked_full"] += 1
    # 1. the specification checker extracted from Coq (StateScope.accepts), applied to the implementation's log
    verdict = coq_verdicts(K).get((rec["gid"], rec["cfg"], rec["input"]))
    if verdict is None:
        return ["extracted scope checker gave no verdict: " + getattr(K, "_c13_verdict_error", "?")]
    counters["logs_checked_by_extracted_checker"] += 1
    # 2. its Python mirror (adds the instance bookkeeping and readable messages)
    m = Machine(K, rec["gid"], (a0, fam0, ctl0))
    mirror = None
    for i, (k, n) in enumerate(evs):
        msg = m.step(k, n, counters)
        if msg:
            mirror = "%s [event %d: %s%s]" % (msg, i, k, ",".join(str(x) for x in n))
            break
    if mirror is None and len(m.st) != 1:
        mirror = "%d frames / state blocks still open at the end of the run" % (len(m.st) - 1)
    if mirror is not None:
        return [mirror + ("" if verdict != "OK" else " [accepted by the extracted checker: mirror and checker disagree]")]
    if verdict != "OK":
        return ["the extracted scope checker (StateScope.accepts) rejects the log at event %s" % verdict.split()[-1]]
    # the verdict of parse<> is the root frame's
    if evs and evs[-1][0] == "E":
        want = {"T": 1, "F": 0}.get(rec["res"][:1], 2)
        if evs[-1][1][2] != want:
            return ["root frame result %d contradicts the parse result %s" % (evs[-1][1][2], rec["res"][:12])]
    return []


def projection(rec, K, model):
    res = er.canon_model_res(K, rec) if model else er.canon_impl_res(rec)
    return res[:1] + "|" + ";".join(e for e in rec["events"].split(";") if e[:1] in "NYDAZSOFBEIJ")


# --------------------------------------------------------------------------- property-specific grammars
def spec(fam, rule, base):
    base = base.replace("@R@", "@NS@::" + rule)
    return "template<> struct act%d< @NS@::%s > : %s { using vbase = %s; };" % (fam, rule, base, base)


def mkpre(items):
    return "namespace vh {\n" + "\n".join(spec(*it) for it in items) + "\n}"


LEAVES = [("L1", "one< 'a' >"), ("L2", "one< 'b' >"), ("L3", "one< 'c' >")]
LEAF_ACTS = [(9, "L1", "b_apply_void< 9, @R@ >"), (9, "L2", "b_apply_void< 9, @R@ >"), (9, "L3", "b_apply_void< 9, @R@ >"), (9, "G", "b_apply_void< 9, @R@ >")]

KINDS = [
    ("change_state", "m_change_state"),
    ("change_action", "m_change_action< vh::act1 >"),
    ("change_action_and_state", "m_change_action_and_state< vh::act1 >"),
    ("change_control", "m_change_control< vh::ctl3 >"),
    ("change_control2", "m_change_control< vh::ctl2 >"),
    ("enable_action", "m_enable_action"),
    ("disable_action", "m_disable_action"),
    ("change_action3", "m_change_action< vh::act3 >"),
]

BODIES = [
    ("cf", "seq< L1, L2 >"),
    ("opt", "seq< L1, opt< L2 > >"),
    ("must", "seq< L1, must< L2 > >"),
    ("inner_state", "seq< L1, state< vh::st< 1 >, opt< L2 > > >"),
]

CTXS = [
    ("top", "seq< N0, opt< L3 > >"),
    ("sor_bt", "sor< seq< N0, L3 >, seq< L1, opt< L2 >, opt< L1 > > >"),
    ("at", "seq< at< N0 >, opt< N0 >, opt< L3 > >"),
    ("not_at", "seq< not_at< N0 >, any, opt< L3 > >"),
    ("disable", "seq< disable< N0, opt< L3 > >, opt< L3 > >"),
    ("dis_en", "disable< seq< opt< L3 >, enable< N0 >, opt< L3 > > >"),
    ("star", "seq< star< N0 >, opt< L3 > >"),
    ("plus_sor", "plus< sor< seq< N0, L3 >, L1 > >"),
    ("try", "seq< try_catch_return_false< N0 >, opt< L1 >, opt< L3 > >"),
    ("rep_mm", "seq< rep_min_max< 1, 2, N0 >, opt< L3 > >"),
    ("if_apply", "seq< if_apply< N0, vh::ia< 0 > >, opt< L3 > >"),
    ("action", "seq< action< vh::act1, N0 >, opt< L3 > >"),
    ("control", "seq< control< vh::ctl3, N0 >, opt< L3 > >"),
    ("state", "seq< state< vh::st< 1 >, N0 >, opt< L3 > >"),
    ("until", "until< L3, N0 >"),
    ("enable", "seq< disable< L1 >, enable< N0 >, opt< L3 > >"),
]


def gram(rules, root, items, tags):
    return corpus.Gram(0, rules, root, tags=["c13"] + list(tags), pre=mkpre(items))


def specials():
    out = []
    L = LEAVES
    # nested change_state: N1 inside N0, both carry a state; leaf actions see the innermost
    out.append(gram(L + [("N1", "seq< L2, opt< L3 > >"), ("N0", "seq< L1, opt< N1 >, opt< L1 > >")], "seq< star< N0 >, opt< L3 > >",
                    LEAF_ACTS + [(9, "N0", "m_change_state"), (9, "N1", "m_change_state")], ["nested_change_state"]))
    # a state<> rule that itself carries change_state: two blocks in one frame
    out.append(gram(L + [("N0", "state< vh::st< 1 >, L1, opt< L2 > >")], "seq< sor< seq< N0, L3 >, N0 >, opt< L3 > >",
                    LEAF_ACTS + [(9, "N0", "m_change_state")], ["state_rule_with_change_state"]))
    # state actions that depend on the family in force: act10 attaches change_state to N1, act9 switches N0 to act10
    out.append(gram(L + [("N1", "seq< L2, opt< L3 > >"), ("N0", "seq< L1, opt< N1 > >")], "seq< opt< N1 >, star< N0 >, opt< N1 > >",
                    LEAF_ACTS + [(9, "N0", "m_change_action< vh::act10 >"), (10, "N1", "m_change_state"), (10, "L2", "b_apply_void< 10, @R@ >"), (10, "L3", "b_apply_void< 10, @R@ >")],
                    ["family_dependent_state"]))
    # throwing action (std / foreign) inside a state scope, caught outside: RAII destruction without success
    for b, tc in (("b_apply_throw_std< 9, @R@ >", "try_catch_std_return_false< %s >"), ("b_apply_throw_foreign< 9, @R@ >", "try_catch_type_return_false< vh::foreign_exn, %s >")):
        root = "seq< star< %s >, opt< L1 >, opt< L3 > >" % (tc % "N0")
        for kind in ("m_change_state", "m_change_action_and_state< vh::act5 >"):
            out.append(gram(L + [("N0", "seq< L1, plus< L2 > >")], root,
                            [(9, "L1", "b_apply_void< 9, @R@ >"), (9, "L2", b), (9, "L3", "b_apply_void< 9, @R@ >"), (9, "N0", kind)], ["throw_in_scope"]))
        out.append(gram(L + [("N0", "state< vh::st< 0 >, L1, plus< L2 > >")], root,
                        [(9, "L1", "b_apply_void< 9, @R@ >"), (9, "L2", b), (9, "L3", "b_apply_void< 9, @R@ >")], ["throw_in_state_rule"]))
    # vetoing action on the rule that carries the state's sub-rule / on leaves inside the scope
    out.append(gram(L + [("N0", "seq< L1, opt< L2 > >")], "seq< star< sor< state< vh::st< 0 >, N0, L3 >, N0 > >, opt< L3 > >",
                    [(9, "L1", "b_apply_bool< 9, @R@ >"), (9, "L2", "b_apply_void< 9, @R@ >"), (9, "L3", "b_apply_bool< 9, @R@ >"), (9, "N0", "b_apply_bool< 9, @R@ >")], ["veto_in_scope"]))
    # change_action_and_state on the root; uncaught must<> failure inside
    out.append(gram(L, "seq< L1, must< L2 >, opt< L3 > >", [(9, "G", "m_change_action_and_state< vh::act1 >")], ["root_change_action_and_state"]))
    # the switches chained: disable_action inside change_action inside change_control, siblings after each
    out.append(gram(L + [("N2", "seq< L2, opt< L3 > >"), ("N1", "seq< L1, opt< N2 >, opt< L1 > >"), ("N0", "seq< opt< N1 >, opt< L3 >, opt< L1 > >")],
                    "seq< star< N0, opt< L2 > >, opt< L3 > >",
                    LEAF_ACTS + [(9, "N0", "m_change_control< vh::ctl3 >"), (9, "N1", "m_change_action< vh::act10 >"), (10, "N2", "m_disable_action"),
                                 (10, "L1", "b_apply_void< 10, @R@ >"), (10, "L2", "b_apply_void< 10, @R@ >"), (10, "L3", "b_apply_void< 10, @R@ >")], ["chained_switches"]))
    # enable_action below disable<> below change_state; limit_depth next to state scopes
    out.append(gram(L + [("N1", "seq< L1, opt< L2 > >"), ("N0", "seq< disable< opt< L3 >, N1 >, opt< L3 > >")], "seq< star< N0 >, opt< L2 > >",
                    LEAF_ACTS + [(9, "N0", "m_change_state"), (9, "N1", "m_enable_action")], ["enable_below_disable"]))
    out.append(gram(L + [("N1", "seq< L1, opt< L2 >, opt< L3 > >"), ("N0", "seq< state< vh::st< 1 >, N1 >, opt< L1 > >")], "seq< N0, opt< L3 > >",
                    LEAF_ACTS + [(9, "N1", "m_limit_depth< 2 >"), (9, "N0", "m_change_state")], ["limit_depth_in_scope"]))
    # re-enabling below disable_action: enable<> and enable_action / change_state / change_action nested under a rule whose action
    # derives from disable_action must still find the grammar's action class
    out.append(gram(L + [("N1", "seq< L1, opt< L2 > >"), ("N0", "seq< L3, enable< N1 >, opt< L2 >, enable< L1 > >")], "seq< opt< L1 >, star< N0 >, opt< L2 > >",
                    LEAF_ACTS + [(9, "N0", "m_disable_action")], ["enable_below_disable_action"]))
    out.append(gram(L + [("N2", "seq< L2, opt< L3 > >"), ("N1", "seq< L1, opt< N2 > >"), ("N0", "seq< opt< L3 >, N1, opt< L1 > >")], "seq< star< N0 >, opt< L2 > >",
                    LEAF_ACTS + [(9, "N0", "m_disable_action"), (9, "N1", "m_enable_action"), (9, "N2", "m_change_state")], ["switches_below_disable_action"]))
    out.append(gram(L + [("N1", "seq< L1, opt< L2 > >"), ("N0", "seq< opt< L3 >, enable< N1 > >")], "seq< star< N0 >, opt< L1 > >",
                    LEAF_ACTS + [(9, "N0", "m_disable_action"), (9, "N1", "m_change_action< vh::act10 >"), (10, "L1", "b_apply_void< 10, @R@ >"), (10, "L2", "b_apply_void< 10, @R@ >")],
                    ["change_action_below_disable_action"]))
    # recursion: a fresh state per level
    out.append(gram(L + [("N0", "seq< L1, opt< N0 >, opt< L2 > >")], "seq< N0, opt< L3 > >", LEAF_ACTS + [(9, "N0", "m_change_state")], ["recursive_state"]))
    out.append(gram(L + [("N0", "state< vh::st< 1 >, L1, opt< N0 >, opt< L2 > >")], "seq< N0, opt< L3 > >", LEAF_ACTS, ["recursive_state_rule"]))
    return out


def extra_grams(tier, seed, start_gid):
    checker_exe()        # built once in the parent process; the workers inherit the path
    out = []
    k = 0
    for ki, (kname, kbase) in enumerate(KINDS):
        for ci, (cname, croot) in enumerate(CTXS):
            bodies = [BODIES[(ki + ci) % len(BODIES)], BODIES[(ki * 3 + ci + 2) % len(BODIES)]]
            if tier == "thorough":
                bodies = [b for b in BODIES if b is not BODIES[(ki + ci + 1) % len(BODIES)]] if kname not in ("change_state", "change_action_and_state") else BODIES
            if tier == "quick" and kname not in ("change_state", "change_action_and_state"):
                bodies = bodies[:1]
            for bname, body in bodies:
                out.append(gram(LEAVES + [("N0", body)], croot, LEAF_ACTS + [(9, "N0", kbase)], ["k:" + kname, "x:" + cname, "b:" + bname]))
                k += 1
    out += specials()
    for kind, root in (("action", "seq< action< vh::act1, L1, L2 >, L3 >"), ("control", "seq< control< vh::ctl3, L1, L2 >, L3 >"),
                       ("disable", "seq< disable< L1, L2 >, L3 >"), ("enable", "disable< enable< L1, L2 >, L3 >"),
                       ("state", "seq< state< vh::st< 1 >, L1, L2 >, L3 >")):
        out.append(gram(LEAVES, root, LEAF_ACTS, ["multi:" + kind]))
    for i, g in enumerate(out):
        g.gid = start_gid + i
    return out


C13_CFGS_QUICK = [("act9", "ctl2", 1, 1, "lf_crlf"), ("act9", "ctl2", 0, 0, "lf_crlf"), ("act9", "ctl3", 1, 0, "lf_crlf")]
C13_CFGS_THOROUGH = C13_CFGS_QUICK + [("act9", "ctl2", 1, 0, "lf_crlf"), ("act9", "ctl3", 0, 1, "lf_crlf"), ("act9", "ctl0", 1, 1, "lf_crlf")]


def choose_cfgs(g, k, tier):
    if "c13" in g.tags:
        if tier != "thorough":
            if any(t.startswith("k:") for t in g.tags):
                return [C13_CFGS_QUICK[0], C13_CFGS_QUICK[1 + k % 2]]      # the systematic family: two of the three, rotated
            return C13_CFGS_QUICK
        # the three quick configurations + one of the remaining three, rotated
        return C13_CFGS_QUICK + [C13_CFGS_THOROUGH[3 + k % 3]]
    if tier == "thorough":
        # shared corpus (state / switch templates): two of the twelve shared configurations, rotated
        idx = [[0, 8], [1, 10], [2, 5], [3, 9], [1, 4], [0, 11], [5, 6], [7, 10]][k % 8]
        return [er.CFGS[i] for i in idx]
    return None
