"""vlib — shared machinery of the /verif checks.

A check module (checks/Cxx.py) defines  run(ctx) -> None  and reports through ctx:
  ctx.proofs(...)       compile Properties_<id>.v, collect theorem names + Print Assumptions
  ctx.build_cpp(...)    compile a C++ program against /repo/include (content-addressed cache)
  ctx.build_ocaml(...)  extract a Coq model and link it with a hand-written OCaml driver
  ctx.diff(...)         record a model/implementation disagreement (correspondence broken)
  ctx.violation(...)    record a property violation observed on the IMPLEMENTATION (oracle)
  ctx.cover(...)        coverage counters / samples for the evidence file
The verdict rules of the brief are applied in finish().
"""
import hashlib
import json
import os
import re
import shutil
import subprocess
import sys
import time

VERIF = os.path.dirname(os.path.dirname(os.path.abspath(__file__)))
REPO = os.environ.get("VERIF_REPO", "/repo")
BUILD = os.path.join(VERIF, "_build")
COQ = os.path.join(VERIF, "coq")
JOBS = int(os.environ.get("VERIF_JOBS", "16"))

ALLOWED_AXIOMS = {
    # standard-library axioms that may appear (each is named in DESIGN.md section 9 when used)
    "functional_extensionality_dep", "FunctionalExtensionality.functional_extensionality_dep",
    "proof_irrelevance", "ProofIrrelevance.proof_irrelevance", "Eqdep.Eq_rect_eq.eq_rect_eq",
    "JMeq_eq", "JMeq.JMeq_eq", "classic", "Classical_Prop.classic",
}
FORBIDDEN = re.compile(r"\b(Admitted|admit|Axiom|Axioms|Parameter|Parameters|Conjecture|Unset Guard Checking|Unset Positivity Checking|Unset Universe Checking|bypass_check|Admit Obligations)\b|-type-in-type|-impredicative-set")


def sh(cmd, cwd=None, timeout=None, env=None, input=None):
    e = dict(os.environ)
    if env:
        e.update(env)
    p = subprocess.run(cmd, cwd=cwd, shell=isinstance(cmd, str), stdout=subprocess.PIPE, stderr=subprocess.STDOUT,
                       timeout=timeout, env=e, input=input, text=True, errors="replace")
    return p.returncode, p.stdout


def sha(*parts):
    h = hashlib.sha256()
    for p in parts:
        h.update(p if isinstance(p, bytes) else str(p).encode())
        h.update(b"\0")
    return h.hexdigest()[:24]


_tree_hash_cache = {}


def tree_hash(root):
    """sha256 over names+contents of all files under root (the tie to /repo's working tree)."""
    if root in _tree_hash_cache:
        return _tree_hash_cache[root]
    h = hashlib.sha256()
    for d, dirs, files in sorted(os.walk(root)):
        dirs.sort()
        for f in sorted(files):
            p = os.path.join(d, f)
            h.update(p.encode())
            try:
                with open(p, "rb") as fh:
                    h.update(fh.read())
            except OSError:
                pass
    _tree_hash_cache[root] = h.hexdigest()[:24]
    return _tree_hash_cache[root]


def file_hash(*paths):
    h = hashlib.sha256()
    for p in paths:
        with open(p, "rb") as fh:
            h.update(fh.read())
    return h.hexdigest()[:24]


# --------------------------------------------------------------------------- Coq

def coq_project_files():
    fs = sorted(f for f in os.listdir(COQ) if f.endswith(".v"))
    gen = os.path.join(COQ, "gen")
    if os.path.isdir(gen):
        fs += sorted("gen/" + f for f in os.listdir(gen) if f.endswith(".v"))
    return fs


def coq_makefile():
    """(Re)generate _CoqProject file list + Makefile when the set of .v files changed."""
    files = coq_project_files()
    head = "-Q . PegtlV\n-arg -w -arg -notation-overridden,-deprecated-hint-without-locality,-deprecated-instance-without-locality,-deprecated-instance-without-locality\n"
    want = head + "\n".join(files) + "\n"
    cp = os.path.join(COQ, "_CoqProject")
    cur = open(cp).read() if os.path.exists(cp) else ""
    if cur != want or not os.path.exists(os.path.join(COQ, "Makefile")):
        with open(cp, "w") as fh:
            fh.write(want)
        rc, out = sh(["coq_makefile", "-f", "_CoqProject", "-o", "Makefile"], cwd=COQ, timeout=120)
        if rc != 0:
            raise RuntimeError("coq_makefile failed:\n" + out)


class Lock:
    """inter-process lock: checks may be started concurrently but share coq/ and _build/."""
    def __init__(self, name):
        os.makedirs(BUILD, exist_ok=True)
        self.path = os.path.join(BUILD, name + ".lock")

    def __enter__(self):
        import fcntl
        self.fh = open(self.path, "w")
        fcntl.flock(self.fh, fcntl.LOCK_EX)
        return self

    def __exit__(self, *a):
        import fcntl
        fcntl.flock(self.fh, fcntl.LOCK_UN)
        self.fh.close()


def coq_make(targets, timeout=1800):
    """Full .vo build of the given targets (never -vos). Returns (ok, log)."""
    with Lock("coq"):
        coq_makefile()
        rc, out = sh(["timeout", str(timeout), "make", "-k", "-j%d" % JOBS] + list(targets), cwd=COQ, timeout=timeout + 60)
    return rc == 0, out


def grep_gate(files=None):
    """Forbidden constructs anywhere in the development (comments stripped)."""
    bad = []
    for f in (files or coq_project_files()):
        p = os.path.join(COQ, f)
        try:
            src = open(p).read()
        except OSError:
            continue
        src = strip_coq_comments(src)
        for i, line in enumerate(src.split("\n"), 1):
            m = FORBIDDEN.search(line)
            if m:
                bad.append("%s:%d: %s" % (f, i, m.group(0)))
    return bad


def strip_coq_comments(s):
    out = []
    depth = 0
    i = 0
    while i < len(s):
        if s.startswith("(*", i):
            depth += 1
            i += 2
        elif s.startswith("*)", i) and depth > 0:
            depth -= 1
            i += 2
        else:
            if depth == 0:
                out.append(s[i])
            elif s[i] == "\n":
                out.append("\n")
            i += 1
    return "".join(out)


class ProofReport:
    def __init__(self):
        self.theorems = []      # [{name, ok, assumptions, why}]
        self.build_ok = True
        self.log = ""

    @property
    def obligations(self):
        return len(self.theorems)

    @property
    def discharged(self):
        return sum(1 for t in self.theorems if t["ok"])

    def failed(self):
        return [t for t in self.theorems if not t["ok"]]


def coq_check_properties(modname, timeout=1800):
    """Build Properties_<id>.vo with all its dependencies, then re-run coqc on the property file
    itself to read the Print Assumptions output of every theorem in it."""
    rep = ProofReport()
    pfile = os.path.join(COQ, modname + ".v")
    src = strip_coq_comments(open(pfile).read())
    names = re.findall(r"^\s*(?:Theorem|Lemma|Corollary|Example)\s+([A-Za-z0-9_']+)", src, re.M)
    printed = re.findall(r"Print Assumptions\s+([A-Za-z0-9_'.]+)\s*\.", src)
    ok, log = coq_make([modname + ".vo"], timeout=timeout)
    rep.log = log[-6000:]
    gate = grep_gate()
    if not ok or gate:
        rep.build_ok = False
        why = "forbidden construct: " + "; ".join(gate[:5]) if gate else "build failed"
        # find which theorem broke, if the failure is inside the property file or a dependency
        m = re.search(r'File "\./([^"]+)", line (\d+)', log)
        where = (" at %s:%s" % (m.group(1), m.group(2))) if m else ""
        for n in names:
            rep.theorems.append({"name": n, "ok": False, "assumptions": [], "why": why + where})
        if not names:
            rep.theorems.append({"name": modname, "ok": False, "assumptions": [], "why": why + where})
        return rep
    with Lock("coq"):
        rc, out = sh(["timeout", "600", "coqc", "-Q", ".", "PegtlV", modname + ".v"], cwd=COQ, timeout=660)
    if rc != 0:
        rep.build_ok = False
        for n in names:
            rep.theorems.append({"name": n, "ok": False, "assumptions": [], "why": "coqc failed on property file"})
        rep.log = out[-6000:]
        return rep
    # split the output into one block per Print Assumptions, in order
    blocks = re.split(r"(?m)^(?=Closed under the global context|Axioms:)", out)
    blocks = [b for b in blocks if b.startswith("Closed under") or b.startswith("Axioms:")]
    assum = {}
    for n, b in zip(printed, blocks):
        if b.startswith("Closed under"):
            assum[n] = []
        else:
            ax = re.findall(r"(?m)^([A-Za-z0-9_'.]+)\s*:", b[len("Axioms:"):])
            assum[n] = ax
    for n in names:
        if n not in assum:
            rep.theorems.append({"name": n, "ok": False, "assumptions": [], "why": "no Print Assumptions for this theorem"})
            continue
        bad = [a for a in assum[n] if a not in ALLOWED_AXIOMS and a.split(".")[-1] not in ALLOWED_AXIOMS]
        rep.theorems.append({"name": n, "ok": not bad, "assumptions": assum[n], "why": ("disallowed axioms: " + ", ".join(bad)) if bad else ""})
    if len(blocks) != len(printed):
        rep.build_ok = False
        rep.theorems.append({"name": modname + ":print-assumptions-count", "ok": False, "assumptions": [], "why": "expected %d blocks, got %d" % (len(printed), len(blocks))})
    return rep


# --------------------------------------------------------------------------- builds

def build_ocaml(extract_mod, driver_ml, exe_name, extra_ml=()):
    """coqc the Extract*.v file in a scratch dir (model .vo must be built), link with driver."""
    coq_makefile()
    src_extract = os.path.join(COQ, extract_mod + ".v")
    deps_ok, log = coq_make([extract_mod + ".vo"])
    # even if some proof file is broken the extraction file only depends on model files
    # the compiled Extract*.vo records the digests of everything it (transitively) requires, so its
    # content changes exactly when the extracted model changes
    vo = os.path.join(COQ, extract_mod + ".vo")
    if not deps_ok or not os.path.exists(vo):
        raise RuntimeError("model does not compile:\n" + log[-4000:])
    key = sha(open(src_extract).read(), file_hash(os.path.join(VERIF, "driver", driver_ml)), file_hash(vo),
              *[file_hash(os.path.join(VERIF, "driver", e)) for e in extra_ml])
    d = os.path.join(BUILD, "ocaml", exe_name + "-" + key)
    exe = os.path.join(d, exe_name)
    if os.path.exists(exe):
        return exe
    with Lock("ocaml-" + exe_name):
        return _build_ocaml_locked(extract_mod, driver_ml, exe_name, extra_ml, src_extract, d, exe)


def _build_ocaml_locked(extract_mod, driver_ml, exe_name, extra_ml, src_extract, d, exe):
    if os.path.exists(exe):
        return exe
    os.makedirs(d, exist_ok=True)
    shutil.copy(src_extract, os.path.join(d, extract_mod + ".v"))
    rc, out = sh(["timeout", "600", "coqc", "-Q", COQ, "PegtlV", extract_mod + ".v"], cwd=d, timeout=660)
    if rc != 0:
        raise RuntimeError("extraction failed:\n" + out[-4000:])
    mls = sorted(f for f in os.listdir(d) if f.endswith(".ml"))
    shutil.copy(os.path.join(VERIF, "driver", driver_ml), d)
    for e in extra_ml:
        shutil.copy(os.path.join(VERIF, "driver", e), d)
    files = []
    for m in mls:
        if os.path.exists(os.path.join(d, m + "i")):
            files.append(m + "i")
        files.append(m)
    files += list(extra_ml) + [driver_ml]
    rc, out = sh(["ocamlfind", "ocamlopt", "-O2" if False else "-inline", "20", "-w", "-a"] + files + ["-o", exe_name + ".tmp"], cwd=d, timeout=600)
    if rc != 0:
        raise RuntimeError("ocaml build failed:\n" + out[-4000:])
    os.rename(os.path.join(d, exe_name + ".tmp"), exe)
    return exe


CXX = os.environ.get("VERIF_CXX", "clang++")


def build_cpp(sources, exe_name, flags=(), include_repo=True, extra_key="", compiler=None, timeout=1800):
    """Compile C++ sources (paths) against /repo/include. Cache key covers /repo/include contents,
    the sources, harness headers and flags, so every check rebuilds from the current tree."""
    cxx = compiler or CXX
    hdrs = os.path.join(VERIF, "harness")
    hdr_files = sorted(os.path.join(hdrs, f) for f in os.listdir(hdrs) if f.endswith((".hpp", ".h")))
    key = sha(cxx, " ".join(flags), tree_hash(os.path.join(REPO, "include")), file_hash(*hdr_files), extra_key,
              *[file_hash(s) for s in sources])
    d = os.path.join(BUILD, "cpp", exe_name + "-" + key)
    exe = os.path.join(d, exe_name)
    if os.path.exists(exe):
        return exe
    os.makedirs(d, exist_ok=True)
    cmd = [cxx, "-std=c++17", "-DTAO_PEGTL_VERIF=1", "-I" + os.path.join(REPO, "include"), "-I" + hdrs] + list(flags) + list(sources) + ["-o", exe + ".tmp"]
    rc, out = sh(cmd, timeout=timeout)
    if rc != 0:
        raise BuildError("C++ build failed (%s):\n%s" % (" ".join(cmd[:6]) + " ...", out[-6000:]))
    os.rename(exe + ".tmp", exe)
    return exe



def bad_done_stage(ctx, source, exe_name, what, mode, factor=1):
    """Implementation-side stage shared by several checks: harness/<source> compares the library with itself across input
    classes (or with a fixed expectation), prints one "BAD <subject> on ..." line per disagreement and a final
    "DONE <cases> <bad>".  One violation per distinct subject; a crash of the harness is a violation too."""
    exe = build_cpp([os.path.join(VERIF, "harness", source)], exe_name, flags=["-O1"], compiler="g++")
    rc, out = sh([exe], timeout=900)
    done = [l for l in out.split("\n") if l.startswith("DONE ")]
    if rc != 0 or not done:
        ctx.violation("%s stage crashed" % mode, "harness/%s ended abnormally: %s" % (source, out[-400:]), {"mode": mode})
        return
    seen = set()
    for l in [l for l in out.split("\n") if l.startswith("BAD ")]:
        subject = l[4:].split(" on ")[0]
        if subject in seen:
            continue
        seen.add(subject)
        ctx.violation("%s: %s" % (what, subject), l[4:500], {"mode": mode, "line": l[:1000]})
    n = int(done[0].split()[1])
    ctx.cover(evaluations=n * factor, distinct=n, validated=0, **{mode + "_stage_cases": n})


def replay_bad_done(pid, source, exe_name, what, mode):
    """replay of a bad_done_stage violation: the stage is deterministic, so it is simply run again"""
    class _C:
        def __init__(self):
            self.v = []

        def violation(self, sig, w, r):
            self.v.append(w)

        def cover(self, **k):
            pass
    c = _C()
    bad_done_stage(c, source, exe_name, what, mode)
    for w in c.v[:6]:
        print("REPLAY:", w[:300])
    print(("VIOLATION property=%s replay=(replayed)" % pid) if c.v else "no violation on the current tree")
    return 1 if c.v else 0


def visible_internal_helpers(dump_text):
    """Table dump lines 'NODE id enabled named nsubs subs... | head' / 'NAME id hex(demangled name) ...': every class template
    in namespace tao::pegtl::internal is an implementation helper with enable_control = false (the user-visible rule is the
    struct deriving from it); a helper that the control can see changes hook logs and parse trees.  Returns the offenders."""
    enabled, bad = {}, []
    for l in dump_text.split("\n"):
        if l.startswith("NODE "):
            t = l[5:].split("|", 1)[0].split()
            if len(t) >= 2:
                enabled[t[0]] = t[1]
        elif l.startswith("NAME "):
            t = l.split()
            if len(t) >= 3:
                try:
                    nm = bytes.fromhex(t[2]).decode("latin1")
                except ValueError:
                    continue
                if nm.startswith("tao::pegtl::internal::") and enabled.get(t[1]) == "1":
                    bad.append(nm)
    return bad

class BuildError(RuntimeError):
    pass


def prune_cache(max_dirs=400):
    """Keep the build cache bounded (disk is limited)."""
    for sub in ("cpp", "ocaml", "corpus"):
        root = os.path.join(BUILD, sub)
        if not os.path.isdir(root):
            continue
        now = time.time()
        ds = []
        for x in os.listdir(root):
            p = os.path.join(root, x)
            try:
                mt = os.path.getmtime(p)
            except OSError:
                continue
            # never prune the shared vmain object or anything another (concurrent) run may still be using
            if x.startswith("vmain-") or now - mt < 3 * 3600:
                continue
            ds.append((mt, p))
        ds.sort()
        for _, p in ds[:max(0, len(ds) - max_dirs)]:
            shutil.rmtree(p, ignore_errors=True)


# --------------------------------------------------------------------------- context / verdict

class Ctx:
    def __init__(self, pid, tier, seed):
        self.pid = pid
        self.tier = tier
        self.seed = seed
        self.t0 = time.time()
        self.proof_reports = []
        self.diffs = []
        self.violations = []
        self.findings_seen = []
        self.coverage = {"evaluations": 0, "distinct_nontrivial": 0, "rule": "", "samples": [], "traces_validated_against_impl": 0}
        self.assumptions = []
        self.trusted_base = []
        self.notes = []
        self.checker_cmd = ""
        self.known = load_known_findings()

    # ---- proofs
    def proofs(self, modname):
        rep = coq_check_properties(modname)
        self.proof_reports.append((modname, rep))
        self.checker_cmd = "cd /verif/coq && make -k -j16 %s.vo && coqc -Q . PegtlV %s.v   # Coq 8.16.1 kernel; Print Assumptions under every theorem" % (modname, modname)
        return rep

    # ---- coverage
    def cover(self, evaluations=0, distinct=0, validated=0, rule=None, samples=None, **extra):
        c = self.coverage
        c["evaluations"] += evaluations
        c["distinct_nontrivial"] += distinct
        c["traces_validated_against_impl"] += validated
        if rule:
            c["rule"] = (c["rule"] + " | " if c["rule"] else "") + rule
        if samples:
            c["samples"] = (c["samples"] + list(samples))[:12]
        for k, v in extra.items():
            c[k] = v

    def diff(self, what, case, impl=None, model=None):
        self.diffs.append({"what": what, "case": case, "impl": impl, "model": model})

    def violation(self, signature, what, replay):
        """A property violation observed on the implementation. signature identifies the finding
        (rule/config class + minimal input); listed open findings become KNOWN-FINDING lines."""
        self.violations.append({"signature": signature, "what": what, "replay": replay})

    def note(self, s):
        self.notes.append(s)

    # ---- verdict
    def finish(self):
        pid = self.pid
        os.makedirs(os.path.join(VERIF, "evidence"), exist_ok=True)
        os.makedirs(os.path.join(VERIF, "replays"), exist_ok=True)
        open_known = {k["signature"]: k for k in self.known if k["property"] == pid and k.get("status") == "open"}
        unlisted = []
        printed_known = set()
        for v in self.violations:
            k = open_known.get(v["signature"])
            if k is not None:
                if v["signature"] not in printed_known:
                    print("KNOWN-FINDING: property=%s %s" % (pid, k.get("what", v["what"])))
                    printed_known.add(v["signature"])
            else:
                unlisted.append(v)
        exit_code = 0
        lines = []
        nviol = 0
        # 1. real violations with a failing input
        seen_sig = set()
        for v in unlisted:
            if v["signature"] in seen_sig:
                continue
            seen_sig.add(v["signature"])
            path = os.path.join(VERIF, "replays", "%s-%s.json" % (pid, sha(v["signature"])[:10]))
            with open(path, "w") as fh:
                json.dump({"property": pid, "kind": "oracle-violation", "signature": v["signature"], "what": v["what"], "replay": v["replay"]}, fh, indent=1)
            lines.append("VIOLATION property=%s replay=%s" % (pid, path))
            nviol += 1
            if nviol >= 10:
                break
        # 2. proof / correspondence broken and no failing input found
        broken = []
        for modname, rep in self.proof_reports:
            for t in rep.failed():
                broken.append({"kind": "proof", "theorem": t["name"], "file": modname + ".v", "why": t["why"], "log_tail": rep.log[-1500:]})
        if self.diffs:
            broken.append({"kind": "correspondence", "count": len(self.diffs), "first": self.diffs[:5]})
        if broken and not unlisted:
            path = os.path.join(VERIF, "replays", "%s-broken-%s.json" % (pid, sha(json.dumps(broken, sort_keys=True, default=str))[:10]))
            with open(path, "w") as fh:
                json.dump({"property": pid, "kind": "proof-or-correspondence-broken", "broken": broken,
                           "note": "no concrete failing input was found by the oracle search; the property is no longer shown to hold"}, fh, indent=1, default=str)
            lines.append("VIOLATION property=%s replay=%s no-failing-input-found" % (pid, path))
            nviol += 1
        elif broken:
            # attach the broken obligations to the first replay for the reader
            for l in lines[:1]:
                p = l.split("replay=")[1]
                try:
                    j = json.load(open(p))
                    j["also_broken"] = broken
                    json.dump(j, open(p, "w"), indent=1, default=str)
                except Exception:
                    pass
        if lines:
            exit_code = 1
        for l in lines:
            print(l)
        # evidence
        obligations = sum(rep.obligations for _, rep in self.proof_reports)
        discharged = sum(rep.discharged for _, rep in self.proof_reports)
        cov = dict(self.coverage)
        cov.update({
            "obligations": obligations, "discharged": discharged, "checker_cmd": self.checker_cmd or "none",
            "trusted_base": self.trusted_base or default_trusted_base(),
            "theorems": [{"name": t["name"], "ok": t["ok"], "assumptions": t["assumptions"]} for _, rep in self.proof_reports for t in rep.theorems],
            "correspondence_disagreements": len(self.diffs),
            "oracle_violations_unlisted": len(unlisted),
            "known_findings_reproduced": sorted(printed_known),
            "repo_include_hash": tree_hash(os.path.join(REPO, "include")),
            "notes": self.notes,
        })
        ev = {"property_id": pid, "tier": self.tier, "seed": self.seed, "level": "proof", "coverage": cov,
              "assumptions": self.assumptions or default_assumptions(), "wall_s": round(time.time() - self.t0, 2),
              "violations": nviol}
        with open(os.path.join(VERIF, "evidence", pid + ".json"), "w") as fh:
            json.dump(ev, fh, indent=1, default=str)
        status = "HOLDS" if exit_code == 0 else "FAILS"
        print("%s %s tier=%s seed=%d theorems=%d/%d evaluations=%d diffs=%d violations=%d known=%d wall=%.1fs" % (
            pid, status, self.tier, self.seed, discharged, obligations, cov["evaluations"], len(self.diffs), len(unlisted), len(printed_known), time.time() - self.t0))
        return exit_code


def default_trusted_base():
    return [
        "Coq 8.16.1 kernel (coqc); vm_compute used for finite sweeps and witnesses; native_compute not used",
        "Coq extraction to OCaml with ExtrOcamlBasic only (Extract Inductive bool/option/unit/list/prod/sumbool/sumor; no Extract Constant of our own), OCaml 4.13.1",
        "hand-written OCaml drivers under /verif/driver (table parsing, printing)",
        "translator: harness/vharness.hpp describe<>/dump<> (compiler-side) and lib/*.py generators",
        "correspondence harness: C++ observers compiled by clang++ 14 against /repo/include, comparison scripts",
        "platform facts: signed 8-bit char, 64-bit size_t, little-endian host",
    ]


def default_assumptions():
    return [
        "the theorem is about the Coq model; the tie to the C++ is the regenerated grammar tables plus the trace correspondence on the explored corpus",
        "user action bodies are abstracted to deterministic (rule, begin, end) predicates",
        "C++ exception mechanics and RAII are modelled as outcomes and brackets",
    ]


def load_known_findings():
    p = os.path.join(VERIF, "known_findings.json")
    if not os.path.exists(p):
        return []
    return json.load(open(p)).get("findings", [])


def main_check(argv):
    """bin/check <ID> [quick|thorough]  |  bin/check --replay <path>"""
    sys.path.insert(0, os.path.join(VERIF, "checks"))
    if len(argv) >= 2 and argv[0] == "--replay":
        j = json.load(open(argv[1]))
        pid = j["property"]
        mod = __import__(pid)
        if hasattr(mod, "replay"):
            return mod.replay(j)
        print("no replay support for", pid)
        return 2
    pid = argv[0]
    tier = argv[1] if len(argv) > 1 else os.environ.get("VERIF_TIER", "quick")
    if tier not in ("quick", "thorough"):
        tier = "quick"
    seed = int(os.environ.get("VERIF_SEED", "1"))
    ctx = Ctx(pid, tier, seed)
    mod = __import__(pid)
    try:
        mod.run(ctx)
    except BuildError as e:
        # the harness no longer compiles against /repo: the tie is broken
        ctx.diff("harness does not build against the current tree", str(e)[-3000:])
    rc = ctx.finish()
    prune_cache()
    return rc
