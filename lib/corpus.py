"""corpus — generated grammar corpus for the engine correspondence (DESIGN 4.2).

Systematic part first (head x behaviour basis x calling context, seed independent), random
part second (one PRNG seeded by VERIF_SEED).  Every grammar is C++ text; the structure the
model evaluates is dumped from that text by the compiler (harness/vharness.hpp), never
transcribed here.  For grammars made only of classical operators the generator also emits the
SURFACE term (S-expression) that goes to the spec side (Spec.peg_fn) and never passes through
the library."""
import random

ALPHA = "abc"


class Gram:
    def __init__(self, gid, rules, root, tags=(), surface=None, alphabet=ALPHA, extra_inputs=(), pre="", mustif=()):
        self.gid = gid
        self.rules = rules          # list of (name, c++ expr) in definition order; forward refs allowed through predeclaration
        self.root = root            # c++ expression for the root rule body
        self.tags = set(tags)
        self.surface = surface      # dict name -> sexp, incl. 'G' for the root; None if not classical
        self.alphabet = alphabet
        self.extra_inputs = list(extra_inputs)
        self.pre = pre              # extra C++ (custom action specialisations) after the rule definitions
        self.mustif = set(mustif)   # names of rules ("G" = root) marked vh::mustif: the must_if control families ctl4/ctl5 raise from their failure()

    def _mi(self, n):
        # "N" in mustif: message + raise on failure;  "~N": message only (raise_on_failure = false)
        return ", vh::mustif" if n in self.mustif else (", vh::mustsoft" if ("~" + n) in self.mustif else "")

    def cpp(self):
        ns = "g%d" % self.gid
        out = ["namespace %s {" % ns]
        for n, _ in self.rules:
            out.append("struct %s;" % n)
        out.append("struct G;")
        for n, e in self.rules:
            out.append("struct %s : %s, vh::named%s {};" % (n, e, self._mi(n)))
        out.append("struct G : %s, vh::named%s {};" % (self.root, self._mi("G")))
        out.append("}")
        if self.pre:
            out.append(self.pre.replace("@NS@", ns))
        return "\n".join(out)


# --------------------------------------------------------------------------- surface terms (classical PEG only)
# sexp strings: (seq e...) (sor e...) (star e) (plus e) (opt e) (at e) (not_at e) (any) (one c...) (not_one c...)
# (range lo hi) (string c...) (eof) (success) (failure) (ref Name)

class T:
    """a term with C++ text and (optionally) a surface sexp"""
    def __init__(self, cpp, sx=None):
        self.cpp = cpp
        self.sx = sx


def ch(c):
    return "'%s'" % c


def one(*cs):
    return T("one< %s >" % ", ".join(ch(c) for c in cs), "(one %s)" % " ".join(str(ord(c)) for c in cs))


def not_one(*cs):
    return T("not_one< %s >" % ", ".join(ch(c) for c in cs), "(not_one %s)" % " ".join(str(ord(c)) for c in cs))


def rng(lo, hi):
    return T("range< %s, %s >" % (ch(lo), ch(hi)), "(range %d %d)" % (ord(lo), ord(hi)))


def string(s):
    return T("string< %s >" % ", ".join(ch(c) for c in s), "(string %s)" % " ".join(str(ord(c)) for c in s))


ANY = T("any", "(any)")
EOF_ = T("eof", "(eof)")
SUCCESS = T("success", "(success)")
FAILURE = T("failure", "(failure)")


def app(name, *args, classical=True):
    cpp = "%s< %s >" % (name, ", ".join(a.cpp for a in args))
    sx = None
    if classical and all(a.sx is not None for a in args):
        if name in ("seq", "sor") and len(args) >= 2:      # one-argument seq/sor is outside the classical fragment of the tie
            sx = "(%s %s)" % (name, " ".join(a.sx for a in args))
        elif name in ("star", "plus", "opt", "at", "not_at"):
            inner = args[0].sx if len(args) == 1 else "(seq %s)" % " ".join(a.sx for a in args)
            sx = "(%s %s)" % (name, inner)
    return T(cpp, sx)


def ref(name):
    return T(name, "(ref %s)" % name)


def raw(cpp):
    return T(cpp, None)


# --------------------------------------------------------------------------- behaviour basis
def basis():
    a, b = one("a"), one("b")
    return {
        "atom": a,                                            # fails without consuming
        "cf": app("seq", a, b),                               # consumes then fails on "ac"
        "nullable": app("opt", a),
        "eof": EOF_,
        "succ": SUCCESS,
        "fail": FAILURE,
        "str": string("ab"),
        "plus": app("plus", a),
        "look": app("at", b),
        "nlook": app("not_at", b),
        "raising": raw("must< one< 'a' > >"),
        "cfraise": raw("seq< one< 'a' >, must< one< 'b' > > >"),
        "named": ref("N0"),                                   # named rule: seq< one<'a'>, opt< one<'b'> > >
        "namedcf": ref("N1"),                                 # named rule that consumes then fails: seq< one<'a'>, one<'b'> >
    }


NAMED = [("N0", app("seq", one("a"), app("opt", one("b")))), ("N1", app("seq", one("a"), one("b")))]

# combinator templates: (name, nslots, builder(slots)->T, tags)
def templates():
    def A(name, classical=True):
        return lambda *s: app(name, *s, classical=classical)
    def R(fmt):
        return lambda *s: raw(fmt % tuple(x.cpp for x in s))
    t = [
        ("seq1", 1, R("seq< %s >"), ""), ("sor1", 1, R("sor< %s >"), ""),          # one-element forms: their own code path in seq.hpp / sor.hpp
        ("seq2", 2, A("seq"), "classical"), ("seq3", 3, A("seq"), "classical"),
        ("sor2", 2, A("sor"), "classical"), ("sor3", 3, A("sor"), "classical"),
        ("star1", 1, A("star"), "classical loop"), ("star2", 2, A("star"), "classical loop"),
        ("plus1", 1, A("plus"), "classical loop"), ("plus2", 2, A("plus"), "classical loop"),
        ("opt1", 1, A("opt"), "classical"), ("opt2", 2, A("opt"), "classical"),
        ("at1", 1, A("at"), "classical"), ("at2", 2, A("at"), "classical"),
        ("not_at1", 1, A("not_at"), "classical"), ("not_at2", 2, A("not_at"), "classical"),
        ("until1", 1, R("until< %s >"), "loop"), ("until2", 2, R("until< %s, %s >"), "loop"), ("until3", 3, R("until< %s, %s, %s >"), "loop"),
        ("rep2", 1, R("rep< 2, %s >"), ""), ("rep2b", 2, R("rep< 2, %s, %s >"), ""), ("rep0", 1, R("rep< 0, %s >"), ""),
        ("rep_min1", 1, R("rep_min< 1, %s >"), "loop"), ("rep_min0", 1, R("rep_min< 0, %s >"), "loop"),
        ("rep_max2", 1, R("rep_max< 2, %s >"), ""), ("rep_max0", 1, R("rep_max< 0, %s >"), ""),
        ("rep_min_max12", 1, R("rep_min_max< 1, 2, %s >"), ""), ("rep_min_max02", 1, R("rep_min_max< 0, 2, %s >"), ""),
        ("rep_min_max22", 2, R("rep_min_max< 2, 2, %s, %s >"), ""), ("rep_min_max00", 1, R("rep_min_max< 0, 0, %s >"), ""),
        ("rep_opt2", 1, R("rep_opt< 2, %s >"), ""), ("rep_opt2b", 2, R("rep_opt< 2, %s, %s >"), ""),
        ("if_then_else", 3, R("if_then_else< %s, %s, %s >"), ""),
        ("if_must", 2, R("if_must< %s, %s >"), "raise"), ("if_must3", 3, R("if_must< %s, %s, %s >"), "raise"),
        ("if_must_else", 3, R("if_must_else< %s, %s, %s >"), "raise"),
        ("opt_must", 2, R("opt_must< %s, %s >"), "raise"), ("star_must", 2, R("star_must< %s, %s >"), "raise loop"),
        ("must1", 1, R("must< %s >"), "raise"), ("must2", 2, R("must< %s, %s >"), "raise"),
        ("list", 2, R("list< %s, %s >"), "loop"), ("list_pad", 3, R("list< %s, %s, %s >"), "loop"),
        ("list_must", 2, R("list_must< %s, %s >"), "raise loop"), ("list_tail", 2, R("list_tail< %s, %s >"), "loop"),
        ("list_tail_pad", 3, R("list_tail< %s, %s, %s >"), "loop"),
        ("pad", 2, R("pad< %s, %s >"), "loop"), ("pad3", 3, R("pad< %s, %s, %s >"), "loop"), ("pad_opt", 2, R("pad_opt< %s, %s >"), "loop"),
        ("partial", 2, R("partial< %s, %s >"), ""), ("star_partial", 2, R("star_partial< %s, %s >"), "loop"),
        ("strict", 2, R("strict< %s, %s >"), ""), ("star_strict", 2, R("star_strict< %s, %s >"), "loop"),
        ("rematch", 2, R("rematch< %s, %s >"), ""), ("rematch3", 3, R("rematch< %s, %s, %s >"), ""), ("minus", 2, R("minus< %s, %s >"), ""),
        ("tc_false", 1, R("try_catch_return_false< %s >"), "catch"), ("tc_any_false", 1, R("try_catch_any_return_false< %s >"), "catch"),
        ("tc_std_false", 1, R("try_catch_std_return_false< %s >"), "catch"), ("tc_type_false", 1, R("try_catch_type_return_false< vh::foreign_exn, %s >"), "catch"),
        ("tc_nested", 1, R("try_catch_raise_nested< %s >"), "catch"), ("tc_any_nested", 1, R("try_catch_any_raise_nested< %s >"), "catch"),
        ("tc_std_nested", 1, R("try_catch_std_raise_nested< %s >"), "catch"), ("tc_type_nested", 1, R("try_catch_type_raise_nested< vh::foreign_exn, %s >"), "catch"),
        ("disable", 1, R("disable< %s >"), "switch"), ("enable", 1, R("enable< %s >"), "switch"),
        ("disable_enable", 2, R("disable< %s, enable< %s > >"), "switch"),
        ("state", 1, R("state< vh::st< 0 >, %s >"), "state"), ("state2", 2, R("state< vh::st< 0 >, %s, state< vh::st< 1 >, %s > >"), "state"),
        ("action1", 1, R("action< vh::act1, %s >"), "switch"), ("action3", 1, R("action< vh::act3, %s >"), "switch"),
        ("control1", 1, R("control< vh::ctl1, %s >"), "switch"),
        ("if_apply0", 1, R("if_apply< %s, vh::ia< 0 > >"), "inline"), ("if_apply1", 1, R("if_apply< %s, vh::ia< 0 >, vh::ia< 1 > >"), "inline"),
        ("if_apply2", 1, R("if_apply< %s, vh::ia< 2 > >"), "inline"),
        ("apply_seq", 1, R("seq< %s, apply< vh::ia< 0 >, vh::ia< 1 > > >"), "inline"),
        ("apply0_seq", 1, R("seq< %s, apply0< vh::ia0< 10 >, vh::ia0< 11 > > >"), "inline"),
        ("apply0_false", 1, R("seq< %s, apply0< vh::ia0< 12 > > >"), "inline"), ("apply0_throw", 1, R("seq< %s, apply0< vh::ia0< 13 > > >"), "inline"),
        ("raise_msg", 1, R("sor< %s, raise_message< 'o', 'o', 'p', 's' > >"), "raise"),
        ("raise_t", 1, R("sor< %s, raise< N0 > >"), "raise"),
    ]
    return t


# calling contexts fixing the inherited modes at the slot (X = the construct under test)
def contexts():
    return [
        ("top", lambda x: x),
        ("sor_first", lambda x: app("sor", x, ANY)),                         # non-last sor branch: required
        ("seq_mid", lambda x: app("seq", one("a"), x, one("c"))),            # inside seq: optional, enclosing guard
        ("star_body", lambda x: app("star", app("seq", x, one("c")))),       # loop body: required
        ("under_at", lambda x: app("seq", app("at", x), app("opt", x))),
        ("under_not_at", lambda x: app("seq", app("not_at", x), ANY)),
        ("opt_then", lambda x: app("seq", app("opt", x), app("star", ANY))),
        ("sor_last", lambda x: app("sor", string("ac"), x)),
    ]


def needs_named(t):
    return "N0" in t.cpp or "N1" in t.cpp


def mk(gid, t, tags):
    used = [(n, e) for n, e in NAMED if n in t.cpp]
    rules = [(n, e.cpp) for n, e in used]
    surface = None
    if t.sx is not None:
        surface = {"G": t.sx}
        for n, e in used:
            surface[n] = e.sx
    return Gram(gid, rules, t.cpp, tags=tags, surface=surface)


def systematic(tier):
    """head x basis x context; quick = each slot sees each basis element once with neutral
    partners, context rotated; thorough = every context for every such combination plus
    pairwise slot products for 2-slot heads."""
    B = basis()
    bkeys = list(B.keys())
    ctxs = contexts()
    out = []
    gid = [0]

    def add(t, tags):
        out.append(mk(gid[0], t, tags))
        gid[0] += 1

    k = 0
    quick1 = ["cf", "namedcf", "nullable", "raising", "atom", "eof", "cfraise"]
    quickn = ["cf", "namedcf", "nullable", "raising"]
    for name, ns, build, tags in templates():
        tagl = tags.split() + [name]
        combos = []
        if ns == 1:
            combos = [(b,) for b in (bkeys if tier == "thorough" else quick1)]
        else:
            neutral = ["atom", "cf", "nullable"]
            seen = set()
            for slot in range(ns):
                for bi, b in enumerate(bkeys if tier == "thorough" else quickn):
                    for nb in (neutral if tier == "thorough" else [neutral[(bi + slot) % 2]]):
                        c = tuple(b if i == slot else nb for i in range(ns))
                        if c not in seen:
                            seen.add(c)
                            combos.append(c)
        for c in combos:
            t = build(*[B[x] for x in c])
            # a loop whose body is nullable never terminates in the real library: keep those for C11 only
            loopy = ("loop" in tagl) and any(x in ("nullable", "eof", "succ", "look", "nlook") for x in c)
            if tier == "thorough":
                ctx_list = [ctxs[0], ctxs[1 + k % (len(ctxs) - 1)]] if ns > 1 else [ctxs[0], ctxs[1 + k % (len(ctxs) - 1)], ctxs[1 + (k * 3 + 2) % (len(ctxs) - 1)]]
            else:
                ctx_list = [ctxs[k % len(ctxs)]]
            k += 1
            for cname, wrap in ctx_list:
                if loopy and cname in ("star_body",):
                    continue
                add(wrap(t), tagl + ["ctx:" + cname, "basis:" + "+".join(c)] + (["maybe_loop"] if loopy else []))
    return out


# --------------------------------------------------------------------------- random part
def random_grammars(seed, n, start_gid, classical_only=False):
    rnd = random.Random(seed)
    out = []
    atoms = [one("a"), one("b"), ANY, EOF_, string("ab"), not_one("a"), rng("a", "b"), SUCCESS, FAILURE, one("a", "c")]

    def gen(d, names):
        if d == 0 or rnd.random() < 0.25:
            if names and rnd.random() < 0.4:
                return ref(rnd.choice(names))
            return rnd.choice(atoms)
        ks = ["seq", "sor", "star", "plus", "opt", "at", "not_at"]
        if not classical_only:
            ks += ["until", "until1", "rep", "if_then_else", "must", "rep_min_max", "rep_opt", "star_must", "opt_must", "if_must", "list",
                   "try_catch_return_false", "partial", "star_partial", "pad", "strict", "rematch", "minus", "disable", "state", "if_apply", "rep_min", "list_tail"]
        k = rnd.choice(ks)
        g = lambda: gen(d - 1, names)
        cons = lambda: app("seq", one(rnd.choice("abc")), g())     # guaranteed to consume on success
        if k in ("seq", "sor"):
            return app(k, *[g() for _ in range(rnd.randint(1, 3))])
        if k in ("star", "plus"):
            return app(k, cons()) if rnd.random() < 0.7 else app(k, cons(), g())
        if k in ("opt", "at", "not_at"):
            return app(k, *[g() for _ in range(rnd.randint(1, 2))])
        if k == "star_partial":
            return raw("star_partial< %s, %s >" % (cons().cpp, g().cpp))
        if k in ("must", "try_catch_return_false", "partial", "disable"):
            return raw("%s< %s >" % (k, ", ".join(g().cpp for _ in range(rnd.randint(1, 2)))))
        if k == "until":
            return raw("until< %s, %s >" % (g().cpp, cons().cpp))
        if k == "until1":
            return raw("until< %s >" % g().cpp)
        if k == "rep":
            return raw("rep< %d, %s >" % (rnd.randint(0, 3), g().cpp))
        if k == "rep_min":
            return raw("rep_min< %d, %s >" % (rnd.randint(0, 2), cons().cpp))
        if k == "rep_opt":
            return raw("rep_opt< %d, %s >" % (rnd.randint(1, 3), g().cpp))
        if k == "rep_min_max":
            a = rnd.randint(0, 2)
            return raw("rep_min_max< %d, %d, %s >" % (a, a + rnd.randint(0, 2), g().cpp))
        if k == "if_then_else":
            return raw("if_then_else< %s, %s, %s >" % (g().cpp, g().cpp, g().cpp))
        if k == "star_must":
            return raw("star_must< %s, %s >" % (cons().cpp, g().cpp))
        if k in ("opt_must", "if_must", "strict", "rematch", "minus"):
            return raw("%s< %s, %s >" % (k, g().cpp, g().cpp))
        if k in ("list", "list_tail"):
            return raw("%s< %s, %s >" % (k, cons().cpp, g().cpp))
        if k == "pad":
            return raw("pad< %s, one< 'c' > >" % g().cpp)
        if k == "state":
            return raw("state< vh::st< 0 >, %s >" % g().cpp)
        if k == "if_apply":
            return raw("if_apply< %s, vh::ia< %d > >" % (g().cpp, rnd.randint(0, 2)))
        return g()

    for i in range(n):
        names = []
        rules = []
        surf = {}
        nrules = rnd.randint(2, 5)
        allnames = ["R%d" % j for j in range(nrules)]
        ok_surface = True
        for j in range(nrules):
            # allow forward references (recursion) only behind a consuming prefix
            avail = names[:] if rnd.random() < 0.6 else names[:]
            body = gen(3, avail)
            if rnd.random() < 0.3 and j + 1 < nrules:
                fwd = allnames[rnd.randint(j, nrules - 1)]
                body = app("sor", app("seq", one(rnd.choice("ab")), ref(fwd)), body) if rnd.random() < 0.5 else app("seq", body, app("opt", app("seq", one("c"), ref(fwd))))
            rules.append((allnames[j], body.cpp))
            if body.sx is None or body.sx.startswith("(ref "):
                # `struct R1 : R0 {}` (a body that is a bare reference) is outside the fragment of the structure tie
                ok_surface = False
            else:
                surf[allnames[j]] = body.sx
            names.append(allnames[j])
        root = app("seq", ref(names[-1]), app("opt", EOF_))
        surface = None
        if ok_surface:
            surf["G"] = root.sx
            surface = surf
        out.append(Gram(start_gid + i, rules, root.cpp, tags=["random"] + (["classical"] if ok_surface else []), surface=surface))
    return out


# --------------------------------------------------------------------------- atoms / decoders / eol policies
def atom_grammars(tier, start_gid):
    """atoms of every Peek class and the byte-level rules, alone and under the combinators that
    call bump themselves; inputs over byte alphabets with truncated and malformed units and with
    CR / LF placed everywhere; run under all five eol policies."""
    U8 = "a\n\xc3\xa9\xe2\x82\xac\xf0\x9f"        # a LF  C3 A9 (e-acute)  E2 82 AC (euro)  F0 9F (start of 4-byte)
    LN = "a\n\rb"
    B16 = "\x00a\xd8\xdc\n\xfe\xff"
    items = [
        # (body, alphabet, maxlen_quick, maxlen_thorough)
        ("utf8::any", U8, 3, 4), ("star< utf8::any >", U8, 3, 4), ("utf8::one< 0x20AC, 0xE9 >", U8, 3, 4),
        ("utf8::not_one< 0x61 >", U8, 3, 4), ("utf8::range< 0x80, 0x7FF >", U8, 3, 4), ("utf8::not_range< 0x61, 0x7A >", U8, 3, 4),
        ("utf8::ranges< 0x61, 0x7A, 0x20AC >", U8, 3, 4), ("seq< utf8::string< 0x61, 0xE9 >, opt< utf8::bom > >", U8, 3, 4),
        ("star< sor< utf8::one< 0x0A >, utf8::range< 0x80, 0x10FFFF > > >", U8, 3, 4),
        ("plus< utf16_be::any >", B16, 3, 4), ("plus< utf16_le::any >", B16, 3, 4), ("utf16_be::one< 0x61, 0xFEFF >", B16, 3, 4),
        ("utf16_le::range< 0x0A, 0x61 >", B16, 3, 4), ("plus< utf32_be::any >", B16, 4, 5), ("plus< utf32_le::any >", B16, 4, 5),
        ("utf32_be::one< 0x61 >", B16, 4, 4), ("plus< uint8::any >", LN, 3, 4), ("plus< uint8::one< 0x61, 0x0A > >", LN, 3, 4),
        ("plus< uint8::not_range< 0x62, 0x7F > >", LN, 3, 4), ("plus< uint8::mask_one< 0x5F, 0x41 > >", LN, 3, 4),
        ("star< uint16_be::any >", B16, 3, 4), ("uint16_le::one< 0x6100, 0x0A61 >", B16, 3, 4), ("uint16_be::mask_range< 0xFF00, 0x0000, 0x6100 >", B16, 3, 4),
        ("star< uint32_be::any >", B16, 4, 5), ("uint32_le::not_one< 0x61 >", B16, 4, 4), ("uint64_be::any", "\x00a", 8, 9), ("uint64_le::mask_one< 0xFF, 0x61 >", "\x00a", 8, 9),
        ("plus< sor< string< 'a', '\\n' >, string< 'b' > > >", LN, 4, 5), ("plus< istring< 'a', 'B' > >", "aAbB", 4, 5),
        ("seq< bytes< 2 >, opt< bytes< 1 > > >", LN, 4, 5), ("seq< require< 2 >, any >", LN, 3, 4),
        ("star< sor< eol, any > >", LN, 4, 6), ("star< sor< eolf, any > >", LN, 3, 4) if False else ("seq< star< not_at< eolf >, any >, eolf >", LN, 4, 6),
        ("star< seq< bol, until< eol > > >", LN, 4, 6), ("seq< bof, star< any >, eof >", LN, 3, 4), ("seq< opt< one< 'a' > >, everything >", LN, 4, 5),
        ("until< eolf >", LN, 4, 6), ("until< eol, one< 'a', '\\r' > >", LN, 4, 6), ("star< not_one< 'a' > >", LN, 4, 6), ("plus< one< '\\n', 'b' > >", LN, 4, 6),
        ("plus< range< '\\n', 'a' > >", LN, 4, 6), ("plus< ranges< 'a', 'b', '\\r' > >", LN, 4, 6), ("star< range< '\\x80', '\\xff' > >", U8, 3, 4),
        ("seq< star< any >, must< failure > >", LN, 4, 6), ("seq< until< one< 'b' > >, must< eof > >", LN, 4, 6),
        ("star< sor< seq< one< 'a' >, eol >, any > >", LN, 4, 6), ("rematch< until< eolf >, star< one< 'a' > > >", LN, 4, 5),
        ("minus< plus< any >, string< 'a', 'b' > >", LN, 3, 4), ("seq< discard, star< one< 'a' >, discard > >", LN, 3, 4),
    ]
    out = []
    for i, it in enumerate(items):
        body, al, q, t = it
        g = Gram(start_gid + i, [], body, tags=["atoms"], alphabet=bytes(al, "latin1").decode("unicode_escape"))
        g.maxlen = q if tier == "quick" else t
        out.append(g)
    return out


# --------------------------------------------------------------------------- inputs
def inputs_for(g, maxlen):
    al = g.alphabet
    maxlen = getattr(g, "maxlen", maxlen)
    res = [""]
    cur = [""]
    for _ in range(maxlen):
        cur = [p + c for p in cur for c in al]
        res += cur
    return res + list(g.extra_inputs)
