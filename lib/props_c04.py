"""props_c04 — C04: actions fire once per surviving successful match with the exact matched span.

Everything here judges the IMPLEMENTATION's record against the specification side of coq/ActionSpec.v
(never against the engine model; model/implementation differences are the projection's business):

 protocol()      Python mirror of ActionSpec.astep / arun (theorem C04_protocol: every engine log is accepted,
                 all heads).  Frames  I(rule, A, entry position, state)  /  H(rule, start position, fired).
                 An A/Z event of rule r is legal only while r's attempt is the innermost open one (after S, no
                 deeper attempt open, before O/F/U), once per attempt, in an invocation entered with
                 apply_mode::action, with action-input begin = the S position; the closing hook carries the A
                 event's end position (= parse input position at the call), is O iff the action did not return false
                 and F iff it did (veto predicates of harness/vharness.hpp); after a veto the invocation's E exit
                 does not report success and its position is the B position; a B event with A=1 below an
                 invocation that has A=0 needs an enable node / enable_action rule; inline actions (I, J) only with
                 actions enabled, I begins at the entry position of its rule.
                 Needs the invocation trace (control families 2/3 throughout the run); other logs go through the
                 hook-only subset (window, once, begin, end, veto -> F, accept -> O).
 sections()      C04_none_when_disabled / C04_lookahead_quiet / C04_section_entry_mode: no A/Z/I/J at all when the run
                 starts with apply_mode::nothing and the grammar has no enabler; the sub-rule of an at / not_at /
                 disable node is entered with A=0; no action event below such a node unless an enabler lies in between.
 survivors()     ActionSpec.surv: transactional truncation over the B/E invocation frames (an invocation that returns
                 false or is left by an exception takes everything invoked below it with it).  Only used on fully traced
                 logs: hook-less internal rules (seq, at, ...) fail invisibly in a hook-only log.
 peg_acts()      ActionSpec.peg_acts / rule_wrap (C04_reference_executable, C04_survivors_exact_partial): reference
                 PEG-with-actions interpreter over the generator's
                 SURFACE term (never passes through the library), named rules carry the actions (families 7/8),
                 vetoes by the harness predicate; compared with survivors() and with the verdict / consumed bytes.
 eager vs lazy   positions in action events are identical in the eager and the lazy run of the same case."""
import re

import corpus
import engine_run as er
from corpus import app, one, ref, raw, string, ANY, EOF_

BASE_CORPUS = False          # the shared corpus is sampled inside extra_grams (sized per tier, see _shared_selection)
WANT_TAGS = None
MAXLEN = {"quick": 4, "thorough": 5}
KNOWN_SIGS = {}


# --------------------------------------------------------------------------- behaviours (harness/vharness.hpp)
def veto_pred(r, b, e):
    return ((r * 7 + b * 3 + e * 5) % 4) != 0          # False = the action returns false


def veto0_pred(r):
    return (r % 3) != 0


PRE_RE = re.compile(r"struct\s+act(\d+)<\s*@NS@::(\w+)\s*>\s*:\s*(\w+)")


def _kcache(K):
    c = K.__dict__.get("_c04")
    if c is None:
        c = {"rev": {nm: node for node, (nm, _) in K.names.items() if nm}, "custom": {}, "reach": {}, "pairs": {}, "surf": {}}
        K.__dict__["_c04"] = c
    return c


def custom_kinds(K, gid):
    """(family, node) -> marker name, from the grammar's `pre` text (custom families act9 / act10)"""
    c = _kcache(K)
    if gid not in c["custom"]:
        d = {}
        g = K.grams[gid]
        for m in PRE_RE.finditer(g.pre or ""):
            node = c["rev"].get("g%d::%s" % (gid, m.group(2)))
            if node is not None:
                d[(int(m.group(1)), node)] = m.group(3)
        c["custom"][gid] = d
    return c["custom"][gid]


def head_of(K, r):
    nd = K.table.get(r)
    return nd["head"][0] if nd else "?"


def reachable(K, root):
    c = _kcache(K)
    if root not in c["reach"]:
        seen = set()
        todo = [root]
        while todo:
            r = todo.pop()
            if r in seen or r not in K.table:
                continue
            seen.add(r)
            todo += K.table[r]["subs"]
        c["reach"][root] = seen
    return c["reach"][root]


def is_enabler(K, gid, r):
    if head_of(K, r) == "enable":
        return True
    return any(mk == "m_enable_action" for (fam, node), mk in custom_kinds(K, gid).items() if node == r)


def vetoes(K, gid, kind, fam, r, b, e):
    """does the action (kind 'A' apply / 'Z' apply0) of family fam on rule r return false on bytes (b, e)?"""
    if kind == "A":
        if fam in (3, 8):
            return not veto_pred(r, b, e)
        if fam in (9, 10) and custom_kinds(K, gid).get((fam, r)) == "b_apply_bool":
            return not veto_pred(r, b, e)
        return False
    if fam == 4:
        return not veto0_pred(r)
    if fam in (9, 10) and custom_kinds(K, gid).get((fam, r)) == "b_apply0_bool":
        return not veto0_pred(r)
    return False


def fully_traced(rec, evs):
    ctl = int(rec["cfg"].split(".")[1])
    if ctl < 2:
        return False
    return all(n[0] >= 2 for k, n in evs if k in "SOFUBE")


# --------------------------------------------------------------------------- the protocol machine (ActionSpec.arun)
def protocol(K, rec, evs, counters):
    gid = rec["gid"]
    st = []

    def nearest():
        for f in reversed(st):
            if f[0] == "I":
                return f
        return None

    def eff():
        f = nearest()
        return True if f is None else (f[2] == 1 or is_enabler(K, gid, f[1]))

    for k, n in evs:
        if k == "B":
            r, a, p = n[1], n[2], tuple(n[4:7])
            if a == 1 and not eff():
                f = nearest()
                return ["apply_mode::action passed to rule %d (%s) from rule %d (%s) which was entered with apply_mode::nothing and is no enable" % (r, head_of(K, r), f[1], head_of(K, f[1]))]
            st.append(["I", r, a, p, "fresh"])
        elif k == "S":
            r, p = n[1], tuple(n[2:5])
            if not st or st[-1][0] != "I" or st[-1][1] != r or st[-1][4] != "fresh":
                return ["start() for rule %d out of place" % r]
            st.append(["H", r, p, None])
        elif k in ("O", "F", "U"):
            r, p = n[1], tuple(n[2:5])
            if len(st) < 2 or st[-1][0] != "H" or st[-1][1] != r or st[-2][0] != "I" or st[-2][1] != r:
                return ["closing hook %s for rule %d without matching open attempt" % (k, r)]
            fired = st[-1][3]
            new = "closed"
            if fired is not None:
                e, v = fired
                if v:
                    counters["veto_events_checked"] += 1
                    if k != "F":
                        return ["rule %d (%s): the action returned false but the attempt was closed by %s, not failure" % (r, head_of(K, r), k)]
                    new = "vetoed"
                else:
                    if k != "O":
                        return ["rule %d (%s): the action accepted (returned true / void) but the attempt was closed by %s, not success" % (r, head_of(K, r), k)]
                if e is not None and p != e:
                    return ["rule %d (%s): action end / parse input position %s differs from the position %s of the closing hook" % (r, head_of(K, r), e, p)]
            st.pop()
            st[-1][4] = new
        elif k in ("A", "Z"):
            fam, r = n[0], n[1]
            counters["apply_events_checked"] += 1
            if len(st) < 2 or st[-1][0] != "H" or st[-1][1] != r or st[-2][0] != "I" or st[-2][1] != r:
                return ["action of rule %d (%s) invoked outside the window between its own match and its closing hook" % (r, head_of(K, r))]
            if st[-1][3] is not None:
                return ["action of rule %d (%s) invoked twice for one match" % (r, head_of(K, r))]
            if st[-2][2] != 1:
                return ["action of rule %d (%s) invoked in an invocation entered with apply_mode::nothing" % (r, head_of(K, r))]
            b = st[-1][2]
            if k == "A":
                ab, ae = tuple(n[2:5]), tuple(n[5:8])
                if ab != b:
                    return ["rule %d (%s): action input begins at %s but the match started at %s" % (r, head_of(K, r), ab, b)]
                st[-1][3] = (ae, vetoes(K, gid, "A", fam, r, ab[0], ae[0]))
            else:
                st[-1][3] = (None, vetoes(K, gid, "Z", fam, r, 0, 0))
        elif k in ("I", "J"):
            f = nearest()
            counters["inline_events_checked"] += 1
            if f is None or not (f[2] == 1 or is_enabler(K, gid, f[1])):
                return ["inline action %d invoked while actions are disabled" % n[0]]
            if k == "I" and tuple(n[1:4]) != f[3]:
                return ["inline action %d: action input begins at %s but rule %d (%s) was entered at %s" % (n[0], tuple(n[1:4]), f[1], head_of(K, f[1]), f[3])]
        elif k == "E":
            r, res, p = n[1], n[2], tuple(n[3:6])
            if st and st[-1][0] == "I" and st[-1][1] == r:
                f = st.pop()
                if f[4] == "vetoed":
                    if res == 1:
                        return ["rule %d (%s): the action returned false but the invocation returned true" % (r, head_of(K, r))]
                    if p != f[3]:
                        return ["rule %d (%s): veto did not restore the cursor: match started at %s, left at %s" % (r, head_of(K, r), f[3], p)]
            elif len(st) >= 2 and st[-1][0] == "H" and st[-1][1] == r and st[-2][0] == "I" and st[-2][1] == r and res == 2:
                st.pop()
                st.pop()
            else:
                return ["invocation exit of rule %d (result %d) does not match the open frames" % (r, res)]
    if st:
        return ["%d frames still open at the end of the run" % len(st)]
    return []


def protocol_hooks_only(K, rec, evs, counters):
    """subset of the machine that needs no invocation trace (control families 0/1, or control<> switches)"""
    gid = rec["gid"]
    st = []          # [rule, ctl, start, fired]
    for k, n in evs:
        if k == "S":
            st.append([n[1], n[0], tuple(n[2:5]), None])
        elif k in ("O", "F", "U"):
            r, p = n[1], tuple(n[2:5])
            idx = None
            for i in range(len(st) - 1, -1, -1):
                if st[i][0] == r and st[i][1] == n[0]:
                    idx = i
                    break
            if idx is None:
                return ["closing hook %s for rule %d without open attempt" % (k, r)]
            del st[idx + 1:]          # attempts abandoned by an exception (C08's business)
            fired = st[-1][3]
            if fired is not None:
                e, v = fired
                if v:
                    counters["veto_events_checked"] += 1
                    if k != "F":
                        return ["rule %d (%s): the action returned false but the attempt was closed by %s, not failure" % (r, head_of(K, r), k)]
                elif k != "O":
                    return ["rule %d (%s): the action accepted (returned true / void) but the attempt was closed by %s, not success" % (r, head_of(K, r), k)]
                if e is not None and p != e:
                    return ["rule %d (%s): action end / parse input position %s differs from the position %s of the closing hook" % (r, head_of(K, r), e, p)]
            st.pop()
        elif k in ("A", "Z"):
            fam, r = n[0], n[1]
            counters["apply_events_checked"] += 1
            if not st or st[-1][0] != r:
                return ["action of rule %d (%s) invoked outside the window between its own match and its closing hook" % (r, head_of(K, r))]
            if st[-1][3] is not None:
                return ["action of rule %d (%s) invoked twice for one match" % (r, head_of(K, r))]
            if k == "A":
                ab, ae = tuple(n[2:5]), tuple(n[5:8])
                if ab != st[-1][2]:
                    return ["rule %d (%s): action input begins at %s but the match started at %s" % (r, head_of(K, r), ab, st[-1][2])]
                st[-1][3] = (ae, vetoes(K, gid, "A", fam, r, ab[0], ae[0]))
            else:
                st[-1][3] = (None, vetoes(K, gid, "Z", fam, r, 0, 0))
    return []


# --------------------------------------------------------------------------- disabled sections and look-ahead
QUIETERS = ("at", "not_at", "disable")


def sections(K, rec, evs, traced, counters):
    out = []
    gid = rec["gid"]
    cfg = rec["cfg"].split(".")
    acts = [(k, n) for k, n in evs if k in "AZIJ"]
    if cfg[2] == "0":
        counters["disabled_runs_checked"] += 1
        if acts and not any(is_enabler(K, gid, r) for r in reachable(K, rec["root"])):
            out.append("run started with apply_mode::nothing in a grammar without enable, yet %d action(s) were invoked (first: %s%s)" % (len(acts), acts[0][0], acts[0][1][:2]))
    if not traced:
        return out
    st = []
    for k, n in evs:
        if k == "B":
            if st and head_of(K, st[-1]) in QUIETERS:
                counters["lookahead_frames_checked" if head_of(K, st[-1]) != "disable" else "disabled_frames_checked"] += 1
                if n[2] == 1:
                    out.append("%s (rule %d) passed apply_mode::action to its sub-rule %d (%s)" % (head_of(K, st[-1]), st[-1], n[1], head_of(K, n[1])))
                    return out
            st.append(n[1])
        elif k == "E":
            if st:
                st.pop()
        elif k in "AZIJ":
            # the attempt's own node is not "below" itself: at< R > as a named/public rule may carry an action of its own
            for r in reversed(st[:-1] if k in "AZ" else st):
                if is_enabler(K, gid, r):
                    break
                if head_of(K, r) in QUIETERS:
                    what = "action of rule %d" % n[1] if k in "AZ" else "inline action %d" % n[0]
                    out.append("%s invoked inside %s (rule %d) without an enable in between" % (what, "look-ahead" if head_of(K, r) != "disable" else "a disabled section", r))
                    return out
    return out


# --------------------------------------------------------------------------- survivors (ActionSpec.surv)
def survivors(K, evs, traced):
    stk = []
    cur = []
    for k, n in evs:
        if k == ("B" if traced else "S"):
            stk.append(cur)
            cur = []
        elif (traced and k == "E") or (not traced and k in "OFU"):
            parent = stk.pop() if stk else []
            if traced:
                keep = n[2] == 1
            else:
                keep = k == "O"
            cur = parent + cur if keep else parent
        elif k == "A":
            cur.append((n[1], n[2], n[5]))
    return cur


# --------------------------------------------------------------------------- reference semantics (ActionSpec.peg_acts)
class Budget(Exception):
    pass


def parse_sexp(s):
    toks = s.replace("(", " ( ").replace(")", " ) ").split()
    pos = [0]

    def rd():
        t = toks[pos[0]]
        pos[0] += 1
        if t == "(":
            l = []
            while toks[pos[0]] != ")":
                l.append(rd())
            pos[0] += 1
            return l
        return t
    return rd()


def peg_acts(surf, data, off0, att, veto, root="G"):
    """surf: name -> parsed sexp. att(name) -> has action; veto(name, b, e) -> the action returns false.
    Returns None (failure) or (end, [(name, begin, end)]); positions are byte offsets + off0."""
    steps = [0]
    n = len(data)

    def seq(es, i, A):
        acts = []
        for e in es:
            r = ev(e, i, A)
            if r is None:
                return None
            i, l = r
            acts += l
        return i, acts

    def one1(args, i, A):
        return ev(args[0], i, A) if len(args) == 1 else seq(args, i, A)

    def ev(e, i, A):
        steps[0] += 1
        if steps[0] > 20000:
            raise Budget()
        h, args = e[0], e[1:]
        if h == "any":
            return (i + 1, []) if i < n else None
        if h == "one":
            return (i + 1, []) if i < n and str(data[i]) in args else None
        if h == "not_one":
            return (i + 1, []) if i < n and str(data[i]) not in args else None
        if h == "range":
            return (i + 1, []) if i < n and int(args[0]) <= data[i] <= int(args[1]) else None
        if h == "string":
            bs = [int(x) for x in args]
            return (i + len(bs), []) if list(data[i:i + len(bs)]) == bs else None
        if h == "eof":
            return (i, []) if i == n else None
        if h == "success":
            return (i, [])
        if h == "failure":
            return None
        if h == "seq":
            return seq(args, i, A)
        if h == "sor":
            for a in args:
                r = ev(a, i, A)
                if r is not None:
                    return r
            return None
        if h in ("star", "plus"):
            acts = []
            first = True
            while True:
                r = one1(args, i, A)
                if r is None:
                    if first and h == "plus":
                        return None
                    return i, acts
                first = False
                i, l = r
                acts += l
                steps[0] += 1
                if steps[0] > 20000:
                    raise Budget()
        if h == "opt":
            r = one1(args, i, A)
            return r if r is not None else (i, [])
        if h == "at":
            return (i, []) if one1(args, i, False) is not None else None
        if h == "not_at":
            return (i, []) if one1(args, i, False) is None else None
        if h == "ref":
            return rule(args[0], i, A)
        raise ValueError("sexp head " + h)

    def rule(name, i, A):
        r = ev(surf[name], i, A)
        if r is None:
            return None
        j, l = r
        if A and att(name):
            if veto(name, off0 + i, off0 + j):
                return None
            l = l + [(name, off0 + i, off0 + j)]
        return j, l

    return rule(root, 0, True if att is not None else False)


def reference(K, rec, counters):
    """survivors of the implementation's log against the reference derivation (classical grammars, families 7/8)"""
    gid = rec["gid"]
    g = K.grams[gid]
    cfg = rec["cfg"].split(".")
    fam = int(cfg[0])
    if g.surface is None or K.tie.get(gid) != "1" or fam not in (7, 8) or rec["res"][:1] not in "TF":
        return []
    c = _kcache(K)
    if gid not in c["surf"]:
        try:
            c["surf"][gid] = {nm: parse_sexp(sx) for nm, sx in g.surface.items()}
        except (IndexError, ValueError):
            c["surf"][gid] = None
    surf = c["surf"][gid]
    if surf is None:
        return []
    node = {nm: c["rev"].get("g%d::%s" % (gid, nm)) for nm in surf}
    if any(v is None for v in node.values()):
        return []
    data = bytes.fromhex(rec["input"]) if rec["input"] != "-" else b""
    off0 = 7 if "@" in cfg[4] else 0
    A = cfg[2] == "1"
    try:
        ref_ = peg_acts(surf, data, off0, (lambda nm: True) if A else None,
                        (lambda nm, b, e: not veto_pred(node[nm], b, e)) if fam == 8 else (lambda nm, b, e: False))
    except (Budget, RecursionError):
        counters["reference_budget_exhausted"] += 1
        return []
    if not A and ref_ is not None:
        ref_ = (ref_[0], [])
    counters["survivor_lists_compared"] += 1
    evs = er.events_of(rec)
    out = []
    if ref_ is None:
        if rec["res"] == "T":
            out.append("the reference derivation (PEG with vetoing actions) fails but parse() returned true at %s" % rec["cur"])
        return out
    if rec["res"] == "F":
        return ["the reference derivation succeeds consuming %d bytes but parse() returned false" % ref_[0]]
    end, racts = ref_
    if int(rec["cur"].split(",")[0]) != off0 + end:
        out.append("the reference derivation consumes %d bytes but parse() left the cursor at %s" % (end, rec["cur"]))
    if not fully_traced(rec, evs):
        return out          # without the invocation trace, failures of hook-less internal rules are invisible: verdict only
    want = [(node[nm], b, e) for nm, b, e in racts]
    got = survivors(K, evs, True)
    if want:
        counters["survivor_lists_nonempty"] += 1
    if got != want:
        out.append("surviving actions differ from the reference derivation: impl=%s reference=%s" % (got, want))
    return out


# --------------------------------------------------------------------------- eager vs lazy
def eager_lazy(K, rec, evs, counters):
    cfg = rec["cfg"]
    key = (rec["gid"], cfg.replace("lazy-", ""), rec["input"])
    mine = (rec["res"][:1], [(k, n[:-1] if k == "A" else n) for k, n in evs if k in "AIZJ"])
    pairs = _kcache(K)["pairs"]
    other = pairs.get(key)
    if other is None:
        pairs[key] = (cfg, mine)
        return []
    if other[0] == cfg:
        return []
    counters["eager_lazy_pairs_compared"] += 1
    del pairs[key]
    if other[1] != mine:
        return ["action events differ between eager and lazy tracking of the same case: %s=%s  %s=%s" % (other[0], str(other[1])[:300], cfg, str(mine)[:300])]
    return []


# --------------------------------------------------------------------------- entry points of the pipeline
def inline_vetoes(K, rec, evs, counters):
    """bool inline actions of if_apply< Rule, Actions... > (vh::ia< 1 >, vh::ia< 3 >): an action returning false turns the
    match into a local failure with the cursor back at the start of that match, whatever the rewind mode (the property's
    last clause, for the inline form).  Needs the invocation trace."""
    out = []
    st = []
    for k, n in evs:
        if k == "B":
            st.append({"rule": n[1], "pos": tuple(n[4:7]), "veto": False})
        elif k == "E":
            if not st:
                return out
            f = st.pop()
            if f["veto"] and head_of(K, f["rule"]) == "if_apply":
                counters["inline_vetoes_checked"] += 1
                if n[2] == 1:
                    out.append("if_apply (rule %d): an inline action returned false but the rule reports success" % f["rule"])
                elif n[2] == 0 and tuple(n[3:6]) != f["pos"]:
                    out.append("if_apply (rule %d): an inline action vetoed the match but the cursor is left at %s (the match started at %s)" % (f["rule"], tuple(n[3:6]), f["pos"]))
        elif k == "I" and st:
            b, e = n[1], n[4]
            ok = True
            if n[0] == 1:
                ok = ((b * 3 + e * 5) % 3) != 0          # vh::ipred
            elif n[0] == 3:
                ok = ((b + e) % 2) != 0                  # vh::ipred3
            if not ok:
                st[-1]["veto"] = True
    return out


def oracle(K, rec, counters):
    if rec["res"] == "RUNAWAY":
        return []
    evs = er.events_of(rec)
    counters["logs_checked"] += 1
    traced = fully_traced(rec, evs)
    out = []
    if traced:
        counters["logs_with_full_machine"] += 1
        out += protocol(K, rec, evs, counters)
    else:
        out += protocol_hooks_only(K, rec, evs, counters)
    out += sections(K, rec, evs, traced, counters)
    if traced:
        out += inline_vetoes(K, rec, evs, counters)
    out += reference(K, rec, counters)
    out += eager_lazy(K, rec, evs, counters)
    return out


def projection(rec, K, model):
    res = er.canon_model_res(K, rec) if model else er.canon_impl_res(rec)
    keep = []
    for e in rec["events"].split(";"):
        if e[:1] in ("A", "Z"):
            keep.append(e.rsplit(",", 1)[0])          # without the state-instance field (C13)
        elif e[:1] in ("I", "J"):
            keep.append(e)
    return res[:1] + "|" + ";".join(keep)


# --------------------------------------------------------------------------- property-specific grammars
def _gram(rules, root, tags, pre=""):
    """rules: [(name, T)], root: T"""
    surface = None
    if root.sx is not None and all(t.sx is not None for _, t in rules):
        surface = {"G": root.sx}
        for n, t in rules:
            surface[n] = t.sx
    return corpus.Gram(0, [(n, t.cpp) for n, t in rules], root.cpp, tags=["c04", "actions"] + list(tags) + (["classical"] if surface else []),
                       surface=surface, pre=pre)


def _pre(*atts):
    return "namespace vh {\n" + "\n".join("template<> struct act%d< @NS@::%s > : %s { using vbase = %s; };" % (f, r, m, m) for f, r, m in atts) + "\n}"


def _shared_selection(tier, seed):
    """action-relevant part of the shared corpus: every (2nd) switch / inline / state template instance, a stride
    sample of the classical ones (reference derivation applies) and of the rest, plus seeded random grammars"""
    base = [g for g in corpus.systematic(tier) if "maybe_loop" not in g.tags]
    th = tier == "thorough"
    s_act, s_cls, s_rest = (4, 12, 48) if th else (2, 3, 12)
    sel = []
    cnt = {"act": 0, "cls": 0, "rest": 0}
    for g in base:
        c = "act" if g.tags & {"switch", "inline", "state"} else ("cls" if "classical" in g.tags else "rest")
        cnt[c] += 1
        if (cnt[c] + seed) % {"act": s_act, "cls": s_cls, "rest": s_rest}[c] == 0:
            sel.append(g)
    sel += corpus.random_grammars(seed, 40 if th else 10, start_gid=0)
    sel += corpus.random_grammars(seed + 7919, 50 if th else 16, start_gid=0, classical_only=True)
    return sel


def extra_grams(tier, seed, start_gid):
    """the C04 family spread evenly among the shared selection (its grammars carry twice as many configurations:
    keeps the translation units of equal compile cost)"""
    mine, shared = _c04_family(tier), _shared_selection(tier, seed)
    out = []
    step = max(1, len(shared) // max(1, len(mine)))
    it = iter(mine)
    for i, g in enumerate(shared):
        if i % step == 0:
            m = next(it, None)
            if m is not None:
                out.append(m)
        out.append(g)
    out += list(it)
    return out


def _c04_family(tier):
    a, b, c = one("a"), one("b"), one("c")
    N0 = ("N0", app("seq", a, app("opt", b)))
    N1 = ("N1", app("seq", a, b))
    N2 = ("N2", app("sor", app("seq", ref("N0"), c), ref("N1")))
    R = ("R", app("sor", app("seq", a, ref("R")), b))
    n0, n1, n2, r_ = ref("N0"), ref("N1"), ref("N2"), ref("R")
    tailany = app("star", ANY)
    out = []

    def add(rules, root, *tags, pre=""):
        out.append(_gram(list(rules), root, tags, pre))

    # classical: look-ahead over named rules, backtracking after actions fired, recursion
    add([N0, N1], app("seq", app("at", n0), n0, app("not_at", n1), tailany), "lookahead")
    add([N0, N1], app("sor", app("seq", n0, c), app("seq", n0, b), n1), "backtrack")
    add([N0, N1], app("seq", app("star", app("sor", n1, n0)), app("opt", EOF_)), "backtrack", "loop")
    add([N0], app("seq", app("opt", n0), tailany), "backtrack")
    add([N0], app("seq", app("plus", n0), app("opt", EOF_)), "loop")
    add([N0, N1, N2], app("seq", n2, app("opt", n2), tailany), "nested")
    add([R], app("seq", r_, app("opt", EOF_)), "recursion")
    add([N1], app("seq", app("star", app("seq", n1, c)), tailany), "loop", "backtrack")
    add([N0, N1], app("sor", app("seq", app("at", n0), n1), n0), "lookahead", "backtrack")
    add([N0, N1], app("seq", app("star", app("seq", app("not_at", n1), n0)), tailany), "lookahead", "loop")
    add([N0, N1, N2], app("seq", app("at", app("seq", n0, app("opt", n1))), app("star", app("sor", n2, c))), "lookahead", "nested", "loop")
    add([N0, N1], app("seq", app("opt", app("seq", n0, n1)), app("opt", n0), app("opt", EOF_)), "backtrack")
    add([N0, R], app("sor", app("seq", r_, c), app("seq", n0, r_), app("plus", n0)), "recursion", "backtrack")
    # disable / enable nesting
    add([N0], raw("seq< disable< N0 >, opt< N0 > >"), "switch")
    add([N0, N1], raw("seq< disable< seq< N0, enable< N1 >, opt< N0 > > >, star< any > >"), "switch")
    add([N0], raw("sor< seq< disable< enable< N0 > >, one< 'c' > >, enable< disable< N0 > >, N0 >"), "switch", "backtrack")
    add([N0, N1], raw("seq< at< enable< N0 > >, N0, not_at< enable< N1 > >, star< any > >"), "switch", "lookahead")
    add([N0, N1], raw("seq< at< disable< enable< sor< N1, N0 > > > >, star< sor< N1, N0 > > >"), "switch", "lookahead", "loop")
    # action<> switching families
    add([N0, N1], raw("seq< action< vh::act1, N0 >, opt< action< vh::act3, seq< N0, N1 > > >, star< any > >"), "switch")
    add([N0, N1], raw("sor< action< vh::act8, seq< N0, one< 'c' > > >, action< vh::act0, seq< N0, one< 'b' > > >, action< vh::act4, N1 >, N0 >"), "switch", "backtrack")
    add([N0, N1], raw("star< sor< action< vh::act3, seq< N1, action< vh::act2, N0 > > >, action< vh::act7, N0 >, one< 'c' > > >"), "switch", "loop")
    # inline actions
    add([N0], raw("seq< N0, apply< vh::ia< 0 >, vh::ia< 1 > >, opt< one< 'c' > > >"), "inline")
    add([N0, N1], raw("sor< if_apply< N1, vh::ia< 1 > >, if_apply< N0, vh::ia< 0 >, vh::ia< 1 > >, one< 'c' > >"), "inline", "backtrack")
    add([N1], raw("star< if_apply< seq< one< 'a' >, opt< N1 > >, vh::ia< 1 > > >"), "inline", "loop")
    # vh::ia< 3 > vetoes every even-length match that starts at an even offset: vetoes of matches that consumed
    add([N0, N1], raw("sor< if_apply< N1, vh::ia< 3 > >, if_apply< N0, vh::ia< 0 >, vh::ia< 3 > >, star< any > >"), "inline", "backtrack")
    add([N1], raw("seq< opt< if_apply< seq< one< 'a' >, one< 'b' > >, vh::ia< 3 > > >, star< any > >"), "inline")
    add([N0], raw("star< sor< if_apply< plus< one< 'a' > >, vh::ia< 3 > >, any > >"), "inline", "loop")
    add([N0], raw("seq< N0, apply0< vh::ia0< 10 >, vh::ia0< 11 > >, opt< seq< N0, apply0< vh::ia0< 12 > > > >, star< any > >"), "inline")
    add([N0], raw("seq< disable< if_apply< N0, vh::ia< 0 > > >, at< seq< N0, apply< vh::ia< 0 > >, apply0< vh::ia0< 10 > > > >, opt< N0 > >"), "inline", "switch", "lookahead")
    add([N0, N1], raw("seq< disable< seq< N0, enable< if_apply< opt< N1 >, vh::ia< 0 > > > > >, star< any > >"), "inline", "switch")
    # custom family act9: match-level enable / disable, bool apply / apply0, change_action
    P0 = ("N0", raw("seq< N1, opt< N2 > >"))
    P1 = ("N1", app("seq", a, app("opt", b)))
    P2 = ("N2", raw("seq< one< 'c' >, N1 >"))
    add([P0, P1, P2], raw("seq< N0, opt< N1 >, star< any > >"), "custom",
        pre=_pre((9, "N0", "m_disable_action"), (9, "N1", "b_apply_bool< 9, @NS@::N1 >"), (9, "N2", "m_enable_action")))
    add([P0, P1, P2], raw("seq< at< N2 >, disable< N2 >, opt< N0 > >"), "custom", "lookahead",
        pre=_pre((9, "N1", "b_apply0_bool< 9, @NS@::N1 >"), (9, "N2", "m_enable_action"), (9, "N0", "b_apply_void< 9, @NS@::N0 >")))
    add([("N0", raw("seq< one< 'a' >, N1 >")), ("N1", app("sor", b, a))], raw("star< sor< N0, N1, one< 'c' > > >"), "custom", "loop",
        pre=_pre((9, "N0", "m_change_action< vh::act3 >"), (9, "N1", "b_apply_bool< 9, @NS@::N1 >")))
    if tier == "thorough":
        # the same constructs under the calling contexts of the shared corpus (inherited modes / enclosing guards)
        base = list(out)
        for i, g in enumerate(base):
            ctxs = corpus.contexts()[1:]
            for cname, wrap in [ctxs[(i + j) % len(ctxs)] for j in range(4)]:
                if "loop" in g.tags and cname == "star_body" and i % 2:
                    continue
                t = corpus.T(g.root, g.surface["G"] if g.surface else None)
                w = wrap(t)
                surface = None
                if g.surface is not None and w.sx is not None:
                    surface = dict(g.surface)
                    surface["G"] = w.sx
                out.append(corpus.Gram(0, g.rules, w.cpp, tags=(set(g.tags) - {"classical"}) | {"ctx:" + cname} | ({"classical"} if surface else set()),
                                       surface=surface, pre=g.pre))
    return out


C04_QUICK = [("act8", "ctl2", 1, 1, "lf_crlf"), ("act8", "ctl2", 1, 1, "lf_crlf", "lazy"), ("act7", "ctl3", 1, 0, "lf_crlf"),
             ("act3", "ctl2", 1, 0, "lf_crlf"), ("act4", "ctl0", 1, 1, "lf_crlf"), ("act1", "ctl2", 0, 1, "lf_crlf")]
C04_MORE = [("act7", "ctl2", 1, 1, "lf_crlf", "lazy+init"), ("act7", "ctl2", 1, 1, "lf_crlf", "init"), ("act2", "ctl2", 1, 0, "lf_crlf"),
            ("act3", "ctl1", 1, 1, "lf_crlf"), ("act8", "ctl3", 1, 0, "lf_crlf", "lazy"), ("act8", "ctl3", 1, 0, "lf_crlf"), ("act1", "ctl0", 1, 1, "lf_crlf")]
C04_CUSTOM = [("act9", "ctl2", 1, 1, "lf_crlf"), ("act9", "ctl3", 1, 0, "lf_crlf"), ("act9", "ctl2", 0, 1, "lf_crlf")]


def choose_cfgs(g, k, tier):
    if "c04" not in g.tags:
        cf = list(er.choose_cfgs(g, k, tier))
        if "classical" in g.tags and "atoms" not in g.tags:
            # named-rule families: the reference derivation (peg_acts) applies
            for x in ([("act8", "ctl2", 1, 1, "lf_crlf"), ("act7", "ctl3", 1, 0, "lf_crlf")] if tier == "thorough" else [("act8", "ctl2", 1, 1, "lf_crlf")]):
                if x not in cf:
                    cf.append(x)
        return cf
    if "custom" in g.tags:
        return C04_CUSTOM + C04_QUICK[:2]
    if tier != "thorough":
        return C04_QUICK
    return C04_QUICK + [C04_MORE[(k + j) % len(C04_MORE)] for j in range(4)]
