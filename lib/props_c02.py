"""props_c02 — C02-specific corpus booster.  The shared quick corpus rotates one calling context per
(template, basis) combination; a mode-passing slip shows only when the construct is called with
rewind_mode::required AND a sub-rule fails after consuming (or a bool action vetoes a match that
consumed).  This family adds, for every combinator template, the consume-then-fail basis in every
slot under the two contexts that request rewinding (non-last sor alternative, loop body), plus the
inline-action rules with a vetoing action (ia< 3 > vetoes even-length matches), with and without
actions attached (which changes who is responsible for rewinding)."""
import corpus

BASE_CORPUS = True


def extra_grams(tier, seed, start_gid):
    B = corpus.basis()
    ctxs = dict(corpus.contexts())
    out = []
    k = 0
    for name, ns, build, tags in corpus.templates():
        tagl = tags.split() + [name, "c02boost"]
        for bname in (("cf", "namedcf") if tier == "quick" else ("cf", "namedcf", "cfraise", "plus")):
            slots = [B[bname]] * ns
            t = build(*slots)
            for cname in (("sor_first", "star_body") if tier != "quick" else (("sor_first",) if k % 2 == 0 else ("star_body",))):
                if cname == "star_body" and "loop" in tagl and bname in ("plus",):
                    continue
                out.append(corpus.mk(0, ctxs[cname](t), tagl + ["ctx:" + cname, "basis:" + bname]))
            k += 1
    # bool inline actions vetoing a match that consumed: if_apply / apply after a consuming rule, in required contexts
    for body in ("if_apply< seq< one< 'a' >, one< 'b' > >, vh::ia< 3 > >", "if_apply< plus< one< 'a' > >, vh::ia< 0 >, vh::ia< 3 > >",
                 "if_apply< N1, vh::ia< 3 > >", "seq< one< 'a' >, one< 'b' >, apply< vh::ia< 3 > > >", "if_apply< seq< N0, opt< one< 'c' > > >, vh::ia< 3 > >",
                 "seq< plus< one< 'a' > >, apply0< vh::ia0< 12 > > >"):
        for cname in ("top", "sor_first", "star_body", "opt_then"):
            t = corpus.raw(body)
            out.append(corpus.mk(0, ctxs[cname](t), ["inline", "c02boost", "ctx:" + cname]))
    return out


BOOST_CFGS = [("act0", "ctl2", 1, 1, "lf_crlf"), ("act1", "ctl2", 1, 0, "lf_crlf"), ("act8", "ctl3", 1, 1, "lf_crlf")]


def choose_cfgs(g, k, tier):
    if "c02boost" in g.tags:
        return BOOST_CFGS if tier != "quick" else [BOOST_CFGS[0], BOOST_CFGS[1 + k % 2]]
    return None
