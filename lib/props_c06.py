"""props_c06 — C06: reported positions are a function of the consumed prefix only.

Oracle (spec side, on the IMPLEMENTATION's record only): `track` is recomputed here from the property's
arithmetic statement over the raw input bytes,
    byte   = initial byte + |prefix|
    line   = initial line + number of eol characters in the prefix
    column = 1 + number of bytes after the last eol character (initial column + |prefix| if there is none)
with the eol character of the configured policy ('\\n' for lf / crlf / lf_crlf, '\\r' for cr / cr_crlf) and the
initial counters (0,1,1) or (7,3,5); EVERY position triple of the record (final cursor, S/O/F/U/R/G/B/E/N/Y
events, both positions of A/I events, the positions inside (nested) parse_error results) must equal
track(prefix of length byte - initial byte).  Second, every eager configuration is run together with its lazy
twin (same grammar, same input, tracking_mode::lazy) and the two implementation records must be identical
(result, final position, every event).

Grammars containing UTF-16/32 or multi-byte uintN / mask_uintN rules are excluded from the oracle as the
property documents (they still take part in the model/implementation correspondence)."""
import collections

import corpus
import engine_run as er

MAXLEN = {"quick": 4, "thorough": 5}
BASE_CORPUS = True

# the shared corpus contributes its "atoms" family; a tag subset of the systematic family is re-generated in
# extra_grams with line ends in the alphabet
WANT_TAGS = ["atoms"]
SYS_TAGS = {
    "quick": ["star1", "at1", "until1", "until2", "must1", "rematch", "tc_nested", "state", "if_apply0"],
    "thorough": ["seq2", "sor2", "star1", "plus1", "opt1", "at1", "not_at1", "until1", "until2", "rep2", "rep_min_max12", "rep_opt2",
                 "if_then_else", "if_must", "must1", "list", "pad", "partial", "strict", "star_strict", "rematch", "minus", "tc_false", "tc_nested",
                 "state", "action3", "if_apply0", "apply_seq", "raise_msg", "disable_enable", "star_must"],
}

KNOWN_SIGS = {
    "KNOWN:cr_crlf-eol": "eol::cr_crlf: eol/eolf on CR LF bumps to column 1 but the LF is not the eol character (eager 2:2:1, lazy 2:2:2)",
    "KNOWN:mask-uint8": "uint8::mask_* rule matching the eol byte: bump_help tests the unmasked eol character (eager 1:1:2, lazy 1:2:1)",
    "KNOWN:lazy-byte-init": "lazy memory_input::byte() ignores the initial byte counter: bof matches at the start of a lazy input constructed with initial byte 7, not of an eager one",
    "KNOWN:lazy-rematch": "rematch< Head, Rules... > under tracking_mode::lazy: the inner input restarts counting at 0:1:1, positions reported inside Rules are relative to the rematched span",
}

POLICIES = ("lf", "cr", "crlf", "lf_crlf", "cr_crlf")
EOL_CH = {"lf": 10, "crlf": 10, "lf_crlf": 10, "cr": 13, "cr_crlf": 13}


# --------------------------------------------------------------------------- specification side
def cfg_parts(cfgname):
    """-> (policy, lazy, (byte0, line0, col0), key-without-lazy)"""
    f, c, a, m, e = cfgname.split(".")
    lazy = e.startswith("lazy-")
    if lazy:
        e = e[5:]
    init = (0, 1, 1)
    pol = e
    if e.endswith("@7-3-5"):
        pol = e[:-6]
        init = (7, 3, 5)
    return pol, lazy, init, ".".join((f, c, a, m, e))


def track(ch, init, prefix):
    """the property's arithmetic definition (NOT a byte-by-byte bump)"""
    n = len(prefix)
    k = prefix.count(ch)
    if k == 0:
        return (init[0] + n, init[1], init[2] + n)
    last = len(prefix) - 1 - prefix[::-1].index(ch)
    return (init[0] + n, init[1] + k, 1 + (n - 1 - last))


def positions_of(rec):
    """every position triple in the record with a description of where it is observed"""
    out = []
    cur = rec["cur"].split(",")
    try:
        out.append(("final input position", tuple(int(x) for x in cur[:3])))
    except ValueError:
        pass
    for k, n in er.events_of(rec):
        if k in "SOFURG":
            out.append(("%s hook of rule %d" % (k, n[1]), tuple(n[2:5])))
        elif k == "A":
            out.append(("action input begin of rule %d" % n[1], tuple(n[2:5])))
            out.append(("action input end of rule %d" % n[1], tuple(n[5:8])))
        elif k == "I":
            out.append(("inline action begin", tuple(n[1:4])))
            out.append(("inline action end", tuple(n[4:7])))
        elif k in "NY":
            out.append(("state %s" % k, tuple(n[2:5])))
        elif k == "B":
            out.append(("entry of rule %d" % n[1], tuple(n[4:7])))
        elif k == "E":
            out.append(("exit of rule %d" % n[1], tuple(n[3:6])))
    if rec["res"].startswith("X"):
        for p in rec["res"][1:].split(">"):
            if p.startswith("P:"):
                f = p.split(":")
                try:
                    out.append(("parse_error position", tuple(int(x) for x in f[2].split(","))))
                except (ValueError, IndexError):
                    out.append(("parse_error position", (-1, -1, -1)))
    return out


EXCLUDED_PEEKS = ("utf16:", "utf32:", "uint:", "mask:")


def table_flags(K):
    """per chunk: which grammars contain documented-exclusion heads / mask8 heads / eol heads / bof"""
    fl = getattr(K, "_c06_flags", None)
    if fl is not None:
        return fl
    heads = collections.defaultdict(set)
    # node ids are global in the chunk; attribute them to grammars through reachability from the roots
    roots = {}
    for r in K.impl:
        roots.setdefault(r["gid"], r["root"])
    fl = {}
    for gid, root in roots.items():
        seen = set()
        todo = [root]
        while todo:
            x = todo.pop()
            if x in seen or x not in K.table:
                continue
            seen.add(x)
            todo += K.table[x]["subs"]
        toks = [K.table[x]["head"] for x in seen]
        f = {"excluded": False, "mask8": [], "eol": False, "bof": False, "rematch": False}
        for x in seen:
            if K.table[x]["head"][:1] == ["rematch"] and len(K.table[x]["subs"]) >= 2:
                f["rematch"] = True
        for h in toks:
            if not h:
                continue
            if h[0] in ("eol", "eolf"):
                f["eol"] = True
            if h[0] == "bof":
                f["bof"] = True
            for t in h[1:]:
                if t.startswith(EXCLUDED_PEEKS):
                    f["excluded"] = True
                if t.startswith("mask8:"):
                    f["mask8"].append(int(t[6:]))
        fl[gid] = f
    K._c06_flags = fl
    return fl


def oracle(K, rec, counters):
    out = []
    pol, lazy, init, key = cfg_parts(rec["cfg"])
    flags = table_flags(K).get(rec["gid"], {"excluded": False, "mask8": [], "eol": False, "bof": False, "rematch": False})
    if flags["excluded"]:
        counters["records_excluded_as_documented"] += 1
        return out
    ch = EOL_CH[pol]
    data = bytes.fromhex(rec["input"]) if rec["input"] != "-" else b""
    # the two documented deviations of EAGER tracking (known findings), recognised by their cause
    dev_crcrlf = pol == "cr_crlf" and flags["eol"] and b"\r\n" in data
    dev_mask = ch in data and any((ch & m) != ch for m in flags["mask8"])
    counters["records_checked"] += 1
    if ch in data:
        counters["records_with_eol_char"] += 1
    bad = None
    for where, p in positions_of(rec):
        counters["positions_checked"] += 1
        n = p[0] - init[0]
        if n < 0 or n > len(data):
            bad = "%s: byte %d outside the input (initial byte %d, %d bytes)" % (where, p[0], init[0], len(data))
            break
        want = track(ch, init, data[:n])
        if p != want:
            bad = "%s: reported %d:%d:%d but the consumed prefix %s gives %d:%d:%d" % ((where,) + p + (data[:n].hex() or "-",) + want)
            break
    if bad:
        if dev_crcrlf and not lazy:
            out.append("KNOWN:cr_crlf-eol|" + bad)
        elif dev_mask and not lazy:
            out.append("KNOWN:mask-uint8|" + bad)
        elif lazy and flags["rematch"]:
            out.append("KNOWN:lazy-rematch|" + bad)
        else:
            out.append(("lazy" if lazy else "eager") + " tracking, eol::" + pol + ": " + bad)
    # eager / lazy twins: the two implementation records must be identical
    tw = getattr(K, "_c06_twins", None)
    if tw is None:
        tw = K._c06_twins = {}
    k2 = (rec["gid"], key, rec["input"])
    other = tw.pop(k2, None)
    if other is None:
        tw[k2] = (lazy, rec)
    elif other[0] != lazy:
        counters["eager_lazy_pairs_compared"] += 1
        o = other[1]
        if (o["res"], o["cur"], o["events"]) != (rec["res"], rec["cur"], rec["events"]):
            e, l = (o, rec) if lazy else (rec, o)
            msg = "eager and lazy runs differ: eager %s | %s vs lazy %s | %s" % (e["res"][:60], e["cur"], l["res"][:60], l["cur"])
            if e["res"] == l["res"] and e["cur"] == l["cur"]:
                ee, le = e["events"].split(";"), l["events"].split(";")
                i = next((i for i, (x, y) in enumerate(zip(ee, le)) if x != y), min(len(ee), len(le)))
                msg = "eager and lazy runs differ at event %d: eager %s vs lazy %s" % (i, ee[i] if i < len(ee) else "-", le[i] if i < len(le) else "-")
            if dev_crcrlf:
                out.append("KNOWN:cr_crlf-eol|" + msg)
            elif dev_mask:
                out.append("KNOWN:mask-uint8|" + msg)
            elif flags["bof"] and init[0] != 0:
                out.append("KNOWN:lazy-byte-init|" + msg)
            elif flags["rematch"]:
                out.append("KNOWN:lazy-rematch|" + msg)
            else:
                out.append("eol::" + pol + ": " + msg)
    return out


def impl_twins_agree(K, rec):
    """do the IMPLEMENTATION's eager and lazy records of this (grammar, configuration, input) coincide?"""
    ix = getattr(K, "_c06_index", None)
    if ix is None:
        ix = K._c06_index = {}
        for r in K.impl:
            pol, lazy, init, key = cfg_parts(r["cfg"])
            ix[(r["gid"], key, r["input"], lazy)] = r
    pol, lazy, init, key = cfg_parts(rec["cfg"])
    e = ix.get((rec["gid"], key, rec["input"], False))
    l = ix.get((rec["gid"], key, rec["input"], True))
    return e is not None and l is not None and (e["res"], e["cur"], e["events"]) == (l["res"], l["cur"], l["events"])


def projection(rec, K, model):
    """everything: result with positions, final cursor, every event with its positions.
    Two behaviours of LAZY inputs are outside the (eager) engine model: bof with a non-zero initial byte (a lazy
    input's byte() is the offset from begin()) and positions inside rematch (the inner lazy input restarts at 0:1:1).
    Where the implementation's own eager and lazy records of such a case DIFFER, the oracle reports it (known
    findings) and the model comparison is reduced to what the model covers; where they agree (always, once the
    library is repaired) the full projection is compared."""
    pol, lazy, init, key = cfg_parts(rec["cfg"])
    fl = table_flags(K).get(rec["gid"], {})
    if lazy and ((init[0] != 0 and fl.get("bof")) or fl.get("rematch")) and not impl_twins_agree(K, rec):
        if init[0] != 0 and fl.get("bof"):
            return "lazy-bof-with-initial-byte"
        return rec["res"][:1] + "|" + rec["cur"]
    res = er.canon_model_res(K, rec) if model else er.canon_impl_res(rec)
    return res + "|" + rec["cur"] + "|" + rec["events"]


# --------------------------------------------------------------------------- corpus
LN = "a\n\r"


def extra_grams(tier, seed, start_gid):
    """combinators over atoms that match / contain eol bytes, with backtracking over line ends"""
    G = corpus.Gram
    U8 = "a\n\r\xc3\xa9"
    atoms = [
        # (text, alphabet)
        ("one< '\\n' >", LN), ("one< '\\r', 'a' >", LN), ("not_one< 'a' >", LN), ("not_one< '\\n' >", LN), ("any", LN),
        ("string< 'a', '\\n' >", LN), ("string< '\\r', '\\n' >", LN), ("string< 'a', 'a' >", LN), ("istring< 'A', '\\n' >", LN), ("istring< '\\r' >", LN),
        ("range< '\\n', 'a' >", LN), ("range< '\\x0b', 'a' >", LN), ("not_range< 'a', 'z' >", LN), ("not_range< '\\n', '\\r' >", LN),
        ("ranges< '\\t', '\\n', 'a' >", LN), ("ranges< 'a', 'z', '\\r' >", LN), ("ranges< 'a', 'b', 'c', 'z' >", LN),
        ("eol", LN), ("eolf", LN), ("bytes< 2 >", LN), ("seq< require< 2 >, bytes< 1 > >", LN), ("everything", LN),
        ("utf8::any", U8), ("utf8::one< 0x0A, 0xE9 >", U8), ("utf8::not_one< 0x61 >", U8), ("utf8::range< 0x0A, 0x7FF >", U8), ("utf8::not_range< 0x0A, 0x0D >", U8),
        ("utf8::ranges< 0x0D, 0x0D, 0x80, 0x7FF, 0x61 >", U8), ("utf8::string< 0xE9, 0x0A >", U8),
        ("uint8::any", LN), ("uint8::one< 0x0A, 0x0D >", LN), ("uint8::not_one< 0x61 >", LN), ("uint8::range< 0x0A, 0x0D >", LN), ("uint8::not_range< 0x0B, 0x7F >", LN),
        ("uint8::ranges< 0x00, 0x0A, 0x61 >", LN), ("uint8::mask_one< 0xFF, 0x0A >", LN), ("uint8::mask_not_one< 0x7F, 0x61 >", LN), ("uint8::mask_range< 0x1F, 0x0A, 0x0D >", LN),
        ("uint8::mask_one< 0x0F, 0x0A, 0x0D >", LN),
    ]
    temps = [
        "star< sor< seq< %s, one< 'a' > >, any > >",                            # consume (over a line end), fail, rewind, re-consume differently
        "seq< star< %s >, must< one< 'a' > > >",                                # parse_error position after the consumed prefix
        "seq< at< %s >, opt< %s >, star< any > >",
        "star< sor< seq< not_at< %s >, any >, seq< %s, opt< one< 'a' > > > > >",
        "until< %s >",
        "until< one< 'a' >, %s >",
        "rematch< seq< %s, opt< %s > >, star< any > >",
        "seq< opt< %s, %s, one< 'a' > >, star< any >, if_apply< eof, vh::ia< 0 > > >",
        "star< sor< try_catch_return_false< %s, must< one< 'a' > > >, state< vh::st< 0 >, any > > >",
        "plus< if_apply< %s, vh::ia< 0 > > >",
    ]
    out = []
    gid = start_gid
    nt = len(temps)
    for i, (a, al) in enumerate(atoms):
        if tier == "thorough":
            ts = [(i + j) % nt for j in range(6)]      # six of the ten templates per atom, rotating
        else:
            ts = sorted({i % nt, (i * 3 + 1) % nt})
        if a in ("eolf", "everything"):
            # these atoms succeed without consuming at the end of the input: only templates that cannot loop on that
            ok = [0, 2, 4, 6, 7, 8]
            ts = sorted({ok[t % len(ok)] for t in ts})
        for t in ts:
            body = temps[t].replace("%s", a)
            g = G(gid, [], body, tags=["c06", "c06:t%d" % t], alphabet=al)
            g.maxlen = 4 if len(al) <= 3 else 3
            if tier == "thorough":
                g.maxlen += 1
            out.append(g)
            gid += 1
    # a tag subset of the shared systematic family (head x behaviour basis x calling context), line ends in the alphabet
    want = set(SYS_TAGS[tier])
    for sg in corpus.systematic("quick"):       # the quick-size family also in the thorough tier (more tags, longer inputs)
        if sg.tags & want:
            sg.gid = gid
            sg.tags |= {"c06sys"}
            sg.alphabet = "abc\n\r"
            sg.maxlen = 3 if tier == "quick" else 4
            out.append(sg)
            gid += 1
    # rematch with several rules after the head, behind a prefix that crosses a line end: every rule is restarted at the
    # beginning of the rematched range and must report absolute positions (named rules: actions read the positions)
    for body, al in [("seq< star< one< '\\n', 'b' > >, rematch< plus< one< 'a' > >, N0, N1, star< any > > >", "a\nb"),
                     ("seq< opt< any >, rematch< seq< any, opt< any > >, opt< N0 >, at< N1 >, must< any > > >", "a\nb"),
                     ("star< sor< rematch< seq< one< 'a' >, opt< eol > >, any, N0, star< N1 > >, any > >", "a\n\r")]:
        g = G(gid, [("N0", "seq< one< 'a' >, opt< one< 'a' > > >"), ("N1", "one< 'a' >")], body, tags=["c06", "c06:rematch3"], alphabet=al)
        g.maxlen = 4 if tier == "quick" else 5
        out.append(g)
        gid += 1
    # documented deviations (known-finding witnesses) and the lazy byte() observation
    dev = [
        ("seq< eol, star< any > >", "a\r\n", ["c06", "dev:cr_crlf"]),
        ("seq< opt< one< 'a' > >, eolf, star< any > >", "a\r\n", ["c06", "dev:cr_crlf"]),
        ("star< sor< uint8::mask_one< 0xF0, 0x00 >, any > >", "a\n\r", ["c06", "dev:mask8"]),
        ("plus< uint8::mask_not_range< 0x40, 0x40, 0x7F > >", "a\n\r", ["c06", "dev:mask8"]),
        ("seq< bof, star< any > >", "a\n", ["c06", "dev:bof"]),
    ]
    for body, al, tags in dev:
        g = G(gid, [], body, tags=tags, alphabet=al)
        g.maxlen = 3
        out.append(g)
        gid += 1
    return out


def uses(g, word):
    import re
    txt = g.root + " " + " ".join(e for _, e in g.rules)
    return re.search(r"(?<![A-Za-z0-9_])%s(?![A-Za-z0-9_])" % word, txt) is not None


def choose_cfgs(g, k, tier):
    """each eager configuration together with its lazy twin.  Only Eol::ch matters to every rule except eol / eolf,
    so grammars without them run under one policy of each class ('\\n': lf crlf lf_crlf; '\\r': cr cr_crlf), rotating;
    grammars with eol / eolf and the atoms family run under all five.  Non-default initial counters for a rotating
    policy (all in the thorough tier)."""
    lazy_ok = not uses(g, "bol")            # bol reads in.column(), which a lazy input does not have (does not compile)
    import re
    if re.search(r"utf16_|utf32_|uint16_|uint32_|uint64_", g.root):
        # documented exclusion (outside the oracle): keep one eager / lazy pair of each eol class for the correspondence only
        return [("act1", "ctl2", 1, 1, "lf_crlf"), ("act1", "ctl2", 1, 1, "lf_crlf", "lazy"), ("act1", "ctl2", 1, 1, "cr"), ("act1", "ctl2", 1, 1, "cr", "lazy")]
    fams = [("act1", "ctl2", 1, 1), ("act3", "ctl2", 1, 0), ("act1", "ctl3", 1, 0), ("act3", "ctl0", 1, 1), ("act0", "ctl2", 0, 1)]
    if "atoms" in g.tags or (tier == "thorough" and "c06sys" not in g.tags) or uses(g, "eol") or uses(g, "eolf"):
        pols = list(POLICIES)
    else:
        pols = [("lf", "crlf", "lf_crlf")[k % 3], ("cr", "cr_crlf")[k % 2]]
    out = []
    for i, e in enumerate(pols):
        base = fams[0] if tier == "quick" else fams[(k + i) % 2 * 2]
        out.append(base + (e,))
        if lazy_ok:
            out.append(base + (e, "lazy"))
        if ("atoms" in g.tags and tier == "thorough") or (tier == "thorough" and i % 2 == k % 2) or ("c06sys" not in g.tags and i == k % len(pols)):
            alt = fams[1 + (k + i) % 4]
            out.append(alt + (e, "init"))
            if lazy_ok:
                out.append(alt + (e, "lazy+init"))
    return out
