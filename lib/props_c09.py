"""props_c09 — C09: convenience and contrib rules equal their documented expansions.

SPECIFICATION SIDE.  The `[Equivalent] to` clauses of /repo/doc/Rule-Reference.md, read and instantiated by
tools/doc_equiv.py (nothing here looks at the library's headers), plus the hand-written table PROSE below for the
rules the reference (or doc/Contrib-and-Examples.md) specifies in prose only; every entry quotes the text it formalises.

TWIN CORPUS.  For every rule K of the property, every argument combination (behaviour-basis sub-rules in every slot,
numeric bounds 0..4) and calling context ctx, the corpus holds a GROUP of grammars that land in the same translation unit:

    impl  :  ctx( K< args > )                      the convenience rule, run through the real parse()
    twinI :  ctx( EXPANSION_I( args ) )            the documented expansion (one twin per applicable clause), also run
                                                   through the real parse(); when the expansion only uses the classical
                                                   operators it additionally carries the surface term, so the pipeline
                                                   evaluates it with the extracted PEG formalism (K.spec)

and the oracle requires of the IMPLEMENTATION's records: same result kind; same consumed byte count on success; same
parse_error (position and raising rule's message, nested exceptions componentwise) on global failure; and the same
`T n` / `F` verdict as the formalism's on the classical twins.  For rematch / minus (prose about "the input that R
matched") the group holds the part grammars (R alone, each S alone) and the expected outcome is computed here from the
parts' records on the input and on the matched prefix.

Not promised by the property and therefore not compared: the cursor after a LOCAL failure in optional mode, hook events.

The model-vs-implementation comparison (projection below) runs on all of these grammars plus the shared systematic
corpus grammars whose head is a C09 rule."""
import collections
import os
import re
import sys

import corpus
import engine_run as er
import vlib

sys.path.insert(0, os.path.join(vlib.VERIF, "tools"))
import doc_equiv  # noqa: E402

MAXLEN = {"quick": 4, "thorough": 5}


def _keep_vmain_alive():
    """workaround for a shared-cache race (same as lib/props_c06.py): vlib.prune_cache removes the oldest cache directories
    at the end of any check; the shared vmain-<hash>/vmain.o is never touched after creation and can vanish under a
    concurrent run"""
    import glob
    for d in glob.glob(os.path.join(vlib.BUILD, "corpus", "vmain-*")):
        try:
            os.utime(d)
        except OSError:
            pass


_keep_vmain_alive()
BASE_CORPUS = False
WANT_TAGS = ["__c09_none__"]
KNOWN_SIGS = {}
PER_TU = {"quick": 14, "thorough": 20}        # engine_run.plan's chunk size (groups must not straddle a chunk)

# --------------------------------------------------------------------------- prose table
# name -> [(label, quoted prose, fn(args) -> expansion text or None when the entry does not apply)]


def _nest_opt(args):
    """partial< R1, R2, R3 >: R1 then (if it matched) R2 then (if it matched) R3, never failing"""
    if len(args) == 1:
        return "opt< %s >" % args[0]
    return "opt< %s, %s >" % (args[0], _nest_opt(args[1:]))


def _if_then_chain(args):
    """args = [C1, T1, C2, T2, ..., E?]"""
    if len(args) == 0:
        return "failure"
    if len(args) == 1:
        return args[0]
    return "if_then_else< %s, %s, %s >" % (args[0], args[1], _if_then_chain(args[2:]))


PROSE = {
    "star_strict": [("prose:star_strict",
                     "Rule-Reference star_strict< R... >: 'Matches seq< R... > as often as possible ... until the first R fails; "
                     "succeeds when the first rule of R... fails, fails (locally) when a later rule fails' (like star<> with strict<> iterations)",
                     lambda a: "seq< star< %s >, not_at< %s > >" % (", ".join(a), a[0]) if a else None)],
    "partial": [("prose:partial",
                 "Rule-Reference partial< R... >: 'Similar to opt< R... > with one important difference: Does not rewind the input "
                 "after a partial match of R...' (matches the longest prefix R1, R2, ... of the rule list, always succeeds)",
                 lambda a: _nest_opt(a) if len(a) >= 2 else None)],
    "star_partial": [("prose:star_partial",
                      "Rule-Reference star_partial< R... >: 'Similar to star< R... > with one important difference: The final iteration "
                      "does not rewind the input after a partial match of R...'",
                      lambda a: "seq< star< %s >, %s >" % (", ".join(a), _nest_opt(a[:-1])) if len(a) >= 2 else None)],
    "two": [("prose:two", "Rule-Reference two< C >: 'Succeeds when the input contains at least two bytes, and these two input bytes both match C. "
             "Consumes two bytes when it succeeds.'", lambda a: "string< %s, %s >" % (a[0], a[0]))],
    "three": [("prose:three", "Rule-Reference three< C >: 'Succeeds when the input contains at least three bytes, and these three input bytes all match C. "
               "Consumes three bytes when it succeeds.'", lambda a: "string< %s, %s, %s >" % (a[0], a[0], a[0]))],
    "separated_seq": [("contrib:separated_seq", "Contrib-and-Examples: 'Rule separated_seq< S, A, B, C, D > is equivalent to seq< A, S, B, S, C, S, D >.'",
                       lambda a: "seq< %s >" % (", %s, " % a[0]).join(a[1:]) if len(a) >= 2 else None)],
    "rep_string": [("contrib:rep_string", "Contrib-and-Examples: 'Contains optimised version of rep< N, string< Cs... > >: Rule ascii::rep_string< N, Cs... >.'",
                    lambda a: "rep< %s, string< %s > >" % (a[0], ", ".join(a[1:])))],
    "if_then": [("contrib:if_then", "contrib/if_then.hpp (no reference text): if_then< C, T... > matches C and then T..., fails when C fails "
                 "= if_then_else< C, seq< T... >, failure >", lambda a: "if_then_else< %s, seq< %s >, failure >" % (a[0], ", ".join(a[1:])) if len(a) >= 2 else None)],
    # if_then< C, T >::else_then< E >  and  if_then< C, T >::else_if_then< C2, T2 >::else_then< E >  (written as pseudo rules, see impl_text)
    "if_then::else_then": [("contrib:if_then::else_then", "contrib/if_then.hpp: if_then< C, T >::else_then< E > = if_then_else< C, T, E >",
                            lambda a: _if_then_chain(a))],
    "if_then::else_if_then::else_then": [("contrib:if_then::else_if_then::else_then",
                                          "contrib/if_then.hpp: if_then< C, T >::else_if_then< C2, T2 >::else_then< E > = if_then_else< C, T, if_then_else< C2, T2, E > >",
                                          lambda a: _if_then_chain(a))],
    # longer chains: conditions are tried in the order written (first matching condition commits)
    "if_then::chain": [("contrib:if_then::chain",
                        "contrib/if_then.hpp: if_then< C1, T1 >::else_if_then< C2, T2 >::else_if_then< C3, T3 >... [::else_then< E >] = "
                        "if_then_else< C1, T1, if_then_else< C2, T2, if_then_else< C3, T3, ... E-or-failure > > >",
                        lambda a: _if_then_chain(a if len(a) % 2 else a + ["failure"]))],
    "if_then::else_if_then": [("contrib:if_then::else_if_then",
                               "contrib/if_then.hpp: if_then< C, T >::else_if_then< C2, T2 > = if_then_else< C, T, if_then_else< C2, T2, failure > >",
                               lambda a: _if_then_chain(a + ["failure"]))],
}

PROSE_PARTS = {
    "rematch": "Rule-Reference rematch< R, S... >: 'Succeeds if R matches, and each S matches the input that R matched.'",
    "minus": "Rule-Reference minus< M, S >: 'Succeeds if M matches, and S does not match all of the input that M matched.'",
}

CONTRIB_HEADERS = {"separated_seq": "separated_seq", "rep_string": "rep_string", "if_then": "if_then"}
# list_tail< R, S, P > (Rule-Reference line 312) names padl< S, P >, which the library does not define (documentation
# discrepancy); the twin uses the obvious meaning "S padded on the left by P":
PRELUDE = ("#ifndef C09_PRELUDE\n#define C09_PRELUDE\nnamespace c09x {\n"
           "   template< typename S, typename P > using padl = tao::pegtl::seq< tao::pegtl::star< P >, S >;\n}\n#endif")


def impl_text(name, args):
    if name == "if_then::else_then":
        return "if_then< %s, %s >::else_then< %s >" % tuple(args)
    if name == "if_then::else_if_then::else_then":
        return "if_then< %s, %s >::else_if_then< %s, %s >::else_then< %s >" % tuple(args)
    if name == "if_then::else_if_then":
        return "if_then< %s, %s >::else_if_then< %s, %s >" % tuple(args)
    if name == "if_then::chain":
        t = "if_then< %s, %s >" % (args[0], args[1])
        rest = args[2:]
        while len(rest) >= 2:
            t += "::else_if_then< %s, %s >" % (rest[0], rest[1])
            rest = rest[2:]
        if rest:
            t += "::else_then< %s >" % rest[0]
        return t
    if not args:
        return name + "<>" if name in ("string",) else name
    return "%s< %s >" % (name, ", ".join(args))


def expansions_for(name, args):
    """[(label, expansion C++ text)] — documented clauses first, then the prose table"""
    out = []
    if "::" not in name:
        for c, x in doc_equiv.expansions(name, args):
            out.append(("L%d" % c.line, x))
    for label, _quote, fn in PROSE.get(name, ()):
        x = fn(list(args))
        if x is not None:
            out.append((label, x))
    res = []
    for l, x in out:
        x = re.sub(r"(?<![A-Za-z0-9_:])padl<", "c09x::padl<", x)
        x2 = fix_rep_opt0(x)
        if x2 != x:
            l += "+L%d" % REP_OPT_LINE
        res.append((l, x2))
    return res


def _rep_opt_line():
    for c in doc_equiv.load():
        if c.name == "rep_opt":
            return c.line
    return 0


REP_OPT_LINE = _rep_opt_line()


def fix_rep_opt0(text):
    """`rep_opt< 0, R >` with exactly one rule does not compile (ambiguous partial specialisations in internal/rep_opt.hpp);
    where a documented expansion mentions it (rep_min_max< N, N, R >), it is replaced by ITS documented expansion
    `rep< 0, opt< R > >` so that the twin can be built at all"""
    text = text.strip()
    if "<" not in text or text.endswith("<>"):
        return text
    name, args = doc_equiv.split_args(text)
    args = [fix_rep_opt0(a) for a in args]
    if name == "rep_opt" and len(args) == 2 and args[0] == "0":
        return doc_equiv.expansions("rep_opt", args)[0][1]
    return "%s< %s >" % (name, ", ".join(args))


# --------------------------------------------------------------------------- grammars
class CGram(corpus.Gram):
    """Gram whose C++ text starts with the contrib #includes / the padl prelude its rules need (the shared
    Gram.cpp() only offers `pre`, which comes after the rule definitions)"""

    def cpp(self):
        txt = self.root + " " + " ".join(e for _, e in self.rules)
        head = []
        for nm, hdr in CONTRIB_HEADERS.items():
            if re.search(r"(?<![A-Za-z0-9_])%s\s*<" % nm, txt):
                head.append("#include <tao/pegtl/contrib/%s.hpp>" % hdr)
        if "c09x::" in txt:
            head.append(PRELUDE)
        return "\n".join(head + [corpus.Gram.cpp(self)])


CHAR_ESC = {"n": 10, "r": 13, "t": 9, "0": 0, "\\": 92, "'": 39, "v": 11, "f": 12}


def char_val(a):
    a = a.strip()
    if a.startswith("'") and a.endswith("'"):
        b = a[1:-1]
        if b.startswith("\\"):
            return CHAR_ESC.get(b[1:])
        return ord(b) if len(b) == 1 else None
    try:
        return int(a, 0)
    except ValueError:
        return None


LEAF_SX = {"any": "(any)", "eof": "(eof)", "success": "(success)", "failure": "(failure)", "N0": "(ref N0)", "N1": "(ref N1)"}


def sx_of(text):
    """surface term (corpus.py's sexp language) of a C++ rule expression made of classical operators only, else None"""
    text = text.strip()
    if "<" not in text:
        return LEAF_SX.get(text)
    name, args = doc_equiv.split_args(text)
    if name in ("one", "string"):
        vs = [char_val(a) for a in args]
        if not vs or any(v is None for v in vs):
            return None
        return "(%s %s)" % (name, " ".join(str(v) for v in vs))
    subs = [sx_of(a) for a in args]
    if not subs or any(s is None for s in subs):
        return None
    if name in ("seq", "sor"):
        if len(subs) < 2:
            return None
        return "(%s %s)" % (name, " ".join(subs))
    if name in ("star", "plus", "opt", "at", "not_at"):
        inner = subs[0] if len(subs) == 1 else "(seq %s)" % " ".join(subs)
        return "(%s %s)" % (name, inner)
    return None


def mk(body, tags, classical_ok=True, alphabet=corpus.ALPHA, extra_inputs=(), maxlen=None):
    """grammar with root `body` (C++ text); N0 / N1 are defined when mentioned; surface term when classical"""
    used = [(n, e) for n, e in corpus.NAMED if re.search(r"(?<![A-Za-z0-9_])%s(?![A-Za-z0-9_])" % n, body)]
    rules = [(n, e.cpp) for n, e in used]
    surface = None
    sx = sx_of(body) if classical_ok else None
    if sx is not None:
        surface = {"G": sx}
        for n, e in used:
            surface[n] = e.sx
    g = CGram(0, rules, body, tags=tags, surface=surface, alphabet=alphabet, extra_inputs=extra_inputs)
    if maxlen is not None:
        g.maxlen = maxlen
    return g


CTX = {
    "top": "%s",
    "sor_first": "sor< %s, any >",
    "seq_mid": "seq< one< 'a' >, %s, one< 'c' > >",
    "star_body": "star< seq< %s, one< 'c' > > >",
}
CTX_ORDER = ["top", "sor_first", "seq_mid", "star_body"]


def check_contexts():
    """the four contexts above are corpus.contexts()'s first four, textually"""
    x = corpus.raw("@X@")
    for (nm, wrap), mine in zip(corpus.contexts()[:4], CTX_ORDER):
        assert nm == mine and wrap(x).cpp == CTX[mine] % "@X@", (nm, wrap(x).cpp)


check_contexts()

NULLABLE = ("nullable", "eof")          # basis elements that can succeed without consuming


def B():
    return {k: v.cpp for k, v in corpus.basis().items()}


SLOT_BASIS = ["atom", "cf", "nullable", "raising", "cfraise", "eof", "namedcf", "named"]
Q1 = ["atom", "cf", "nullable", "raising", "cfraise", "namedcf"]      # quick tier: 1-slot rules
Q2 = ["cf", "nullable", "raising", "cfraise", "namedcf"]             # thorough: pairwise products for 2-slot rules
Q2Q = ["cf", "nullable", "raising", "namedcf"]                        # quick tier: 2-slot rules
Q3 = ["cf", "nullable", "raising"]                                    # quick tier: rules with 3 and more slots
NEUTRAL = ["atom", "cf"]


def one_at_a_time(ns, basis, partners="rotate"):
    """every slot sees every basis element once, the other slots hold a neutral partner (atom / cf)"""
    if ns == 0:
        return [()]
    if ns == 1:
        return [(b,) for b in basis]
    seen = []
    for slot in range(ns):
        for bi, b in enumerate(basis):
            for nb in (NEUTRAL if partners == "both" else [NEUTRAL[(bi + slot) % 2]]):
                c = tuple(b if i == slot else nb for i in range(ns))
                if c not in seen:
                    seen.append(c)
    return seen


def slot_plan(ns, tier, own, qctx):
    """-> [(combo, number of calling contexts)]"""
    if tier == "quick":
        basis = Q1 if ns == 1 else Q2Q if ns == 2 else Q3
        return [(c, qctx if ns <= 2 else 1) for c in one_at_a_time(ns, basis)]
    if ns <= 1:
        return [(c, 4) for c in one_at_a_time(ns, SLOT_BASIS)]
    first = one_at_a_time(ns, SLOT_BASIS)
    if ns == 2:
        out = [(c, 4 if i % 2 == 0 else 2) for i, c in enumerate(first)]
        more = [(x, y) for x in Q2 for y in Q2]
        for c in more:
            if c not in first and (c, 1) not in out:
                out.append((c, 1))
        return out
    return [(c, 2 if own and i % 2 == 0 else 1) for i, c in enumerate(first)]


class Fam:
    """one rule family: name, number of rule slots, numeric prefixes (thorough / quick), loop constraint (argument
    combinations whose loop body could succeed without consuming are left out: such a loop never terminates in the
    real library), number of contexts per combination in the quick tier, own = has its own match()"""

    def __init__(self, name, ns, nums=((),), bad=None, qctx=1, tag=None, qnums=None, own=False, tctx=None):
        self.name, self.ns, self.nums, self.bad, self.qctx, self.qnums, self.own, self.tctx = name, ns, list(nums), bad, qctx, qnums, own, tctx
        self.tag = tag or (name + (str(ns) if ns else ""))


def allnull(*slots):
    return lambda c: all(c[i] in NULLABLE for i in slots)


def anynull(*slots):
    return lambda c: any(c[i] in NULLABLE for i in slots)


def either(*fs):
    return lambda c: any(f(c) for f in fs)


MINMAX = [(str(a), str(b)) for a in range(5) for b in range(a, 5)]


def families():
    n04 = [(str(i),) for i in range(5)]
    n3 = [("0",), ("2",), ("3",)]
    return [
        Fam("if_must", 2, qctx=2, own=True), Fam("if_must", 3, own=True),
        Fam("if_must_else", 3),
        Fam("if_then_else", 3, own=True),
        Fam("list", 2, bad=allnull(0, 1)), Fam("list", 3, bad=either(anynull(2), allnull(0, 1))),
        Fam("list_must", 2, bad=allnull(0, 1)), Fam("list_must", 3, bad=either(anynull(2), allnull(0, 1))),
        Fam("list_tail", 2, bad=allnull(0, 1)), Fam("list_tail", 3, bad=either(anynull(2), allnull(0, 1))),
        Fam("must", 1, qctx=2, own=True), Fam("must", 2, own=True),
        Fam("opt_must", 2, qctx=2, own=True), Fam("opt_must", 3, own=True),
        Fam("pad", 2, bad=anynull(1)), Fam("pad", 3, bad=anynull(1, 2)), Fam("pad_opt", 2, bad=anynull(1)),
        Fam("partial", 1, own=True), Fam("partial", 2, qctx=2, own=True), Fam("partial", 3, own=True),
        Fam("rep", 1, nums=n04, own=True, tctx=2), Fam("rep", 2, nums=n04, qnums=n3, own=True, tctx=1),
        Fam("rep_max", 1, nums=n04, qnums=[("0",), ("1",), ("3",)], tctx=2), Fam("rep_max", 2, nums=n04, qnums=[("2",)], tctx=1),
        Fam("rep_min", 1, nums=n04, bad=allnull(0), qnums=[("0",), ("1",), ("3",)], tctx=2), Fam("rep_min", 2, nums=n04, bad=allnull(0, 1), qnums=[("2",)], tctx=1),
        Fam("rep_min_max", 1, nums=MINMAX, own=True, tctx=2,
            qnums=[("0", "0"), ("0", "2"), ("1", "1"), ("1", "3"), ("2", "2"), ("2", "4"), ("0", "4"), ("3", "4")]),
        Fam("rep_min_max", 2, nums=MINMAX, qnums=[("1", "2"), ("0", "3")], own=True, tctx=1),
        # rep_opt< 0, R > with exactly one rule R is ill-formed in the library (ambiguous partial specialisations, see probe_rep_opt0)
        Fam("rep_opt", 1, nums=n04[1:], own=True, tctx=2), Fam("rep_opt", 2, nums=n04, qnums=n3, own=True, tctx=1),
        Fam("star_must", 2, bad=allnull(0, 1)), Fam("star_must", 3, bad=allnull(0, 1, 2)),
        Fam("strict", 1, own=True), Fam("strict", 2, qctx=2, own=True), Fam("strict", 3, own=True),
        Fam("star_strict", 1, bad=allnull(0), own=True), Fam("star_strict", 2, bad=allnull(0, 1), qctx=2, own=True), Fam("star_strict", 3, bad=allnull(0, 1, 2), own=True),
        Fam("star_partial", 2, bad=allnull(0, 1), qctx=2, own=True), Fam("star_partial", 3, bad=allnull(0, 1, 2), own=True),
        Fam("until", 1, qctx=2, own=True), Fam("until", 2, bad=allnull(1), qctx=2, own=True), Fam("until", 3, bad=allnull(1, 2), own=True),
        Fam("plus", 1, bad=allnull(0), own=True), Fam("plus", 2, bad=allnull(0, 1), own=True),
        Fam("opt", 1, own=True), Fam("opt", 2, own=True),
        Fam("minus", 2),
        Fam("separated_seq", 2, tag="separated_seq1"), Fam("separated_seq", 3, tag="separated_seq2"), Fam("separated_seq", 4, tag="separated_seq3"),
        Fam("if_then", 2), Fam("if_then", 3),
        Fam("if_then::else_then", 3, tag="if_then_else_then"),
        Fam("if_then::else_if_then", 4, tag="if_then_else_if_then"),
        Fam("if_then::else_if_then::else_then", 5, tag="if_then_else_if_then_else_then"),
    ]


def rotate_ctx(k, n):
    return [CTX_ORDER[(k + i * 2 + (i // 2)) % 4] for i in range(min(n, 4))]


def pair_groups(tier):
    """-> list of groups; group = list of grammars [impl, twin0, ...] (roles in g.c09)"""
    b = B()
    groups = []
    k = 0
    for f in families():
        nums = f.nums if tier == "thorough" or f.qnums is None else f.qnums
        plan = [(c, n) for c, n in slot_plan(f.ns, tier, f.own, f.qctx) if not (f.bad and f.bad(c))]
        if tier == "quick" and len(nums) > 1 and f.ns == 1:
            # numeric families: the full basis would be bounds x 6; keep the behaviours that distinguish loops
            plan = [(c, n) for c, n in plan if c[0] in ("atom", "cf", "nullable", "cfraise")]
        if tier == "thorough" and len(nums) > 1 and f.ns == 2:
            plan = [(c, 1) for c in one_at_a_time(2, Q2) if not (f.bad and f.bad(c))]
        for ni, nu in enumerate(nums):
            for ci, (c, nctx) in enumerate(plan):
                if tier == "thorough" and f.tctx is not None:
                    nctx = min(nctx, f.tctx)
                if tier == "thorough" and not f.own:
                    nctx = min(nctx, 2)
                if tier == "quick" and ci % 2:
                    nctx = 1
                if len(nums) > 1 and f.ns >= 2 and (ci + ni) % 2:
                    continue
                if tier == "quick" and not f.own and f.ns >= 3 and ci % 2:
                    continue
                args = list(nu) + [b[x] for x in c]
                exps = expansions_for(f.name, args)
                if not exps:
                    raise RuntimeError("C09: no documented expansion applies to %s" % impl_text(f.name, args))
                for cx in rotate_ctx(k, nctx):
                    tags = ["c09", f.tag, f.name.split("::")[0], "ctx:" + cx, "basis:" + "+".join(list(nu) + list(c))]
                    groups.append(make_group(f.name, impl_text(f.name, args), exps, cx, tags))
                k += 1
    return groups


def make_group(name, impl, exps, cx, tags, alphabet=corpus.ALPHA, extra_inputs=(), maxlen=None):
    gi = mk(CTX[cx] % impl, tags, classical_ok=False, alphabet=alphabet, extra_inputs=extra_inputs, maxlen=maxlen)
    gi.c09 = {"role": "impl", "name": name, "impl": impl, "ctx": cx, "twins": [(l, x) for l, x in exps]}
    out = [gi]
    for i, (label, x) in enumerate(exps):
        gt = mk(CTX[cx] % x, tags + ["twin"], alphabet=alphabet, extra_inputs=extra_inputs, maxlen=maxlen)
        gt.c09 = {"role": "twin%d" % i, "label": label, "text": x}
        out.append(gt)
    return out


# --------------------------------------------------------------------------- character-level and fixed rules
LN = "a\n\r"
ALL_BYTES = [chr(i) for i in range(256)]


def char_groups(tier):
    groups = []
    ml = 4 if tier == "quick" else 5

    def add(name, args, alphabet, maxlen=None, extra=(), ctxs=("top",), tag=None):
        exps = expansions_for(name, args)
        if not exps:
            raise RuntimeError("C09: no documented expansion applies to %s" % impl_text(name, args))
        for cx in ctxs:
            tags = ["c09", tag or name, "ctx:" + cx, "basis:" + "+".join(a.replace(" ", "") for a in args)]
            groups.append(make_group(name, impl_text(name, args), exps, cx, tags, alphabet=alphabet, extra_inputs=extra, maxlen=maxlen))

    three_ctx = ("top", "sor_first", "star_body") if tier == "quick" else tuple(CTX_ORDER)
    # single-byte classes: every byte value, alone and followed by another byte
    for nm in ("alnum", "alpha", "xdigit", "blank", "digit", "lower", "upper", "odigit", "print", "seven", "space", "nul", "any", "identifier_first", "identifier_other"):
        add(nm, [], "", maxlen=0, extra=[""] + ALL_BYTES + [c + "a" for c in "a0_ \n"], tag=nm)
    add("eol", [], LN, maxlen=ml)
    add("eolf", [], LN, maxlen=ml, ctxs=three_ctx)
    add("everything", [], LN, maxlen=ml, ctxs=three_ctx)
    add("shebang", [], "#!a\n", maxlen=ml, extra=["#!a\r\nb", "#!\r\n#!", "#!aa\r"], ctxs=three_ctx)
    add("until", ["eolf"], LN, maxlen=ml, ctxs=three_ctx, tag="until_eolf")
    add("until", ["eolf", "one< 'a' >"], LN, maxlen=ml, ctxs=three_ctx, tag="until_eolf")
    add("identifier", [], "a_1 ", maxlen=ml, ctxs=three_ctx)
    add("identifier", [], "zA9-", maxlen=3, tag="identifier")
    for cs in (["'a'"], ["'a'", "'b'"], ["'a'", "'_'", "'1'"]):
        add("keyword", cs, "ab_1 ", maxlen=4 if tier == "quick" else 5, ctxs=("top", "sor_first"))
    for cs in ([], ["'a'"], ["'a'", "'b'"], ["'a'", "'b'", "'a'"], ["'a'", "'a'", "'b'", "'c'"], ["'\\n'", "'a'"]):
        add("string", cs, "abc" if "'\\n'" not in cs else LN, maxlen=ml, ctxs=three_ctx if len(cs) in (2, 3) else ("top",))
    # if_then chains with three and four OVERLAPPING conditions (the order of the else_if_then conditions matters)
    A_, B_, C_ = "one< 'a' >", "one< 'b' >", "one< 'c' >"
    for args in ([C_, A_, A_, B_, "any", C_], [C_, A_, A_, B_, "any", C_, B_], [C_, A_, "range< 'a', 'b' >", B_, A_, "seq< %s, %s >" % (C_, C_), "any", A_],
                 ["seq< %s, %s >" % (A_, B_), C_, A_, A_, "not_one< 'c' >", B_, "must< %s >" % C_], [A_, "must< %s >" % B_, "plus< %s >" % A_, C_, "any", "must< %s >" % A_]):
        add("if_then::chain", args, "abc", maxlen=ml, ctxs=three_ctx, tag="if_then_chain")
    for c in ("'a'", "'\\n'"):
        add("two", [c], "ab" if c == "'a'" else LN, maxlen=ml, ctxs=three_ctx if c == "'a'" else ("top",))
        add("three", [c], "ab" if c == "'a'" else LN, maxlen=ml, ctxs=three_ctx if c == "'a'" else ("top",))
    add("ellipsis", [], ".a", maxlen=ml, ctxs=("top", "sor_first"))
    add("forty_two", ["'a'"], "ab", maxlen=1, extra=["a" * n + t for n in (40, 41, 42, 43) for t in ("", "b")] + ["a" * 20 + "b" + "a" * 21])
    add("forty_two", ["'a'", "'b'"], "abc", maxlen=1, extra=["ab" * 21, "ab" * 21 + "a", "ab" * 20 + "a", "ab" * 20 + "ca", "ba" * 21 + "c", "a" * 41 + "c"])
    for cs in (["'a'"], ["'a'", "'b'"], ["'a'", "'b'", "'d'"], ["'a'", "'b'", "'d'", "'e'"], ["'b'", "'c'", "'e'", "'e'", "'a'"], ["'b'", "'b'"], ["'b'", "'d'", "'c'"]):
        add("ranges", cs, "abcdef", maxlen=2, extra=ALL_BYTES[:8] + ALL_BYTES[0x5e:0x68] + ALL_BYTES[250:])
    add("ranges", ["'\\n'", "'\\r'", "'a'"], LN + "\x0b", maxlen=3)
    for n in range(5):
        for cs in (["'a'"], ["'a'", "'b'"]):
            unit = "".join(c[1] for c in cs)
            extra = sorted({unit * k + t for k in range(6) for t in ("", "a", "b", "c", unit[:-1] + "c")})
            add("rep_string", [str(n)] + cs, "ab", maxlen=3, extra=extra, ctxs=("top", "star_body") if (n in (2, 3) or tier == "thorough") else ("top",))
    add("rep_string", ["2"], "ab", maxlen=2, tag="rep_string")
    return groups


# --------------------------------------------------------------------------- rematch / minus by parts
def parts_groups(tier):
    b = B()
    groups = []
    heads = ["atom", "cf", "nullable", "named", "plus", "str", "raising", "cfraise", "eof"]
    seconds = ["atom", "cf", "nullable", "named", "plus", "str", "raising", "cfraise", "eof", "succ", "fail", "look", "nlook"]
    bb = {k: v.cpp for k, v in corpus.basis().items()}
    extra_heads = {"anystar": "star< any >", "ab_opt_c": "seq< one< 'a' >, opt< one< 'b' > >, opt< one< 'c' > > >", "any2": "seq< any, any >"}
    extra_seconds = {"a_eof": "seq< one< 'a' >, eof >", "plus_eof": "seq< plus< one< 'a' > >, eof >", "any": "any", "until_b": "until< one< 'b' > >",
                     "must_eof": "seq< star< one< 'a' > >, must< eof > >"}
    H = dict((k, bb[k]) for k in heads)
    H.update(extra_heads)
    S = dict((k, bb[k]) for k in seconds)
    S.update(extra_seconds)
    if tier == "quick":
        pairs = [(h, s) for i, h in enumerate(H) for j, s in enumerate(S) if (i * 5 + j) % 17 == 0 or h in ("anystar", "ab_opt_c") and s in ("a_eof", "plus_eof", "str", "must_eof")]
    else:
        pairs = [(h, s) for h in H for s in S]
    for ni, name in enumerate(("rematch", "minus")):
        for pi, (h, s) in enumerate(pairs):
            if tier == "thorough" and (pi + ni) % 3 and not (h in extra_heads and s in extra_seconds):
                continue
            tags = ["c09", name + "_parts", name, "ctx:top", "basis:%s+%s" % (h, s)]
            impl = "%s< %s, %s >" % (name, H[h], S[s])
            gi = mk(impl, tags, classical_ok=False)
            gi.c09 = {"role": "impl", "name": name, "impl": impl, "ctx": "top", "twins": [], "parts": name, "nparts": 2}
            gr = [gi]
            for i, x in enumerate((H[h], S[s])):
                gp = mk(x, tags + ["part"])
                gp.c09 = {"role": "part%d" % i, "text": x}
                gr.append(gp)
            groups.append(gr)
    # line endings inside the re-matched rules: the inner input must keep the eol policy of the outer one (choose_cfgs runs
    # these groups under the cr and crlf policies as well)
    EH = {"until_eol": "until< eol >", "line": "seq< star< not_at< eol >, any >, opt< eol > >", "anystar": "star< any >"}
    ES = {"a_eol": "seq< one< 'a' >, eol >", "to_eol_eof": "seq< star< not_at< eol >, any >, eol, eof >", "eolf": "seq< star< one< 'a' > >, eolf >", "any_eol": "seq< any, eol >"}
    for ni, name in enumerate(("rematch", "minus")):
        for h in EH:
            for sname in ES:
                if tier == "quick" and (len(h) + len(sname) + ni) % 2:
                    continue
                tags = ["c09", name + "_parts", name, "ctx:top", "eolparts", "basis:%s+%s" % (h, sname)]
                impl = "%s< %s, %s >" % (name, EH[h], ES[sname])
                gi = mk(impl, tags, classical_ok=False)
                gi.c09 = {"role": "impl", "name": name, "impl": impl, "ctx": "top", "twins": [], "parts": name, "nparts": 2}
                gr = [gi]
                for i, x in enumerate((EH[h], ES[sname])):
                    gp = mk(x, tags + ["part"], classical_ok=False)
                    gp.c09 = {"role": "part%d" % i, "text": x}
                    gr.append(gp)
                for g in gr:
                    g.alphabet = "a\r\n"
                groups.append(gr)
    # rematch with two S
    trip = [("anystar", "a_eof", "str"), ("ab_opt_c", "plus", "cf"), ("plus", "atom", "raising"), ("anystar", "until_b", "must_eof"), ("cf", "named", "any"),
            ("named", "cfraise", "atom"), ("any2", "nlook", "look"), ("anystar", "cf", "plus_eof")]
    if tier == "thorough":
        trip += [(h, s1, s2) for h in ("anystar", "ab_opt_c", "named") for s1 in ("atom", "cf", "plus_eof", "raising") for s2 in ("str", "a_eof", "cfraise", "fail")]
    for h, s1, s2 in trip:
        tags = ["c09", "rematch_parts", "rematch", "ctx:top", "basis:%s+%s+%s" % (h, s1, s2)]
        impl = "rematch< %s, %s, %s >" % (H[h], S[s1], S[s2])
        gi = mk(impl, tags, classical_ok=False)
        gi.c09 = {"role": "impl", "name": "rematch", "impl": impl, "ctx": "top", "twins": [], "parts": "rematch", "nparts": 3}
        gr = [gi]
        for i, x in enumerate((H[h], S[s1], S[s2])):
            gp = mk(x, tags + ["part"])
            gp.c09 = {"role": "part%d" % i, "text": x}
            gr.append(gp)
        groups.append(gr)
    return groups


# --------------------------------------------------------------------------- corpus assembly
C09_SHARED = ("until", "rep", "if_", "list", "pad", "partial", "star_partial", "strict", "star_strict", "rematch", "minus", "must", "opt_must", "star_must", "plus", "opt")
SKIP_TAGS = ("classical", "loop", "raise", "catch", "switch", "state", "inline", "random", "maybe_loop")


def shared_c09(tier):
    out = []
    for g in corpus.systematic(tier):
        names = [t for t in g.tags if not t.startswith(("ctx:", "basis:")) and t not in SKIP_TAGS]
        if any(n.startswith(C09_SHARED) and not n.startswith("if_apply") for n in names):
            g.tags.add("shared")
            out.append(g)
    return out


def filler():
    g = CGram(0, [], "success", tags=["filler", "ctx:filler"], alphabet="")
    g.maxlen = 0
    g.c09 = {"role": "filler"}
    return g


def pack(groups, per):
    """order the groups so that none straddles a multiple of `per` (= one translation unit): fill every unit with the
    next groups (in corpus order) that still fit; filler grammars only where nothing fits"""
    out = []
    pending = list(groups)
    while pending:
        room = per
        i = 0
        while i < len(pending) and room > 0:
            if len(pending[i]) <= room:
                gr = pending.pop(i)
                out += gr
                room -= len(gr)
            else:
                i += 1
                if i > 400:
                    break
        if pending and room > 0:
            out += [filler() for _ in range(room)]
    return out


def extra_grams(tier, seed, start_gid):
    per = PER_TU[tier]
    groups = pair_groups(tier) + char_groups(tier) + parts_groups(tier)
    only = [x for x in os.environ.get("C09_ONLY", "").split(",") if x]        # debugging aid: C09_ONLY=until,rep_min_max
    if only:
        groups = [gr for gr in groups if gr[0].c09["name"] in only]
    for pid, gr in enumerate(groups):
        assert len(gr) <= per
        lines = ["// C09GROUP %d" % pid, "// C09NAME %s" % gr[0].c09["name"]]
        for g in gr:
            g.c09["pair"] = pid
            g.tags.add("ctx:c09:%d:%s" % (pid, g.c09["role"]))
            lines.append("// C09MEMBER %s | %s | %s" % (g.c09["role"], g.c09.get("label", "-"), g.root))
        # partner texts travel in `pre` as C++ comments, so that a stored replay can rebuild the whole group
        gr[0].pre = "\n".join(lines)
    out = pack(groups, per)
    room = per - (len(out) % per)
    if room != per:
        out += [filler() for _ in range(room)]
    shared = [] if only else shared_c09(tier)
    step = 8 if tier == "quick" else 40
    out += [g for i, g in enumerate(shared) if i % step == 0]
    for i, g in enumerate(out):
        g.gid = start_gid + i
    return out


EOL_SENSITIVE = ("eolf", "shebang", "until_eolf", "everything")


def choose_cfgs(g, k, tier):
    """action-free / void-action configurations only: the twin has more visible nodes than the convenience rule, so a
    vetoing or throwing action family attached to every rule would legitimately change its outcome.  The rewind mode
    given to parse() only reaches the rule under test in the `top` context (the other contexts fix it), so those get
    both modes and the others alternate."""
    if "filler" in g.tags:
        return [("act0", "ctl0", 1, 1, "lf_crlf")]
    c = getattr(g, "c09", None)
    alt = (c["pair"] if c else k) % 2
    top = "ctx:top" in g.tags
    req, opt = ("act0", "ctl0", 1, 1, "lf_crlf"), ("act0", "ctl0", 1, 0, "lf_crlf")
    if c is None:
        cfgs = [opt if alt else req] if tier == "quick" else [req, ("act1", "ctl1", 1, 0, "lf_crlf")]
    elif tier == "quick":
        cfgs = [req, opt] if top else [opt if alt else req]
    else:
        cfgs = [req, opt, ("act1", "ctl1", 1, 0, "lf_crlf") if alt else ("act0", "ctl0", 0, 1, "lf_crlf")] if top else [("act1", "ctl1", 1, 1, "lf_crlf") if alt else req, opt]
    if g.tags & {"rematch", "minus"}:
        # rematch.hpp has a separate code path for lazily tracked inputs
        cfgs = cfgs + [("act0", "ctl0", 1, 1, "lf_crlf", "lazy")]
    if "eolparts" in g.tags:
        cfgs = [("act0", "ctl0", 1, 1, "lf_crlf"), ("act0", "ctl0", 1, 1, "cr"), ("act0", "ctl0", 1, 0, "crlf"), ("act0", "ctl0", 1, 1, "cr", "lazy")]
    if g.tags & set(EOL_SENSITIVE):
        cfgs = cfgs + [("act0", "ctl0", 1, 1, "crlf"), ("act0", "ctl0", 1, 0, "cr_crlf")]
        if tier == "thorough":
            cfgs += [("act0", "ctl0", 1, 1, "lf"), ("act0", "ctl0", 1, 1, "cr")]
    return cfgs


# --------------------------------------------------------------------------- projection (model vs implementation)
def projection(rec, K, model):
    res = er.canon_model_res(K, rec) if model else er.canon_impl_res(rec)
    return res + "|" + rec["cur"].split(",")[0]


# --------------------------------------------------------------------------- oracle
NS_RE = re.compile(r"(?<![A-Za-z0-9_])g\d+::")


def canon_exn(res):
    """'X...' -> tuple of components with readable, namespace-free messages"""
    out = []
    for p in er.canon_impl_res({"res": res})[1:].split(">"):
        if p.startswith("P:"):
            f = p.split(":", 2)
            try:
                msg = bytes.fromhex(f[1]).decode("latin1")
            except ValueError:
                msg = f[1]
            out.append("parse_error '%s' at %s" % (NS_RE.sub("", msg), f[2] if len(f) > 2 else "?"))
        else:
            out.append(p)
    return tuple(out)


def strip_pos(o):
    return (o[0], tuple(re.sub(r" at [0-9,?]+$", "", x) for x in o[1]))


def outcome(rec):
    """what the property talks about: ('T', consumed) | ('F',) | ('X', exception identity) | ('RUNAWAY',)"""
    r = rec["res"]
    if r == "RUNAWAY":
        return ("RUNAWAY",)
    if r.startswith("T"):
        return ("T", int(rec["cur"].split(",")[0]))
    if r.startswith("F"):
        return ("F",)
    return ("X", canon_exn(r))


def show(o):
    if o[0] == "T":
        return "success consuming %d" % o[1]
    if o[0] == "F":
        return "local failure"
    if o[0] == "X":
        return "global failure " + " > ".join(o[1])
    return "no termination"


def chunk_index(K):
    ix = getattr(K, "_c09", None)
    if ix is not None:
        return ix
    ix = {"rec": {}, "group": collections.defaultdict(dict), "pending": collections.defaultdict(list)}
    for r in K.impl:
        ix["rec"][(r["gid"], r["cfg"], r["input"])] = r
    for gid, g in K.grams.items():
        c = getattr(g, "c09", None)
        if c and "pair" in c:
            ix["group"][c["pair"]][c["role"]] = gid
    # engine_check does not hand non-terminating implementation records to the oracle: judge them here
    for r in K.impl:
        if r["res"] != "RUNAWAY":
            continue
        g = K.grams[r["gid"]]
        c = getattr(g, "c09", None)
        if not c or c.get("role") != "impl":
            continue
        for m in judge(K, ix, g, r, collections.Counter()):
            ix["pending"][r["gid"]].append(m)
    K._c09 = ix
    return ix


def hexs(s):
    return s.encode("latin1").hex() or "-"


def judge(K, ix, g, rec, counters):
    c = g.c09
    out = []
    mine = outcome(rec)
    grp = ix["group"].get(c["pair"], {})
    what = "%s in context %s" % (c["impl"], c["ctx"])
    if c.get("parts"):
        return judge_parts(K, ix, g, rec, counters, mine, grp)
    for i, (label, text) in enumerate(c["twins"]):
        tg = grp.get("twin%d" % i)
        if tg is None:
            out.append("corpus layout broken: twin%d (%s) of %s is not in the same translation unit" % (i, label, what))
            continue
        tr = ix["rec"].get((tg, rec["cfg"], rec["input"]))
        if tr is None:
            out.append("corpus layout broken: twin%d (%s) of %s has no record for this configuration and input" % (i, label, what))
            continue
        theirs = outcome(tr)
        counters["pairs_compared"] += 1
        if c["name"] == "must" and mine[0] == "X" and theirs[0] == "X" and mine != theirs and strip_pos(mine) == strip_pos(theirs):
            # clause L330  must< R... > == seq< sor< R, raise< R > >... >: the reference's equivalence promises which rule raise() is
            # called for; the POSITION differs when R consumes before failing (must<> matches R in optional mode and raises at
            # the unrewound cursor, sor<> rewinds its alternative before raise< R >): counted, not a violation
            counters["must_clause_L330_position_differs"] += 1
            if c["impl"] == "must< seq< one< 'a' >, one< 'b' > > >" and c["ctx"] == "top" and rec["cfg"].startswith("0.0.1.1") and rec["input"] == "61":
                counters["must_clause_L330_witness: must< seq< one< 'a' >, one< 'b' > > > on 'a' raises at byte 1, seq< sor< R, raise< R > > > at byte 0 (same message)"] += 1
            theirs = mine
        if mine[0] == "RUNAWAY" or theirs[0] == "RUNAWAY":
            counters["runaway_pairs"] += 1
        if mine == theirs:
            counters["pairs_agree_" + mine[0]] += 1
        else:
            if mine[0] != theirs[0]:
                d = "result differs"
            elif mine[0] == "T":
                d = "consumed prefix differs"
            elif strip_pos(mine) == strip_pos(theirs):
                d = "position of the raised global failure differs"
            else:
                d = "rule named by the raised global failure differs"
            out.append("%s vs documented expansion (%s): %s: rule gives %s, expansion gives %s  [rule %s | expansion %s]" % (
                c["name"], label, d, show(mine), show(theirs), c["impl"], text))
        # the extracted PEG formalism on the expansion (classical twins only)
        tgram = K.grams[tg]
        if tgram.surface is not None and mine[0] != "RUNAWAY":
            sp = K.spec.get((tg, rec["input"]))
            if sp is not None and sp != "?":
                counters["spec_compared"] += 1
                got = "T %d" % mine[1] if mine[0] == "T" else mine[0]
                if got != sp:
                    out.append("%s vs PEG formalism of the documented expansion (%s): formalism says %s, rule gives %s  [rule %s | expansion %s]" % (
                        c["name"], label, sp, show(mine), c["impl"], text))
                else:
                    counters["spec_agree"] += 1
    return out


def judge_parts(K, ix, g, rec, counters, mine, grp):
    c = g.c09
    name = c["parts"]
    inp = "" if rec["input"] == "-" else bytes.fromhex(rec["input"]).decode("latin1")

    def part(i, s):
        gid = grp.get("part%d" % i)
        if gid is None:
            return None
        r = ix["rec"].get((gid, rec["cfg"], hexs(s)))
        return outcome(r) if r is not None else None

    head = part(0, inp)
    if head is None:
        return ["corpus layout broken: part grammars of %s are not in the same translation unit" % c["impl"]]
    if head[0] in ("F", "X", "RUNAWAY"):
        exp = head
    else:
        n = head[1]
        exp = ("T", n)
        for i in range(1, c["nparts"]):
            s = part(i, inp[:n])
            if s is None:
                return ["corpus layout broken: part%d of %s has no record for the matched prefix" % (i, c["impl"])]
            if s[0] in ("X", "RUNAWAY"):
                exp = s
                break
            if name == "rematch" and s[0] == "F":
                exp = ("F",)
                break
            if name == "minus" and s[0] == "T" and s[1] == n:
                exp = ("F",)
                break
    counters["pairs_compared"] += 1
    counters["prose_parts_compared"] += 1
    if mine[0] == "RUNAWAY" or exp[0] == "RUNAWAY":
        counters["runaway_pairs"] += 1
    if mine == exp:
        counters["pairs_agree_" + mine[0]] += 1
        return []
    return ["%s vs its prose (%s): rule gives %s, the prose evaluated on the parts gives %s  [rule %s]" % (
        name, "matches iff the head matches and " + ("each S matches the input the head matched" if name == "rematch" else "S does not match all of what the head matched"),
        show(mine), show(exp), c["impl"])]


def oracle(K, rec, counters):
    g = K.grams[rec["gid"]]
    c = getattr(g, "c09", None)
    if c is None:
        counters["unpaired_records"] += 1
        return []
    if c["role"] != "impl":
        return []
    ix = chunk_index(K)
    out = ix["pending"].pop(rec["gid"], [])
    out += judge(K, ix, g, rec, counters)
    return out


# --------------------------------------------------------------------------- replay
def gram_from_replay(gd, gid):
    g = CGram(gid, [tuple(x) for x in gd["rules"]], gd["root"], tags=gd["tags"], surface=gd["surface"], pre=gd.get("pre", ""))
    return g


def replay(j):
    """rebuild the stored group (rule, documented expansions / parts) against the current tree, run the stored configuration
    and input through implementation and model, re-evaluate the oracle"""
    import engine_check
    rp = j.get("replay") or {}
    if rp.get("kind") == "rep_one_min_max":
        return replay_romm(rp)
    if "gram" not in rp:
        return engine_check.replay(j)
    gd = rp["gram"]
    pre = gd.get("pre", "") or ""
    members = [l[len("// C09MEMBER "):].split(" | ", 2) for l in pre.split("\n") if l.startswith("// C09MEMBER ")]
    if not members:
        return engine_check.replay(j)
    inp = bytes.fromhex(rp["input_hex"]).decode("latin1") if rp["input_hex"] != "-" else ""
    tags = [t for t in gd["tags"] if not t.startswith("ctx:c09:")]
    grams = []
    implc = None
    for i, (role, label, root) in enumerate(members):
        g = mk(root, list(tags), classical_ok=(role != "impl"))
        g.gid = 100000 + i
        g.alphabet = ""
        g.maxlen = 0
        g.extra_inputs = sorted({inp[:n] for n in range(len(inp) + 1)} - {""})
        g.c09 = {"role": role, "pair": 0, "label": label, "text": root}
        grams.append(g)
        if role == "impl":
            implc = g
    # the impl member's description (twins / parts) is recomputed from the member list
    texts = {r: (l, t) for r, l, t in members}
    nparts = len([r for r in texts if r.startswith("part")])
    ctxname = next((t[4:] for t in tags if t.startswith("ctx:")), "top")
    strip = lambda root: root           # noqa: E731
    name = next((l[len("// C09NAME "):].strip() for l in pre.split("\n") if l.startswith("// C09NAME ")), "?")
    implc.c09.update({"name": name, "impl": implc.root, "ctx": ctxname, "twins": [(texts[r][0], texts[r][1]) for r in sorted(texts) if r.startswith("twin")]})
    if nparts:
        implc.c09.update({"parts": "rematch" if implc.root.startswith("rematch") else "minus", "nparts": nparts})
    _ = strip
    cfg = er.cfg_of_name(rp["cfg"])
    common = er.prepare_common()
    K = er.run_chunk(common, grams, {g.gid: [cfg] for g in grams}, 0, label="replay")
    if K.error:
        print("REPLAY: could not run:", K.error)
        return 1
    bad = 0
    cnt = collections.Counter()
    for ri, rm in zip(K.impl, K.model):
        if ri["input"] != rp["input_hex"]:
            continue
        g = K.grams[ri["gid"]]
        print("%-6s %s" % (g.c09["role"], g.root))
        print("   impl :", ri["res"], ri["cur"])
        print("   model:", rm["res"], rm["cur"])
        if ri["res"] != "RUNAWAY" and projection(ri, K, False) != projection(rm, K, True):
            print("REPLAY: model and implementation differ on the C09 projection")
            bad += 1
        if g.c09["role"] == "impl":
            for msg in (oracle(K, ri, cnt) if ri["res"] != "RUNAWAY" else chunk_index(K)["pending"].get(ri["gid"], [])):
                print("REPLAY: VIOLATION reproduced:", msg)
                bad += 1
    if not bad:
        print("REPLAY: not reproduced on the current tree")
    return 1 if bad else 0


# --------------------------------------------------------------------------- rep_one_min_max (own program, no head in the engine model)
def run_romm(ctx):
    """contrib rep_one_min_max< Min, Max, C > against rep_min_max< Min, Max, one< C > > (Contrib-and-Examples: 'Contains optimised
    version of rep_min_max< Min, Max, ascii::one< C > >'), both through the real parse(): harness/c09_impl.cpp"""
    exe = vlib.build_cpp([os.path.join(vlib.VERIF, "harness", "c09_impl.cpp")], "c09_impl", flags=["-O1"])
    rc, out = vlib.sh([exe], timeout=600)
    if rc != 0:
        ctx.diff("harness/c09_impl.cpp did not run", {"rc": rc, "output": out[-1500:]})
        return
    n = agree = 0
    kinds = collections.Counter()
    samples = []
    seen = set()
    for l in out.split("\n"):
        # ROMM min max ctx mode hexinput | rule-result | expansion-result
        if not l.startswith("ROMM "):
            continue
        hd, a, b = [x.strip() for x in l.split("|")]
        _, mn, mx, cx, mode, hx = hd.split()
        n += 1
        kinds[a.split()[0]] += 1
        if a == b:
            agree += 1
            if len(samples) < 3 and a.startswith("T") and (n % 977) == 0:
                samples.append({"rule": "rep_one_min_max< %s, %s, 'a' >" % (mn, mx), "context": cx, "rewind": mode, "input_hex": hx, "both": a})
            continue
        sig = "rep_one_min_max vs rep_min_max< Min, Max, one< C > > in context %s: %s vs %s" % (cx, a.split()[0], b.split()[0])
        if sig in seen:
            continue
        seen.add(sig)
        ctx.violation(sig, "rep_one_min_max< %s, %s, 'a' > in context %s (rewind %s) on input %s gives %s, its documented expansion rep_min_max< %s, %s, one< 'a' > > gives %s"
                      % (mn, mx, cx, mode, hx, a, mn, mx, b),
                      {"kind": "rep_one_min_max", "min": int(mn), "max": int(mx), "context": cx, "mode": mode, "input_hex": hx, "rule": a, "expansion": b})
    if n == 0:
        ctx.diff("harness/c09_impl.cpp printed no cases", {"output": out[-500:]})
    ctx.cover(evaluations=n, distinct=kinds["T"], validated=n,
              rule="rep_one_min_max< Min, Max, 'a' > vs rep_min_max< Min, Max, one< 'a' > > for 0 <= Min <= Max <= 4, contexts top / sor_first / seq_mid / star_body, "
                   "rewind required and optional, every input over {a,b} up to length 6 plus {a,b,c} up to length 4 (exhaustive); distinct = successful matches",
              samples=samples, rep_one_min_max_cases=n, rep_one_min_max_agree=agree, rep_one_min_max_results=dict(kinds))


def probe_rep_opt0(ctx):
    """rep_opt< 0, R > with exactly one rule: the reference lists `rep_opt< 0, R... >::rule_t is internal::success`, the
    library has two equally specialised partial specialisations (rep_opt< 0, Rules... > and rep_opt< Max, Rule >).
    Recorded as a note (not a behavioural difference: the instantiation is rejected at compile time)."""
    d = os.path.join(vlib.BUILD, "cpp", "c09_probe")
    os.makedirs(d, exist_ok=True)
    src = os.path.join(d, "rep_opt0.%d.cpp" % os.getpid())
    with open(src, "w") as fh:
        fh.write("#include <tao/pegtl.hpp>\nusing namespace tao::pegtl;\nstruct G : rep_opt< 0, one< 'a' > > {};\n"
                 "int main() { memory_input<> in( \"a\", \"s\" ); return parse< G >( in ) ? 0 : 1; }\n")
    try:
        rc, out = vlib.sh([vlib.CXX, "-std=c++17", "-fsyntax-only", "-I" + os.path.join(vlib.REPO, "include"), src], timeout=300)
    finally:
        try:
            os.remove(src)
        except OSError:
            pass
    if rc != 0 and "ambiguous partial specializations" in out:
        ctx.note("rep_opt< 0, R > (one rule) is ill-formed: ambiguous partial specialisations rep_opt< 0, Rules... > / rep_opt< Max, Rule > in internal/rep_opt.hpp; "
                 "the corpus leaves this instantiation out and expands it by its own clause where rep_min_max< N, N, R >'s documented expansion mentions it")
    elif rc != 0:
        ctx.note("rep_opt< 0, R > probe does not compile: " + out[-300:])
    else:
        ctx.note("rep_opt< 0, R > compiles on this tree (the corpus still leaves it out; lib/props_c09.py families() can take N = 0 back in)")


def generate_alias_tables(ctx):
    import c09_alias
    return c09_alias.generate_alias_tables(ctx)


def replay_romm(rp):
    exe = vlib.build_cpp([os.path.join(vlib.VERIF, "harness", "c09_impl.cpp")], "c09_impl", flags=["-O1"])
    rc, out = vlib.sh([exe], timeout=600)
    want = "ROMM %d %d %s %s %s " % (rp["min"], rp["max"], rp["context"], rp["mode"], rp["input_hex"])
    for l in out.split("\n"):
        if l.startswith(want):
            hd, a, b = [x.strip() for x in l.split("|")]
            print("rule     :", a)
            print("expansion:", b)
            if a != b:
                print("REPLAY: VIOLATION reproduced: rep_one_min_max differs from rep_min_max< Min, Max, one< C > >")
                return 1
            print("REPLAY: not reproduced on the current tree")
            return 0
    print("REPLAY: case not found in the program's output")
    return 1
