"""props_c18 — C18: depth and byte limits are enforced exactly and leave no residue.

Every grammar of this property is run twice on every input: under action family act9, which attaches
`limit_depth< N >` / `limit_bytes< N >` / `check_bytes< N >` to some named rules (the grammar's `pre` text),
and under its TWIN family act10, which attaches the same ordinary actions but none of the guards.  The
oracle judges the IMPLEMENTATION's guarded record against the specification of the guards, using the
implementation's own unguarded twin record as the reference for "what the rule does without the guard":

 (1) residue (every record): the depth counter is 0 and the input end is where it was after the run, whatever the
     outcome (`DEPTH=` / `ENDMOVED` markers of the harness), and the bounds hook never fired (`OOB=`).
 (2) limit_depth: walking the twin's invocation trace (B/E events) with the RAII counter machine
        B of a guarded rule: counter+1 ; E of a guarded rule: counter-1
     the guarded run must be event-for-event identical to the twin as long as the counter stays within the
     limits; at the first entry that would exceed the limit of the entered rule the guarded run must instead
     show  B(rule) R(-1) E(rule, exception)  at that position and (grammars without try_catch) nothing but
     unwinding afterwards, ending in parse_error "maximum parser rule nesting depth exceeded" at that position.
     Independently the same counter machine is run over the guarded trace itself (all grammars, also after a
     caught raise): an entry exceeding the limit is followed by the raise, an entry within the limit is not.
 (3) limit_bytes N on a rule entered at byte b:  no event inside the frame carries a byte > b+N (every frame);
     the first frame equals the twin's frame on the input TRUNCATED to b+N bytes, except that success ending
     exactly at b+N while the real input is longer is replaced by  R(-1) E(rule, exception)  there
     ("maximum allowed rule consumption reached": `in.empty() && saved_end != in.current()`);
     the frame is identical for every other tail behind the window (inputs sharing the first b+N bytes);
     grammars of shape  seq< prefix, opt/try_catch< L >, star< any >, eof >  must consume the whole input whenever
     they return (the end was restored for the rules after the guarded one).
 (4) check_bytes N: the first frame equals the twin's frame on the same input unless the twin's frame succeeds
     having consumed more than N bytes: then the guarded frame ends in an exception at the exit position
     (parse_error "maximum allowed rule consumption exceeded"); a frame never succeeds with more than N bytes."""
import re

import corpus
import engine_run as er

BASE_CORPUS = False
WANT_TAGS = ["c18:none"]          # drops the shared atom grammars as well: only the families below are run
MAXLEN = {"quick": 4, "thorough": 5}
KNOWN_SIGS = {}

MSG_LD = "maximum parser rule nesting depth exceeded"
MSG_LB = "maximum allowed rule consumption reached"
MSG_CB = "maximum allowed rule consumption exceeded"

GUARD, TWIN = "9", "10"


# --------------------------------------------------------------------------- grammar families
def att(fam, rule, marker):
    return "template<> struct act%d< %s > : %s { using vbase = %s; };" % (fam, rule, marker, marker)


def mkpre(guards, plain=()):
    """guards: [(rule type text, marker)] attached in act9 only; plain: [(rule, behaviour template)] attached in both families"""
    out = ["namespace vh {"]
    for r, m in guards:
        out.append(att(9, r, m))
    for r, b in plain:
        out.append(att(9, r, b % (9, r)))
        out.append(att(10, r, b % (10, r)))
    out.append("}")
    return "\n".join(out)


def nest_inputs(maxd, op="(", cl=")"):
    """well nested and damaged bracket strings with nesting 0..maxd"""
    out = set()
    for k in range(0, maxd + 1):
        w = op * k + cl * k
        out.add(w)
        out.add(w + w)
        out.add(op + w + w + cl)
        if k:
            out.add(op * k + cl * (k - 1))
            out.add(op * k)
            out.add(op * k + cl * k + cl)
            out.add(op * k + "x" + cl * k)
            out.add(op * (k - 1) + w + cl * (k - 1) + op + cl)
    return sorted(out)


def alt_inputs(maxd):
    """( [ ( [ ... ] ) ] ) alternating brackets, nesting 0..maxd, with damaged variants"""
    out = set()
    for k in range(0, maxd + 1):
        ops = "".join("([" [i % 2] for i in range(k))
        cls = "".join(")]"[i % 2] for i in reversed(range(k)))
        out.add(ops + cls)
        out.add(ops + cls + ops + cls)
        if k:
            out.add(ops + cls[1:])
            out.add(ops)
            out.add(ops + "x" + cls)
            out.add("(" + ops + cls + ")")
            out.add("((" + ops[1:] + cls[:-1] + "))")
    return sorted(out)


def depth_grams(tier):
    out = []
    limits = [0, 1, 2, 5]
    ml = 6 if tier == "quick" else 8

    def add(rules, root, guards, tags, alphabet, extra, maxlen, plain=()):
        g = corpus.Gram(0, rules, root, tags=["c18:depth"] + tags, pre=mkpre(guards, plain), alphabet=alphabet, extra_inputs=extra)
        g.maxlen = maxlen
        out.append(g)

    for n in limits:
        deep = nest_inputs(n + 3)
        L = "m_limit_depth< %d >" % n
        # D1 plain recursion; D2 siblings (counter must come down after success); D4 backtracking (after local failure)
        add([("N0", "seq< one< '(' >, opt< N0 >, one< ')' > >")], "seq< N0, eof >", [("@NS@::N0", L)], ["d1", "c18:notry"], "()", deep, ml if n < 5 else 4)
        add([("N0", "seq< one< '(' >, star< N0 >, one< ')' > >")], "seq< star< N0 >, eof >", [("@NS@::N0", L)], ["d2", "c18:notry"], "()", deep, ml if n < 5 else 4)
        add([("N0", "sor< seq< one< '(' >, N0, one< ')' > >, one< 'x' > >")], "sor< seq< N0, one< '!' > >, seq< N0, eof >, seq< one< '(' >, N0 > >",
            [("@NS@::N0", L)], ["d4", "c18:notry"], "(x)", [w + t for w in deep for t in ("", "!")], 4 if tier == "quick" else 5)
        # D5 exceptions: raise inside the guarded rule caught outside, then the rule runs again; the limit_depth raise itself caught
        add([("N0", "seq< one< '(' >, opt< N0 >, must< one< ')' > > >")],
            "sor< try_catch_return_false< seq< N0, must< one< '!' > > > >, seq< N0, eof >, star< any > >", [("@NS@::N0", L)], ["d5"], "()", [w + t for w in deep for t in ("", "!")],
            4 if tier == "quick" else 6)
        add([("N0", "seq< one< '(' >, opt< N0 >, one< ')' > >")],
            "seq< star< sor< try_catch_return_false< N0 >, one< '(' > > >, star< any > >", [("@NS@::N0", L)], ["d5b"], "()", deep, 4 if tier == "quick" else 6)
    for n, m in ([(1, 1), (2, 0), (0, 2), (2, 5)] if tier == "thorough" else [(1, 1), (2, 0)]):
        # D3 two mutually recursive rules with their own limits (and one with the guard on one of them only)
        rules = [("N0", "seq< one< '(' >, opt< N1 >, one< ')' > >"), ("N1", "seq< one< '[' >, opt< N0 >, one< ']' > >")]
        add(rules, "seq< sor< N0, N1 >, eof >", [("@NS@::N0", "m_limit_depth< %d >" % n), ("@NS@::N1", "m_limit_depth< %d >" % m)], ["d3", "c18:notry"], "", alt_inputs(max(n, m) * 2 + 3) + ["[" + w + "]" for w in alt_inputs(max(n, m) * 2 + 2)], 0)
    add([("N0", "seq< one< '(' >, opt< N1 >, one< ')' > >"), ("N1", "seq< one< '[' >, opt< N0 >, one< ']' > >")], "seq< sor< N0, N1 >, eof >",
        [("@NS@::N1", "m_limit_depth< 1 >")], ["d3", "c18:notry"], "", alt_inputs(6), 0)
    for n in ([1, 2] if tier == "quick" else [0, 1, 2]):
        # D6 actions thrown inside the guarded recursion (family mix): counter after unwinding through the guards
        L = "m_limit_depth< %d >" % n
        rules = [("N0", "seq< one< '(' >, opt< N0 >, T >"), ("T", "one< ')' >")]
        add(rules, "sor< try_catch_std_return_false< seq< N0, eof > >, seq< star< one< '(' > >, N0 >, star< any > >", [("@NS@::N0", L)], ["d6"], "()", nest_inputs(n + 3), 4 if tier == "quick" else 6,
            plain=[("@NS@::T", "b_apply_throw_std< %d, %s >")])
        add(rules, "seq< N0, opt< N0 >, eof >", [("@NS@::N0", L)], ["d6", "c18:notry"], "()", nest_inputs(n + 3), 4 if tier == "quick" else 6,
            plain=[("@NS@::T", "b_apply_bool< %d, %s >")])
    # D7 guard attached to a rule whose Control< Rule >::enable is false (internal seq of opt< A, B >): must be transparent
    add([("N0", "seq< one< '(' >, opt< N0, success >, one< ')' > >")], "seq< N0, eof >",
        [("tao::pegtl::internal::seq< @NS@::N0, tao::pegtl::success >", "m_limit_depth< 1 >")], ["d7", "c18:notry"], "()", nest_inputs(4), 4)
    # D8 guard + apply-mode / action switches around it
    add([("N0", "seq< one< '(' >, opt< N0 >, one< ')' > >")], "seq< disable< N0 >, opt< N0 >, eof >", [("@NS@::N0", "m_limit_depth< 2 >")], ["d8", "c18:notry"], "()", nest_inputs(5), 4)
    return out


def bytes_inputs(total, body="ab", prefix="c"):
    out = []
    for o in range(0, total + 1):
        cur = [""]
        ws = [""]
        for _ in range(total - o):
            cur = [p + c for p in cur for c in body]
            ws += cur
        out += [prefix * o + w for w in ws]
    return out


BYTE_KINDS = [
    # (tag, [(name, body)...] with L first, plain attachments)
    ("greedy_any", [("L", "star< any >")], ()),
    ("greedy_plus", [("L", "plus< one< 'a' > >")], ()),
    ("look", [("L", "seq< at< string< 'a', 'a', 'b' > >, one< 'a' > >")], ()),
    ("notlook", [("L", "seq< not_at< string< 'a', 'b' > >, any, opt< any > >")], ()),
    ("straddle", [("L", "sor< string< 'a', 'b', 'a' >, string< 'b', 'b' >, one< 'a' > >")], ()),
    ("failing", [("L", "seq< plus< one< 'a' > >, one< 'b' >, one< 'b' > >")], ()),
    ("raising", [("L", "seq< one< 'a' >, must< one< 'b' > >, opt< one< 'a' > > >")], ()),
    ("eof_inside", [("L", "seq< star< one< 'a' > >, eof >")], ()),
    ("until", [("L", "until< one< 'b' > >")], ()),
    ("throwing", [("L", "plus< T >"), ("T", "one< 'a' >")], (("@NS@::T", "b_apply_throw_std< %d, %s >"),)),
    ("acting", [("L", "seq< T, opt< one< 'b' > > >"), ("T", "plus< one< 'a' > >")], (("@NS@::T", "b_apply_bool< %d, %s >"),)),
    ("rematch", [("L", "rematch< plus< any >, seq< one< 'a' >, star< any > > >")], ()),
]


def bytes_grams(tier, marker, kindtag):
    out = []
    quick = tier == "quick"
    check = marker == "m_check_bytes"
    ins = {t: bytes_inputs(t) for t in (5, 6, 7, 8)}
    limits = [0, 1, 2, 3] if quick else ([0, 1, 2, 4] if check else [0, 1, 2, 3, 4, 5])
    k = 0
    for tag, rules, plain in BYTE_KINDS:
        for n in limits:
            k += 1
            if quick and (k % 2 == 1) and tag not in ("greedy_any", "look"):
                continue
            guards = [("@NS@::L", "%s< %d >" % (marker, n))]
            # every offset of inputs up to 8 bytes for the core kinds, up to 6/7 for the rest (thorough); up to 5 (quick)
            big = 5 if quick else (8 if (tag in ("greedy_any", "look", "straddle") and not check) else 7 if tag in ("greedy_plus", "failing", "raising", "greedy_any", "look") else 6)
            small = 5 if quick else 6
            shapes = [("tail", "seq< star< one< 'c' > >, opt< L >, star< any >, eof >", ["c18:tail", "c18:notry"], big),
                      ("tc", "seq< star< one< 'c' > >, sor< try_catch_return_false< L >, success >, star< any >, eof >", ["c18:tail"], small)]
            if not quick:
                shapes.append(("loop", "seq< star< one< 'c' > >, star< L, opt< one< 'b' > > >, star< any >, eof >", ["c18:tail", "c18:notry"], small))
            for sname, root, stags, total in shapes:
                if tag in ("eof_inside",) and sname == "loop":
                    continue          # nullable loop body
                if sname == "loop" and (tag in ("greedy_any", "notlook", "until") or n == 0):
                    continue          # bodies that can succeed without consuming inside the window: endless loop by design
                if sname != "tail" and ((n + k) % 2 == 0 and (quick or check) or (quick and check and (n + k) % 4 != 1)):
                    continue
                g = corpus.Gram(0, rules, root, tags=[kindtag, tag, sname] + stags, pre=mkpre(guards, plain), alphabet="", extra_inputs=ins[total])
                g.maxlen = 0
                out.append(g)
    return out


def mixed_grams(tier):
    out = []
    total = 5 if tier == "quick" else 7
    ins = bytes_inputs(total)

    def add(rules, root, guards, tags, extra, plain=()):
        g = corpus.Gram(0, rules, root, tags=["c18:mixed"] + tags, pre=mkpre(guards, plain), alphabet="", extra_inputs=extra)
        g.maxlen = 0
        out.append(g)

    for a, b in [(2, 4), (4, 2), (1, 1), (3, 0)]:
        # nested byte limits (inner larger than outer and the other way round)
        add([("L", "seq< one< 'a' >, M >"), ("M", "star< any >")], "seq< star< one< 'c' > >, sor< try_catch_return_false< L >, success >, star< any >, eof >",
            [("@NS@::L", "m_limit_bytes< %d >" % a), ("@NS@::M", "m_limit_bytes< %d >" % b)], ["nested", "c18:tail"], ins)
        add([("L", "seq< opt< one< 'a' > >, M, opt< one< 'b' > > >"), ("M", "plus< one< 'a' > >")], "seq< star< one< 'c' > >, opt< L >, star< any >, eof >",
            [("@NS@::L", "m_limit_bytes< %d >" % a), ("@NS@::M", "m_check_bytes< %d >" % b)], ["nested_check", "c18:tail", "c18:notry"], ins)
    # depth and byte limits on the same recursion
    for n, m in [(1, 3), (2, 2), (0, 4)]:
        add([("N0", "seq< one< '(' >, opt< N0 >, one< ')' > >"), ("L", "seq< N0, opt< N0 > >")], "seq< sor< try_catch_return_false< L >, success >, star< any >, eof >",
            [("@NS@::N0", "m_limit_depth< %d >" % n), ("@NS@::L", "m_limit_bytes< %d >" % m)], ["depth_bytes", "c18:tail"], nest_inputs(n + 3))
    return out


def extra_grams(tier, seed, start_gid):
    return depth_grams(tier) + bytes_grams(tier, "m_limit_bytes", "c18:bytes") + bytes_grams(tier, "m_check_bytes", "c18:check") + mixed_grams(tier)


def choose_cfgs(g, k, tier):
    base = [("ctl2", 1, 1), ("ctl3", 1, 0)]
    if tier == "thorough" and ("c18:depth" in g.tags or "c18:mixed" in g.tags or k % 4 == 0):
        base.append(("ctl2", 0, 0))
    elif k % 3 == 0:
        base.append(("ctl3", 0, 1))
    out = [(f, c, a, m, "lf_crlf") for (c, a, m) in base for f in ("act9", "act10")]
    if ("c18:bytes" in g.tags or "c18:mixed" in g.tags) and k % 2 == 0:
        # "wherever in the input that is": the same guarded run on an input constructed with initial counters 7:3:5 (the
        # byte counter is then not the offset from begin()); judged by the correspondence, the residue checks and the
        # absolute bound check only (the twin comparisons do their arithmetic on offsets)
        out.append(("act9", "ctl2", 1, 1, "lf_crlf", "init"))
        out.append(("act9", "ctl3", 1, 0, "lf_crlf", "lazy+init"))
    return out


# --------------------------------------------------------------------------- oracle
ATT_RE = re.compile(r"struct act9< (.*?) > : m_(limit_depth|limit_bytes|check_bytes)< (\d+) >")


def squash(s):
    return s.replace(" ", "")


def guards_of(K, g):
    """{kind: {node: N}} for the ENABLED nodes carrying a guard in family 9 (from the grammar's pre text + dumped names)"""
    cache = K.__dict__.setdefault("_c18_guards", {})
    if g.gid in cache:
        return cache[g.gid]
    byname = {squash(nm): node for node, (nm, _) in K.names.items()}
    out = {"limit_depth": {}, "limit_bytes": {}, "check_bytes": {}, "disabled": {}}
    for m in ATT_RE.finditer(g.pre.replace("@NS@", "g%d" % g.gid)):
        node = byname.get(squash(m.group(1)))
        if node is None:
            continue
        if m.group(2) == "limit_depth" and not K.table[node]["enabled"]:
            out["disabled"][node] = int(m.group(3))
        else:
            out[m.group(2)][node] = int(m.group(3))
    cache[g.gid] = out
    return out


def index_of(K):
    idx = K.__dict__.get("_c18_idx")
    if idx is None:
        idx = {(r["gid"], r["cfg"], r["input"]): r for r in K.impl}
        K._c18_idx = idx
    return idx


def nevents(rec):
    """events with the action family normalised (A/Z carry the family id first)"""
    c = rec.get("_c18_ev")
    if c is None:
        c = []
        for k, n in er.events_of(rec):
            if k in "AZ":
                n = [9] + n[1:]
            c.append((k, tuple(n)))
        rec["_c18_ev"] = c
    return c


def twin_cfg(cfg):
    p = cfg.split(".")
    p[0] = TWIN
    return ".".join(p)


def frame_end(evs, i):
    """index of the E matching the B at index i (or None)"""
    depth = 0
    for j in range(i, len(evs)):
        k = evs[j][0]
        if k == "B":
            depth += 1
        elif k == "E":
            depth -= 1
            if depth == 0:
                return j
    return None


def ev_bytes(e):
    k, n = e
    if k in "SOFURG":
        return [n[2]]
    if k == "B":
        return [n[4]]
    if k == "E":
        return [n[3]]
    if k == "A":
        return [n[2], n[5]]
    if k == "I":
        return [n[1], n[4]]
    if k in "NY":
        return [n[2]]
    return []


def hexmsg(s):
    return s.encode("latin1").hex()


def show(e):
    return e[0] + ",".join(str(x) for x in e[1])


def depth_machine(evs, lim):
    """RAII counter over a guarded trace: -> message or None"""
    count = 0
    stack = []
    i = 0
    n = len(evs)
    while i < n:
        k, a = evs[i]
        if k == "B":
            r = a[1]
            if r in lim:
                pos = a[4:7]
                raised = i + 2 < n and evs[i + 1][0] == "R" and evs[i + 1][1][1] == -1 and evs[i + 1][1][2:5] == pos and evs[i + 2] == ("E", (a[0], r, 2) + pos)
                if count + 1 > lim[r]:
                    if not raised:
                        return "rule %d guarded by limit_depth %d is entered at guarded nesting %d without the depth parse_error being raised at its entry" % (r, lim[r], count + 1)
                    i += 3
                    continue
                if raised:
                    return "limit_depth %d on rule %d raised at guarded nesting %d (within the limit)" % (lim[r], r, count + 1)
                count += 1
                stack.append(True)
            else:
                stack.append(False)
        elif k == "E":
            if stack and stack.pop():
                count -= 1
        i += 1
    if count != 0:
        return "guarded nesting counter is %d after the run" % count
    return None


def depth_vs_twin(rec, twin, lim, notry):
    Eg = nevents(rec)
    Et = nevents(twin)
    count = 0
    stack = []
    for i, et in enumerate(Et):
        k, a = et
        if k == "B" and a[1] in lim and count + 1 > lim[a[1]]:
            r = a[1]
            pos = a[4:7]
            want = [et, ("R", (a[0], -1) + pos), ("E", (a[0], r, 2) + pos)]
            if Eg[i:i + 3] != want:
                return "the unguarded run enters rule %d at guarded nesting %d > limit %d at byte %d: the guarded run must raise exactly there, but shows %s" % (
                    r, count + 1, lim[r], pos[0], ";".join(show(e) for e in Eg[i:i + 3]))
            if notry:
                for e in Eg[i + 3:]:
                    if not (e[0] in "UD" or (e[0] == "E" and e[1][2] == 2)):
                        return "after the depth parse_error the guarded run continues with %s" % show(e)
                exp = "XP:%s:%d,%d,%d" % ((hexmsg(MSG_LD),) + pos)
                if rec["res"] != exp:
                    return "nesting exceeds the limit at byte %d but the run ended with %s instead of the depth parse_error there" % (pos[0], rec["res"][:80])
            return None
        if i >= len(Eg) or Eg[i] != et:
            return "guarded nesting is within the limit, yet the guarded run departs from the unguarded one at event %d: %s instead of %s" % (
                i, show(Eg[i]) if i < len(Eg) else "end", show(et))
        if k == "B":
            g = a[1] in lim
            stack.append(g)
            count += g
        elif k == "E":
            if stack and stack.pop():
                count -= 1
    if len(Eg) != len(Et):
        return "guarded run has %d events more than the unguarded one although the nesting stays within the limit" % (len(Eg) - len(Et))
    if rec["res"] != twin["res"] or rec["cur"] != twin["cur"]:
        return "nesting within the limit but result/cursor %s %s differ from the unguarded %s %s" % (rec["res"][:60], rec["cur"], twin["res"][:60], twin["cur"])
    return None


def inbytes(rec):
    return b"" if rec["input"] == "-" else bytes.fromhex(rec["input"])


def hexof(b):
    return b.hex() or "-"


def first_frame(evs, nodes):
    for i, (k, a) in enumerate(evs):
        if k == "B" and a[1] in nodes:
            return i
    return None


def bytes_bound(evs, lim):
    """every frame of a limit_bytes rule: no byte position beyond entry+N"""
    for i, (k, a) in enumerate(evs):
        if k == "B" and a[1] in lim:
            j = frame_end(evs, i)
            hi = a[4] + lim[a[1]]
            for e in evs[i:(j + 1 if j is not None else len(evs))]:
                for b in ev_bytes(e):
                    if b > hi:
                        return "rule %d guarded by limit_bytes %d entered at byte %d: event %s lies beyond byte %d" % (a[1], lim[a[1]], a[4], show(e), hi)
    return None


def bytes_vs_twin(K, rec, lim, counters):
    idx = index_of(K)
    Eg = nevents(rec)
    i = first_frame(Eg, lim)
    if i is None:
        return None
    s = inbytes(rec)
    ctl, r = Eg[i][1][0], Eg[i][1][1]
    b = Eg[i][1][4]
    n = lim[r]
    j = frame_end(Eg, i)
    if j is None:
        return "frame of rule %d never exited" % r
    Fg = Eg[i:j + 1]
    tw = idx.get((rec["gid"], twin_cfg(rec["cfg"]), hexof(s[:b + n])))
    if tw is None:
        counters["bytes_first_frames_without_twin"] += 1
    else:
        Et = nevents(tw)
        if Et[:i + 1] != Eg[:i + 1]:
            counters["bytes_first_frames_incomparable"] += 1
        else:
            jt = frame_end(Et, i)
            Ft = Et[i:jt + 1]
            ex = Ft[-1][1]
            pos = ex[3:6]
            reached = ex[2] == 1 and pos[0] == b + n and len(s) > b + n
            want = Ft[:-1] + [("R", (ctl, -1) + pos), ("E", (ctl, r, 2) + pos)] if reached else Ft
            counters["bytes_first_frames_vs_truncated_twin"] += 1
            if reached:
                counters["bytes_reached_raises"] += 1
            if Fg != want:
                d = next((x for x in range(min(len(Fg), len(want))) if Fg[x] != want[x]), min(len(Fg), len(want)))
                return "rule %d limit_bytes %d entered at byte %d of %d: the frame differs from the unguarded rule on the input truncated to %d bytes%s at frame event %d: %s instead of %s" % (
                    r, n, b, len(s), b + n, " (+ raise: ended exactly at the limit with more input behind)" if reached else "", d,
                    show(Fg[d]) if d < len(Fg) else "end", show(want[d]) if d < len(want) else "end")
    if len(s) > b + n:
        s2 = s[:b + n] + (b"a" if s[b + n:] != b"a" else b"b")
        r2 = idx.get((rec["gid"], rec["cfg"], hexof(s2)))
        if r2 is not None:
            E2 = nevents(r2)
            if E2[:i + 1] == Eg[:i + 1]:
                j2 = frame_end(E2, i)
                counters["bytes_tail_independence_pairs"] += 1
                if j2 is None or E2[i:j2 + 1] != Fg:
                    return "rule %d limit_bytes %d entered at byte %d: the frame depends on the bytes behind the window (inputs %s / %s)" % (r, n, b, rec["input"], hexof(s2))
    return None


def check_vs_twin(K, rec, lim, counters, notry):
    idx = index_of(K)
    Eg = nevents(rec)
    for i, (k, a) in enumerate(Eg):
        if k == "B" and a[1] in lim:
            j = frame_end(Eg, i)
            if j is not None and Eg[j][1][2] == 1 and Eg[j][1][3] - a[4] > lim[a[1]]:
                return "rule %d guarded by check_bytes %d succeeded having consumed %d bytes" % (a[1], lim[a[1]], Eg[j][1][3] - a[4])
    i = first_frame(Eg, lim)
    if i is None:
        return None
    tw = idx.get((rec["gid"], twin_cfg(rec["cfg"]), rec["input"]))
    if tw is None:
        counters["check_first_frames_without_twin"] += 1
        return None
    Et = nevents(tw)
    if Et[:i + 1] != Eg[:i + 1]:
        return "guarded run departs from the unguarded one before the first check_bytes frame"
    ctl, r, b = Eg[i][1][0], Eg[i][1][1], Eg[i][1][4]
    n = lim[r]
    j = frame_end(Eg, i)
    jt = frame_end(Et, i)
    if j is None or jt is None:
        return "frame of rule %d never exited" % r
    Fg, Ft = Eg[i:j + 1], Et[i:jt + 1]
    ex = Ft[-1][1]
    pos = ex[3:6]
    over = ex[2] == 1 and pos[0] - b > n
    want = Ft[:-1] + [("E", (ctl, r, 2) + pos)] if over else Ft
    counters["check_first_frames_vs_twin"] += 1
    if over:
        counters["check_exceeded_raises"] += 1
    if Fg != want:
        return "rule %d check_bytes %d entered at byte %d: the unguarded rule %s; guarded frame ends with %s instead of %s" % (
            r, n, b, "succeeds consuming %d bytes" % (pos[0] - b) if ex[2] == 1 else "does not succeed", show(Fg[-1]), show(want[-1]))
    if over and notry:
        exp = "XP:%s:%d,%d,%d" % ((hexmsg(MSG_CB),) + pos)
        if rec["res"] != exp:
            return "check_bytes exceeded at byte %d but the run ended with %s" % (pos[0], rec["res"][:80])
    if not over and notry and len(Eg) == len(Et) and Eg == Et and (rec["res"] != tw["res"] or rec["cur"] != tw["cur"]):
        return "check_bytes not exceeded, same trace, but result/cursor differ from the unguarded run"
    return None


def oracle(K, rec, counters):
    out = []
    cur = rec["cur"]
    counters["records_residue_checked"] += 1
    if "DEPTH=" in cur:
        out.append("the depth counter is not back to its initial value after the run (%s, result %s)" % (cur[cur.index("DEPTH="):].split(",")[0], rec["res"][:1]))
    if "ENDMOVED" in cur:
        out.append("the input's end was left moved after the run (result %s)" % rec["res"][:1])
    if "OOB=" in cur:
        out.append("access outside [current,end): " + cur[cur.index("OOB="):])
    fam = rec["cfg"].split(".")[0]
    if fam != GUARD:
        return out
    g = K.grams[rec["gid"]]
    G = guards_of(K, g)
    tags = g.tags
    notry = "c18:notry" in tags
    idx = index_of(K)
    if G["limit_depth"] or G["disabled"]:
        m = depth_machine(nevents(rec), G["limit_depth"])
        counters["depth_traces_counter_machine"] += 1
        if m:
            out.append(m)
    init = "@" in rec["cfg"]
    if "c18:depth" in tags and not init:
        tw = idx.get((rec["gid"], twin_cfg(rec["cfg"]), rec["input"]))
        if tw is None:
            counters["depth_runs_without_twin"] += 1
        else:
            counters["depth_runs_vs_twin"] += 1
            m = depth_vs_twin(rec, tw, G["limit_depth"], notry)
            if m:
                out.append(m)
            if rec["res"].startswith("XP:" + hexmsg(MSG_LD)):
                counters["depth_limit_raised"] += 1
    if G["limit_bytes"]:
        m = bytes_bound(nevents(rec), G["limit_bytes"])
        counters["bytes_traces_bound_checked"] += 1
        if m:
            out.append(m)
    if "c18:bytes" in tags and not init:
        m = bytes_vs_twin(K, rec, G["limit_bytes"], counters)
        if m:
            out.append(m)
    if "c18:check" in tags and not init:
        m = check_vs_twin(K, rec, G["check_bytes"], counters, notry)
        if m:
            out.append(m)
    if "c18:tail" in tags and rec["res"][:1] in "TF":
        counters["tail_consumption_checked"] += 1
        n = len(inbytes(rec)) + (7 if init else 0)
        if rec["res"] == "F" or cur.split(",")[0] != str(n):
            out.append("the rules after the guarded one did not see the whole input (end not restored?): result %s cursor %s of %d bytes" % (rec["res"], cur, n))
    return out
