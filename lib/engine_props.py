"""engine_props — per-property projections and oracles over the engine corpus records.

Every oracle looks at the IMPLEMENTATION's trace only (spec side); the model/implementation
comparison is a separate, per-property projection."""
import engine_run as er


def frames(events):
    """Reconstruct the call tree of control-enabled invocations from a hook log.
    Returns (list of frames, problems). frame = dict(rule, ctl, start, end_kind, end, children, inner_events)"""
    stack = []
    done = []
    problems = []
    for k, n in events:
        if k == "S":
            stack.append({"rule": n[1], "ctl": n[0], "start": tuple(n[2:5]), "end_kind": None, "end": None, "depth": len(stack), "applies": [], "raises": 0})
        elif k in ("O", "F", "U"):
            if not stack:
                problems.append("closing hook %s for rule %d without open start" % (k, n[1]))
                continue
            top = stack.pop()
            if top["rule"] != n[1]:
                problems.append("hook %s for rule %d closes start of rule %d" % (k, n[1], top["rule"]))
            top["end_kind"] = k
            top["end"] = tuple(n[2:5])
            done.append(top)
        elif k in ("A", "Z"):
            if stack:
                stack[-1]["applies"].append((k, n))
            else:
                problems.append("action event outside any rule")
        elif k == "R":
            if stack:
                stack[-1]["raises"] += 1
    return done, stack, problems


def projection(rec, pid, K=None, model=False):
    """canonical string compared between model and implementation for property pid"""
    res = er.canon_model_res(K, rec) if model else er.canon_impl_res(rec)
    cur = rec["cur"]
    evs = rec["events"]
    if pid in ("C01", "C09"):
        return res.split(":")[0] + "|" + cur.split(",")[0]
    if pid == "C02":
        return res[:1] + "|" + cur + "|" + ";".join(e for e in evs.split(";") if e[:1] in "SOFU")
    if pid == "C04":
        return res[:1] + "|" + ";".join(e for e in evs.split(";") if e[:1] in "AZIJ")
    if pid == "C05":
        return res + "|" + cur + "|" + ";".join(e for e in evs.split(";") if e[:1] in "RG")
    if pid == "C06":
        return res + "|" + cur + "|" + evs
    if pid == "C08":
        return res[:1] + "|" + ";".join(e for e in evs.split(";") if e[:1] in "SOFURGAZ")
    if pid == "C13":
        return res[:1] + "|" + ";".join(e for e in evs.split(";") if e[:1] in "NYDAZSOF")
    return res + "|" + cur + "|" + evs


# --------------------------------------------------------------------------- oracles

def invocations(events):
    """pair up the B/E invocation trace (families ctl2/ctl3). Returns list of dicts + problems."""
    stack = []
    out = []
    probs = []
    for k, n in events:
        if k == "B":
            stack.append({"rule": n[1], "A": n[2], "M": n[3], "before": tuple(n[4:7]), "depth": len(stack)})
        elif k == "E":
            if not stack:
                probs.append("exit without enter for rule %d" % n[1])
                continue
            t = stack.pop()
            if t["rule"] != n[1]:
                probs.append("exit of rule %d closes enter of rule %d" % (n[1], t["rule"]))
            t["res"] = n[2]
            t["after"] = tuple(n[3:6])
            out.append(t)
    if stack:
        probs.append("%d invocations never exited" % len(stack))
    return out, probs


def oracle_C02(C, rec, counters):
    """On the implementation's own invocation trace: required & false => cursor (byte, line, column)
    exactly where it was; true => never backwards; at / not_at never move the cursor whatever
    the result (exception included)."""
    out = []
    evs = er.events_of(rec)
    invs, probs = invocations(evs)
    out += probs
    table = C.table
    for t in invs:
        head = table.get(t["rule"], {"head": ["?"]})["head"][0]
        if t["M"] == 1 and t["res"] == 0:
            counters["required_failures_checked"] += 1
        if head in ("at", "not_at"):
            counters["lookahead_invocations_checked"] += 1
        if t["M"] == 1 and t["res"] == 0 and t["after"] != t["before"]:
            out.append("rule %d (%s) failed in required mode leaving the cursor at %s (started at %s)" % (t["rule"], head, t["after"], t["before"]))
        if t["res"] == 1 and t["after"][0] < t["before"][0]:
            out.append("rule %d (%s) succeeded moving backwards" % (t["rule"], head))
        if head in ("at", "not_at") and t["after"] != t["before"]:
            out.append("look-ahead rule %d (%s) moved the cursor %s -> %s (result %d)" % (t["rule"], head, t["before"], t["after"], t["res"]))
    cfg = rec["cfg"].split(".")
    if rec["res"] == "F" and cfg[3] == "1" and rec["cur"] != "0,1,1":
        out.append("root failed in required mode with cursor at %s" % rec["cur"])
    return out


def oracle_C03(C, rec, counters):
    """bounds hook of the guarded instrumentation (every peek_char(offset) / bump*(count) of every
    memory_input, including the ones PEGTL constructs internally) + input end untouched +
    final cursor within the data"""
    out = []
    cur = rec["cur"]
    counters["runs_with_bounds_hook"] += 1
    if "OOB=" in cur:
        out.append("access outside [current,end): " + cur[cur.index("OOB="):])
    if "ENDMOVED" in cur:
        out.append("the end of the input was left moved after the run")
    n = 0 if rec["input"] == "-" else len(rec["input"]) // 2
    try:
        b = int(cur.split(",")[0])
        if b < 0 or b > n:
            out.append("cursor outside the data after the run: byte %d of %d" % (b, n))
    except ValueError:
        pass
    return out


VOID_FAMS = ("0", "1", "2", "7")


def oracle_C01(K, rec, counters):
    """spec side: Spec.peg_fn (extracted; proved equal to the Peg relation) on the generator's SURFACE
    grammar, compared with the real parse() result and consumed byte count, for every configuration
    that attaches only void actions"""
    gid = rec["gid"]
    tie = K.tie.get(gid)
    if tie is None or tie == "notclassical":
        return []
    cfg = rec["cfg"].split(".")
    if not (cfg[0] in VOID_FAMS or cfg[2] == "0"):
        return []
    sp = K.spec.get((gid, rec["input"]))
    if sp is None or sp == "?":
        return []
    counters["spec_compared"] += 1
    got = rec["res"][:1]
    if got == "T":
        got = "T " + rec["cur"].split(",")[0]
    if got != sp:
        return ["formalism says %s but parse() gave %s (result %s, cursor %s)" % (sp, got, rec["res"][:40], rec["cur"])]
    return []


ORACLES = {"C01": oracle_C01, "C02": oracle_C02, "C03": oracle_C03}
