"""engine_props — per-property projections and oracles over the engine corpus records.

Every oracle looks at the IMPLEMENTATION's trace only (spec side); the model/implementation
comparison is a separate, per-property projection."""
import engine_run as er


def frames(events):
    """Reconstruct the call tree of control-enabled invocations from a hook log.
    Returns (list of frames, problems). frame = dict(rule, ctl, start, end_kind, end, children, inner_events)"""
    stack = []
    done = []
    problems = []
    for k, n in events:
        if k == "S":
            stack.append({"rule": n[1], "ctl": n[0], "start": tuple(n[2:5]), "end_kind": None, "end": None, "depth": len(stack), "applies": [], "raises": 0})
        elif k in ("O", "F", "U"):
            if not stack:
                problems.append("closing hook %s for rule %d without open start" % (k, n[1]))
                continue
            top = stack.pop()
            if top["rule"] != n[1]:
                problems.append("hook %s for rule %d closes start of rule %d" % (k, n[1], top["rule"]))
            top["end_kind"] = k
            top["end"] = tuple(n[2:5])
            done.append(top)
        elif k in ("A", "Z"):
            if stack:
                stack[-1]["applies"].append((k, n))
            else:
                problems.append("action event outside any rule")
        elif k == "R":
            if stack:
                stack[-1]["raises"] += 1
    return done, stack, problems


def projection(rec, pid, K=None, model=False):
    """canonical string compared between model and implementation for property pid"""
    res = er.canon_model_res(K, rec) if model else er.canon_impl_res(rec)
    cur = rec["cur"]
    evs = rec["events"]
    if pid in ("C01", "C09"):
        return res.split(":")[0] + "|" + cur.split(",")[0]
    if pid == "C02":
        return res[:1] + "|" + cur + "|" + ";".join(e for e in evs.split(";") if e[:1] in "SOFU")
    if pid == "C04":
        return res[:1] + "|" + ";".join(e for e in evs.split(";") if e[:1] in "AZIJ")
    if pid == "C05":
        return res + "|" + cur + "|" + ";".join(e for e in evs.split(";") if e[:1] in "RG")
    if pid == "C06":
        return res + "|" + cur + "|" + evs
    if pid == "C08":
        return res[:1] + "|" + ";".join(e for e in evs.split(";") if e[:1] in "SOFURGAZ")
    if pid == "C13":
        return res[:1] + "|" + ";".join(e for e in evs.split(";") if e[:1] in "NYDAZSOF")
    return res + "|" + cur + "|" + evs


# --------------------------------------------------------------------------- oracles

def invocations(events):
    """pair up the B/E invocation trace (families ctl2/ctl3). Returns list of dicts + problems."""
    stack = []
    out = []
    probs = []
    for k, n in events:
        if k == "B":
            stack.append({"rule": n[1], "A": n[2], "M": n[3], "before": tuple(n[4:7]), "depth": len(stack)})
        elif k == "E":
            if not stack:
                probs.append("exit without enter for rule %d" % n[1])
                continue
            t = stack.pop()
            if t["rule"] != n[1]:
                probs.append("exit of rule %d closes enter of rule %d" % (n[1], t["rule"]))
            t["res"] = n[2]
            t["after"] = tuple(n[3:6])
            out.append(t)
    if stack:
        probs.append("%d invocations never exited" % len(stack))
    return out, probs


def oracle_C02(C, rec, counters):
    """On the implementation's own invocation trace: required & false => cursor (byte, line, column)
    exactly where it was; true => never backwards; at / not_at never move the cursor whatever
    the result (exception included)."""
    out = []
    evs = er.events_of(rec)
    invs, probs = invocations(evs)
    out += probs
    table = C.table
    for t in invs:
        head = table.get(t["rule"], {"head": ["?"]})["head"][0]
        if t["M"] == 1 and t["res"] == 0:
            counters["required_failures_checked"] += 1
        if head in ("at", "not_at"):
            counters["lookahead_invocations_checked"] += 1
        if t["M"] == 1 and t["res"] == 0 and t["after"] != t["before"]:
            out.append("rule %d (%s) failed in required mode leaving the cursor at %s (started at %s)" % (t["rule"], head, t["after"], t["before"]))
        if t["res"] == 1 and t["after"][0] < t["before"][0]:
            out.append("rule %d (%s) succeeded moving backwards" % (t["rule"], head))
        if head in ("at", "not_at") and t["after"] != t["before"]:
            out.append("look-ahead rule %d (%s) moved the cursor %s -> %s (result %d)" % (t["rule"], head, t["before"], t["after"], t["res"]))
    cfg = rec["cfg"].split(".")
    if rec["res"] == "F" and cfg[3] == "1" and rec["cur"] != "0,1,1":
        out.append("root failed in required mode with cursor at %s" % rec["cur"])
    return out


def oracle_C03(C, rec, counters):
    """bounds hook of the guarded instrumentation (every peek_char(offset) / bump*(count) of every
    memory_input, including the ones PEGTL constructs internally) + input end untouched +
    final cursor within the data"""
    out = []
    cur = rec["cur"]
    counters["runs_with_bounds_hook"] += 1
    if "OOB=" in cur:
        out.append("access outside [current,end): " + cur[cur.index("OOB="):])
    if "ENDMOVED" in cur:
        out.append("the end of the input was left moved after the run")
    n = 0 if rec["input"] == "-" else len(rec["input"]) // 2
    try:
        b = int(cur.split(",")[0])
        if b < 0 or b > n:
            out.append("cursor outside the data after the run: byte %d of %d" % (b, n))
    except ValueError:
        pass
    return out


VOID_FAMS = ("0", "1", "2", "7")


def oracle_C01(K, rec, counters):
    """spec side: Spec.peg_fn (extracted; proved equal to the Peg relation) on the generator's SURFACE
    grammar, compared with the real parse() result and consumed byte count, for every configuration
    that attaches only void actions"""
    gid = rec["gid"]
    tie = K.tie.get(gid)
    if tie is None or tie == "notclassical":
        return []
    cfg = rec["cfg"].split(".")
    if not (cfg[0] in VOID_FAMS or cfg[2] == "0"):
        return []
    sp = K.spec.get((gid, rec["input"]))
    if sp is None or sp == "?":
        return []
    counters["spec_compared"] += 1
    got = rec["res"][:1]
    if got == "T":
        got = "T " + rec["cur"].split(",")[0]
    if got != sp:
        return ["formalism says %s but parse() gave %s (result %s, cursor %s)" % (sp, got, rec["res"][:40], rec["cur"])]
    return []


def hook_machine(K, events, strict, has_trace):
    """Python mirror of Hooks.run (coq/Hooks.v), applied to the IMPLEMENTATION's log.
    Returns (ok, why, own_action_throw); frames: ["I", r, started, closed] / ["H", k, r, action_fired].
    Without the invocation trace (control families 0/1) attempts abandoned by an exception are
    recognised when an outer attempt is closed: legal in the general protocol, a violation in the
    strict one (unless the abandoned attempt's own action had just fired: the recorded finding)."""
    table = K.table
    st = []

    def consistent(started, closed, o):
        if not started and closed is None:
            return True
        if started and closed == "O" and o == 1:
            return True
        if started and closed == "F" and o == 0:
            return True
        if started and closed == "U" and o == 2:
            return True
        if started and closed in ("F", None, "O") and o == 2:
            return not strict
        return False

    def abandoned(frames):
        """H frames (topmost first) left without closing hook: (ok, why, own). Legal in the general
        protocol; in the strict one only for control families without unwind() (odd ids)."""
        bad = [f for f in frames if f[0] == "H" and f[1] % 2 == 0]
        if not strict or not bad:
            return True, "", False
        own = all(f[3] for f in bad)
        return False, "attempt of rule %d left without success/failure/unwind" % bad[0][2], own

    def drop_implicit(match):
        """pop frames of trace-less control families (entered implicitly at their start hook) that an
        exception abandoned, down to the first frame for which match(frame) holds"""
        i = len(st) - 1
        while i >= 0 and not match(st[i]):
            f = st[i]
            if not ((f[0] == "H" and f[1] < 2) or (f[0] == "I" and len(f) > 4)):
                return True, "", False          # a traced frame is in the way: let the caller report it
            i -= 1
        if i < 0:
            return True, "", False
        if i != len(st) - 1:
            ok, why, own = abandoned([f for f in reversed(st[i + 1:]) if f[0] == "H"])
            if not ok:
                return False, why, own
            del st[i + 1:]
        return True, "", False

    for k, n in events:
        if k == "B":
            st.append(["I", n[1], False, None])
        elif k == "S":
            if not has_trace or n[0] < 2:
                st.append(["I", n[1], False, None, "implicit"])
            if not st or st[-1][0] != "I" or st[-1][1] != n[1] or st[-1][2] or st[-1][3] is not None:
                return False, "start for rule %d out of place (twice, or not the innermost attempt)" % n[1], False
            st[-1][2] = True
            st.append(["H", n[0], n[1], False])
        elif k in ("O", "F", "U"):
            if not has_trace or n[0] < 2:
                # attempts above the matching one were abandoned by an exception
                idx = None
                for i in range(len(st) - 1, -1, -1):
                    if st[i][0] == "H" and st[i][1] == n[0] and st[i][2] == n[1]:
                        idx = i
                        break
                if idx is None:
                    return False, "closing hook %s for rule %d without matching open start" % (k, n[1]), False
                if idx != len(st) - 1:
                    ok, why, own = abandoned([f for f in reversed(st[idx + 1:]) if f[0] == "H"])
                    if not ok:
                        return False, why, own
                    del st[idx + 1:]
            elif has_trace:
                ok, why, own = drop_implicit(lambda f: f[0] == "H" and f[1] == n[0] and f[2] == n[1])
                if not ok:
                    return False, why, own
            if len(st) < 2 or st[-1][0] != "H" or st[-1][1] != n[0] or st[-1][2] != n[1] or st[-2][1] != n[1] or st[-2][3] is not None:
                return False, "closing hook %s for rule %d without matching open start" % (k, n[1]), False
            st.pop()
            st[-1][3] = k
            if not has_trace or n[0] < 2:
                st.pop()
        elif k == "E":
            ok, why, own = drop_implicit(lambda f: len(f) == 4 and ((f[0] == "I" and f[1] == n[1]) or (f[0] == "H" and f[1] >= 2 and f[2] == n[1])))
            if not ok:
                return False, why, own
            if not st:
                return False, "invocation exit without enter", False
            if st[-1][0] == "I":
                f = st.pop()
                if f[1] != n[1] or not consistent(f[2], f[3], n[2]):
                    return False, "closing hook %s of rule %d contradicts the result %d of the attempt" % (f[3], n[1], n[2]), False
            else:
                if len(st) < 2 or st[-1][2] != n[1] or st[-2][1] != n[1]:
                    return False, "invocation exit for rule %d with another attempt open" % n[1], False
                if not consistent(True, None, n[2]):
                    own = (n[2] == 2 and st[-1][3])
                    return False, "attempt of rule %d left without success/failure/unwind (result %d)" % (n[1], n[2]), own
                st.pop()
                st.pop()
        elif k in ("A", "Z"):
            if not st or st[-1][0] != "H" or st[-1][2] != n[1]:
                return False, "action for rule %d outside the window between its body and its closing hook" % n[1], False
            st[-1][3] = True
        elif k == "R":
            if not has_trace or n[0] < 2:
                continue      # the origin of a raise can only be judged with the invocation trace (internal must<> nodes have no hooks)
            if not st:
                return False, "raise outside any attempt", False
            r = st[-1][1] if st[-1][0] == "I" else st[-1][2]
            nd = table.get(r)
            ok = False
            if n[1] < 0:
                ok = True
            elif nd and nd["head"][0] in ("must", "raise") and nd["subs"] and nd["subs"][-1] == n[1]:
                ok = True
            if not ok:
                return False, "raise for rule %d while rule %d (%s) is the innermost attempt" % (n[1], r, nd["head"][0] if nd else "?"), False
    if st:
        if has_trace:
            return False, "%d attempts still open at the end of the run" % len(st), False
        ok, why, own = abandoned([f for f in reversed(st) if f[0] == "H"])
        if not ok:
            return False, why, own
    return True, "", False


def oracle_C08(K, rec, counters):
    cfg = rec["cfg"].split(".")
    fam, ctl = int(cfg[0]), int(cfg[1])
    evs = er.events_of(rec)
    has_trace = ctl >= 2
    out = []
    # general protocol (all configurations)
    ok, why, _ = hook_machine(K, evs, False, has_trace)
    counters["logs_checked"] += 1
    if not ok:
        return ["protocol: " + why]
    if ctl % 2 == 0:
        # strict: control has unwind(); throwing families are the recorded finding's territory
        ok, why, own = hook_machine(K, evs, True, has_trace)
        counters["strict_logs_checked"] += 1
        if not ok:
            if own and fam in (5, 6):
                out.append("KNOWN:own-action-throws")
            else:
                out.append("strict protocol: " + why)
        else:
            # coverage counters
            cnt = {}
            for k, n in evs:
                if k in "SOFU" and n[0] % 2 == 0:
                    key = (n[0], n[1])
                    c = cnt.setdefault(key, [0, 0])
                    c[0 if k == "S" else 1] += 1
            for key, (a, b) in cnt.items():
                if a != b:
                    out.append("coverage counters: rule %d start=%d but success+failure+unwind=%d" % (key[1], a, b))
    return out


ORACLES = {"C01": oracle_C01, "C02": oracle_C02, "C03": oracle_C03, "C08": oracle_C08}
