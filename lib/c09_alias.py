"""c09_alias — C09 alias schemas through the compiler (DESIGN 4.1, third use of the translator).

For every convenience rule instantiated on opaque placeholder sub-rules (ph1..ph4) BOTH sides are
dumped by the C++ compiler against the current /repo/include into ONE table:
  impl side  i_<tag>   = the convenience rule itself                  (what the headers define now)
  doc side   d_<tag>_k = the k-th [Equivalent] clause of doc/Rule-Reference.md instantiated on the same
                         placeholders by tools/doc_equiv.py             (what the reference says)
-> coq/gen/AliasC09_gen.v (table + roots, regenerated on every run) and coq/gen/AliasC09Claims_gen.v
(the list of (impl, doc) root pairs that coq/EquivAlias.v must decide equivalent with the verified
checker EquivBisim.table_equiv by vm_compute).  A header edit that changes an alias changes the
table, the computation no longer yields true and Properties_C09 no longer builds."""
import os
import sys

import gentables
import vlib

sys.path.insert(0, os.path.join(vlib.VERIF, "tools"))
import doc_equiv  # noqa: E402


def schemas():
    s = [
        ("if_must2", "if_must< ph1, ph2 >"), ("if_must3", "if_must< ph1, ph2, ph3 >"),
        ("if_must_else", "if_must_else< ph1, ph2, ph3 >"), ("if_then_else", "if_then_else< ph1, ph2, ph3 >"),
        ("list2", "list< ph1, ph2 >"), ("list3", "list< ph1, ph2, ph3 >"),
        ("list_must2", "list_must< ph1, ph2 >"), ("list_must3", "list_must< ph1, ph2, ph3 >"),
        ("list_tail2", "list_tail< ph1, ph2 >"), ("list_tail3", "list_tail< ph1, ph2, ph3 >"),
        ("minus", "minus< ph1, ph2 >"), ("must1", "must< ph1 >"), ("must2", "must< ph1, ph2 >"),
        ("opt_must2", "opt_must< ph1, ph2 >"), ("opt_must3", "opt_must< ph1, ph2, ph3 >"),
        ("pad2", "pad< ph1, ph2 >"), ("pad3", "pad< ph1, ph2, ph3 >"), ("pad_opt", "pad_opt< ph1, ph2 >"),
        ("partial1", "partial< ph1 >"), ("opt1", "opt< ph1 >"), ("opt2", "opt< ph1, ph2 >"),
        ("plus1", "plus< ph1 >"), ("plus2", "plus< ph1, ph2 >"),
        ("star_must2", "star_must< ph1, ph2 >"), ("star_must3", "star_must< ph1, ph2, ph3 >"),
        ("strict1", "strict< ph1 >"), ("strict2", "strict< ph1, ph2 >"),
        ("until1", "until< ph1 >"), ("until2", "until< ph1, ph2 >"), ("until3", "until< ph1, ph2, ph3 >"),
        ("eolf", "eolf"), ("everything", "everything"), ("identifier", "identifier"),
        ("identifier_first", "identifier_first"), ("identifier_other", "identifier_other"),
        ("keyword", "keyword< 'a', 'b' >"), ("shebang", "shebang"), ("string2", "string< 'a', 'b' >"),
        ("forty_two", "forty_two< 'a' >"), ("ranges_even", "ranges< 'a', 'c', 'x', 'z' >"), ("ranges_odd", "ranges< 'a', 'c', '_' >"),
        ("ellipsis", "ellipsis"), ("alnum", "alnum"), ("alpha", "alpha"), ("xdigit", "xdigit"), ("digit", "digit"),
    ]
    for n in range(5):
        s.append(("rep%d" % n, "rep< %d, ph1 >" % n))
        s.append(("rep%db" % n, "rep< %d, ph1, ph2 >" % n))
        s.append(("rep_max%d" % n, "rep_max< %d, ph1 >" % n))
        s.append(("rep_min%d" % n, "rep_min< %d, ph1 >" % n))
        # rep_opt< 0, R > with ONE rule does not compile (ambiguous partial specialisations in internal/rep_opt.hpp,
        # although the reference documents rep_opt< 0, R... >::rule_t = success): reported as a finding; the schema
        # uses two rules for the bound 0
        s.append(("rep_opt%d" % n, ("rep_opt< %d, ph1 >" % n) if n else "rep_opt< 0, ph1, ph2 >"))
        for m in range(n, 5):
            s.append(("rep_min_max%d%d" % (n, m), "rep_min_max< %d, %d, ph1 >" % (n, m)))
    return s


# schemas whose (impl, doc clause) pair the verified checker decides today: structural bisimulation (the alias IS
# its documented expansion once hook visibility is ignored) or one of the proved head expansions at the root.
# Everything else is listed in the claims file as `c09_open` (not proved in Coq, covered by the twin oracle).
PROVED = set(
    [("if_must2", 0), ("if_must2", 1), ("if_must3", 0), ("if_must3", 1), ("if_must_else", 0), ("if_then_else", 0),
     ("list2", 0), ("list3", 0), ("list_tail2", 1), ("list_tail3", 1), ("minus", 0),
     ("opt_must2", 0), ("opt_must2", 1), ("opt_must3", 0), ("opt_must3", 1),
     ("pad2", 0), ("pad3", 0), ("pad_opt", 0), ("partial1", 0), ("star_must2", 0), ("star_must3", 0), ("until2", 0),
     ("identifier", 0), ("identifier_first", 0), ("identifier_other", 0), ("keyword", 0), ("forty_two", 0), ("ellipsis", 0),
     ("alnum", 0), ("alpha", 0), ("xdigit", 0), ("digit", 0), ("rep0", 0), ("rep0b", 0), ("rep_opt0", 0)]
    + [("rep_max%d" % n, 0) for n in range(5)] + [("rep_min%d" % n, 0) for n in range(5)])


def pairs():
    out = []
    for tag, impl in schemas():
        name, args = doc_equiv.split_args(impl)
        for k, (cl, doc) in enumerate(doc_equiv.expansions(name, args)):
            if "rep_opt< 0, ph1 >" in doc:
                continue          # the clause text itself is ill-formed C++ for one rule (see schemas())
            out.append((tag, k, impl, doc, cl))
    return out


def generate_alias_tables(ctx=None):
    ps = pairs()
    body = []
    seen = set()
    for tag, k, impl, doc, cl in ps:
        if tag not in seen:
            seen.add(tag)
            body.append('  root< %s >( "i_%s" );' % (impl, tag))
        body.append('  root< %s >( "d_%s_%d" );' % (doc, tag, k))
    path, nodes, names, roots = gentables.generate("aliasC09", "\n".join(body), ["c09_placeholders.hpp"])
    rid = dict(roots)
    lines = ["(* GENERATED by lib/c09_alias.py on every run — do not edit.  (impl root, doc-clause root) pairs of the C09 alias schemas;",
             "   the doc side is the clause text of doc/Rule-Reference.md instantiated by tools/doc_equiv.py. *)",
             "From PegtlV Require Import Base Decode Grammar.", "From PegtlV.gen Require Import AliasC09_gen.", "",
             "Definition c09_pairs : list (rid * rid) := ["]
    items = []
    for tag, k, impl, doc, cl in ps:
        items.append("  (aliasC09_i_%s, aliasC09_d_%s_%d)   (* %d: %s == %s   [Rule-Reference.md:%d] *)" % (
            tag, tag, k, len(items), impl, doc.replace("*)", "* )"), cl.line))
    lines.append(";\n".join(i.split("   (*")[0] + "   (*" + i.split("   (*")[1] for i in items) if False else "")
    # comments must follow the separator, so emit item by item
    lines.pop()
    for j, it in enumerate(items):
        code, com = it.split("   (*", 1)
        lines.append(code + (";" if j + 1 < len(items) else "") + "   (*" + com)
    lines.append("].")
    idx = [j for j, (tag, k, impl, doc, cl) in enumerate(ps) if (tag, k) in PROVED]
    lines.append("(* the pairs EquivAlias.v must decide equivalent with the verified checker (by position in c09_pairs) *)")
    lines.append("Definition c09_claimed_idx : list nat := [" + "; ".join("%d%%nat" % j for j in idx) + "].")
    lines.append("Definition c09_claimed : list (rid * rid) := map (fun i => nth i c09_pairs (0%nat, 0%nat)) c09_claimed_idx.")
    lines.append("")
    text = "\n".join(lines)
    cpath = os.path.join(vlib.COQ, "gen", "AliasC09Claims_gen.v")
    cur = open(cpath).read() if os.path.exists(cpath) else ""
    if cur != text:
        with open(cpath, "w") as fh:
            fh.write(text)
    return ps, rid


if __name__ == "__main__":
    ps, rid = generate_alias_tables()
    for j, (tag, k, impl, doc, cl) in enumerate(ps):
        print(j, tag, k, impl, "==", doc)
