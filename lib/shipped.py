"""shipped — the contrib rules and shipped grammars (json, uri, http incl. chunked bodies, integer,
raw_string, rep_one_min_max, predicates, abnf) run through the REAL library under the observer
controls of harness/vharness.hpp, for the implementation-side oracles of C02 (invocation trace:
required-mode failure restores the cursor, look-ahead never moves it) and C03 (guarded bounds hook on
every memory_input incl. internally constructed ones; exact-size heap buffers; ASan/UBSan in the
thorough tier).

There is NO engine-model comparison in this stage (most of these rule classes are modelled in their
own Coq files: Integer.v, RawString.v, Decode.v, or evaluated as generated tables: json, uri); the
records only feed the oracles.  Each grammar X is also run as  star< sor< X, any > >  so that X is
attempted at EVERY offset of the input, and as  sor< seq< X, one< 0x01 > >, star< any > >  so that a
successful X is backtracked over."""
import os
import random
import subprocess

import engine_props as ep
import engine_run as er
import vlib

INCLUDES = ["tao/pegtl/contrib/json.hpp", "tao/pegtl/contrib/uri.hpp", "tao/pegtl/contrib/http.hpp", "tao/pegtl/contrib/integer.hpp",
            "tao/pegtl/contrib/raw_string.hpp", "tao/pegtl/contrib/rep_one_min_max.hpp", "tao/pegtl/contrib/predicates.hpp",
            "tao/pegtl/contrib/abnf.hpp", "tao/pegtl/contrib/rep_string.hpp", "tao/pegtl/contrib/separated_seq.hpp", "tao/pegtl/contrib/if_then.hpp",
            "tao/pegtl/contrib/iri.hpp", "tao/pegtl/contrib/json_pointer.hpp", "tao/pegtl/contrib/alphabet.hpp"]

JSON_SEEDS = ['{"a":[1,2.5e-3,true,null],"b":"x\\u00e9\\n"}', '[ ]', '-0.0E+1', '"\\ud834\\udd1e"', '[[[[]]]]', '{"k":{"k":{}}} ', '"\xc3\xa9\xe2\x82\xac"', "tru", '[1,]', '"\\x"']
URI_SEEDS = ["http://user:pw@host.example.com:8080/p/a/t/h?query=1#frag", "//1.2.3.4", "//[::1]:80/", "//[1:2:3:4:5:6:7:8]", "//[v1.a]", "mailto:a@b", "a/b/c",
             "//255.255.255.256", "//[::ffff:1.2.3.4]", "%41%zz", "?q", "#f", "http://[fe80::1%25eth0]/", "//1.2.3.4.com"]
HTTP_SEEDS = ["GET /p?q HTTP/1.1\r\nHost: a.b:80\r\nX-Y:  v w\r\n\r\nbody", "HTTP/1.1 200 OK\r\nA: b\r\n\r\n", "OPTIONS * HTTP/1.0\r\n\r\n",
              "CONNECT a.b:1 HTTP/1.1\r\n\r\n", "GET http://a/b HTTP/1.1\r\n\r\n", "GET / HTTX", "HTTP/1.1 20"]
CHUNK_SEEDS = ["3\r\nabc\r\n0\r\n\r\n", "a;x=y\r\n0123456789\r\n00\r\nT: v\r\n\r\n", "1;q=\"s\\\"t\"\r\nZ\r\n0\r\n\r\n", "5\r\nab", "FFFFFFFFFFFFFFFFF\r\nab\r\n0\r\n\r\n",
               "2\r\nab\r\n0;e\r\n\r\n", "0\r\n\r\n", "g\r\n"]
INT_SEEDS = ["0", "7", "01", "255", "256", "65535", "65536", "-1", "+1", "-0", "+", "-", "18446744073709551615", "18446744073709551616", "-9223372036854775808", "-9223372036854775809",
             "99999999999999999999999", "1a", "12", "199", "200", "999", "1000"]
RAW_SEEDS = ["[[a]]", "[==[a]=]b]==]", "[=[\n]=]", "[[", "[==[abc]=]", "[=[x]]", "[[\r\n]]", "[", "[=", "[==[]==]x", "[[]] ", "[=[a]=]]=]"]
REP_SEEDS = ["", "a", "aa", "aaa", "aaaa", "aaaaa", "ab", "aab", "ba", "b", "aaab"]
PRED_SEEDS = ["a", "b", "m", "z", "A", "\n", "\xc3\xa9", "\xe2\x82\xac", "\xc3", "\x80", "5", ""]
ABNF_SEEDS = ["a", "Z", "0", "1", "\r\n", "\r", "\n", " ", "\t", "\"", "\x7f", "\x00", "\x80", "f", "G"]

FAMILIES = [
    # (name, C++ rule, seeds, mutate?)
    ("json", "seq< json::text, eof >", JSON_SEEDS, True),
    ("json_value", "json::value", JSON_SEEDS, False),
    ("uri_ref", "seq< uri::URI_reference, eof >", URI_SEEDS, True),
    ("uri", "uri::URI", URI_SEEDS, False),
    ("uri_abs", "uri::absolute_URI", URI_SEEDS, False),
    ("ipv4", "uri::IPv4address", ["1.2.3.4", "255.255.255.255", "256.1.1.1", "1.2.3", "01.2.3.4", "1.2.3.4.5", "999.9.9.9", "25", "2", "25.", "1.2.3.25"], True),
    ("ipv6", "uri::IPv6address", ["::", "::1", "1::", "1:2:3:4:5:6:7:8", "1:2:3:4:5:6:1.2.3.4", "::ffff:1.2.3.4", "1::8", "1:2:3:4:5:6:7::", "1:2:3:4:5:6:7", "12345::", "::1.2.3", "1:2::3:4:5:6:7:8"], True),
    ("iri", "seq< iri::IRI_reference, eof >", URI_SEEDS[:6] + ["http://\xc3\xa9x/\xe2\x82\xac?\xee\x80\x80", "//\xc3"], False),
    ("json_pointer", "seq< json_pointer::json_pointer, eof >", ["/a/b~0~1", "", "/", "/~2", "a", "/\xc3\xa9", "/~"], False),
    ("http", "http::HTTP_message", HTTP_SEEDS, True),
    ("http_chunked", "http::chunked_body", CHUNK_SEEDS, True),
    ("http_chunk", "http::chunk", CHUNK_SEEDS, False),
    ("http_te", "seq< http::TE, eof >", ["trailers, chunked;q=0.5", ",, gzip", "deflate ; q=1.000", "x;a=\"b\"", "chunked;q=2", ""], False),
    ("http_via", "http::Via", ["1.1 a.b (c (d) \\e), HTTP/2 p", "1.0 x", "a/1 [::1]:80", "1.1 a (", ""], False),
    ("unsigned", "unsigned_rule", INT_SEEDS, False),
    ("signed", "signed_rule", INT_SEEDS, False),
    ("max8", "maximum_rule< std::uint8_t >", INT_SEEDS, False),
    ("max8_199", "maximum_rule< std::uint8_t, 199 >", INT_SEEDS, False),
    ("max16_999", "maximum_rule< std::uint16_t, 999 >", INT_SEEDS, False),
    ("max64", "maximum_rule< std::uint64_t >", INT_SEEDS, False),
    ("raw", "raw_string< '[', '=', ']' >", RAW_SEEDS, True),
    ("raw_contents", "raw_string< '[', '=', ']', sor< one< 'a', 'b', 'c', 'x' >, eol > >", RAW_SEEDS, False),
    ("raw_custom", "raw_string< '{', '-', '}', any >", [s.replace("[", "{").replace("]", "}").replace("=", "-") for s in RAW_SEEDS], False),
    ("rep_one_13", "rep_one_min_max< 1, 3, 'a' >", REP_SEEDS, False),
    ("rep_one_02", "rep_one_min_max< 0, 2, 'a' >", REP_SEEDS, False),
    ("rep_one_22", "rep_one_min_max< 2, 2, 'a' >", REP_SEEDS, False),
    ("rep_one_00", "rep_one_min_max< 0, 0, 'a' >", REP_SEEDS, False),
    ("pred_and", "predicates_and< range< 'a', 'z' >, not_one< 'm' > >", PRED_SEEDS, False),
    ("pred_or", "predicates_or< one< 'a' >, range< '0', '9' >, one< '\\n' > >", PRED_SEEDS, False),
    ("pred_not", "predicate_not< range< 'a', 'z' > >", PRED_SEEDS, False),
    ("pred_utf8", "utf8::predicates_and< utf8::range< 0x80, 0xFFFF >, utf8::not_one< 0xE9 > >", PRED_SEEDS, False),
    ("pred_utf8_or", "utf8::predicates_or< utf8::one< 0x20AC >, utf8::one< 0x0A > >", PRED_SEEDS, False),
    ("abnf", "sor< abnf::CRLF, abnf::ALPHA, abnf::BIT, abnf::CTL, abnf::DQUOTE, abnf::HEXDIG, abnf::HTAB, abnf::LWSP, abnf::OCTET >", ABNF_SEEDS, False),
    ("abnf_lwsp", "seq< abnf::LWSP, abnf::VCHAR >", [" a", "\r\n a", "\r\na", "\r\n\r\n x", " \t\r\n\tb", "\r", ""], False),
    ("rep_string", "rep_string< 2, 'a', 'b' >", ["abab", "aba", "ababab", "ab", "", "abba"], False),
    ("separated_seq", "separated_seq< one< ',' >, one< 'a' >, seq< one< 'b' >, one< 'c' > >, one< 'd' > >", ["a,bc,d", "a,b,d", "a,bc", "a,bc,", "abc", ""], False),
    ("if_then", "if_then< one< 'a' >, seq< one< 'b' >, one< 'c' > > >::else_if_then< one< 'x' >, one< 'y' > >::else_then< one< 'z' > >", ["abc", "ab", "xy", "x", "z", "q", ""], False),
]

CONTEXTS = [
    ("top", "%s"),
    ("every_offset", "star< sor< %s, any > >"),
    ("backtrack", "sor< seq< %s, one< 0x01 > >, star< any > >"),
]
CFGS = [("act0", "ctl2", 1, 1, "lf_crlf"), ("act0", "ctl3", 1, 0, "lf_crlf"), ("act1", "ctl2", 1, 1, "lf_crlf"), ("act2", "ctl3", 0, 0, "lf_crlf")]
MUT_BYTES = ["\x00", "\n", "\r", " ", "0", "9", "a", "F", "\"", "\\", "[", "]", "{", ":", "/", ".", "%", "\xc3", "\xff", "-", "=", ";"]


def inputs(seeds, mutate, tier, rnd):
    out = []
    seen = set()

    def add(s):
        if s not in seen and len(s) <= 64:
            seen.add(s)
            out.append(s)
    for s in seeds:
        add(s)
        for k in range(len(s)):                       # every truncation
            add(s[:k])
        if mutate:
            n = len(s)
            pos = range(n + 1) if tier == "thorough" or n <= 12 else sorted(rnd.sample(range(n + 1), 12))
            for k in pos:
                if k < n:
                    add(s[:k] + s[k + 1:])            # delete
                bs = MUT_BYTES if tier == "thorough" else rnd.sample(MUT_BYTES, 5)
                for b in bs:
                    add(s[:k] + b + s[k:])            # insert
                    if k < n:
                        add(s[:k] + b + s[k + 1:])    # replace
    return out


def build_and_run(tier, seed, sanitize=False):
    """-> (records, table, errors).  records: parsed RUN lines of the implementation."""
    rnd = random.Random(seed * 1000003 + 17)
    common = er.prepare_common()
    harness_dir = common["harness_dir"]
    grams = []          # (gid, family, ctx, cpp, inputs)
    gid = 0
    for name, rule, seeds, mutate in FAMILIES:
        ins = inputs(seeds, mutate, tier, rnd)
        for cname, fmt in CONTEXTS:
            if cname != "top" and tier == "quick" and not mutate and name not in ("rep_one_13", "pred_and", "max8", "raw_contents", "http_chunk", "signed", "unsigned"):
                continue
            if cname == "every_offset" and name in ("uri_ref", "http", "iri"):
                continue          # large grammars retried at every offset: tens of thousands of rule attempts per case, nothing new
            sub = ins if cname == "top" else [x for x in ins if len(x) <= 28][:max(40, len(ins) // 3)]
            grams.append((gid, name, cname, fmt % rule, sub))
            gid += 1
    per = 10
    chunks = [grams[i:i + per] for i in range(0, len(grams), per)]
    recs = []
    errors = []
    tables = {}

    def one(chunk):
        lines = ['#include "vharness.hpp"'] + ['#include <%s>' % h for h in INCLUDES] + ["using namespace tao::pegtl;"]
        for g, _, _, cpp, _ in chunk:
            lines.append("namespace g%d { struct G : %s, vh::named {}; }" % (g, cpp))
        lines.append("void register_all() {")
        for g, _, _, _, _ in chunk:
            for c in CFGS:
                lines.append("  vh::reg< g%d::G, vh::%s, vh::%s, apply_mode::%s, rewind_mode::%s, eol::%s >( %d );" % (
                    g, c[0], c[1], "action" if c[2] else "nothing", "required" if c[3] else "optional", c[4], g))
        lines.append("}")
        text = "\n".join(lines) + "\n"
        key = vlib.sha(common["inc_hash"], common["har_hash"], text, vlib.CXX, "asan" if sanitize else "")
        d = os.path.join(vlib.BUILD, "corpus", "shipped%s-%s" % ("-asan" if sanitize else "", key))
        os.makedirs(d, exist_ok=True)
        try:
            os.utime(d)
        except OSError:
            pass
        exe = os.path.join(d, "tu")
        if not os.path.exists(exe):
            tu = os.path.join(d, "tu.cpp")
            with open(tu, "w") as fh:
                fh.write(text)
            tmp = exe + ".%d.tmp" % os.getpid()
            if sanitize:
                cmd = [vlib.CXX, "-std=c++17", "-O1", "-g", "-fsanitize=address,undefined", "-fno-sanitize-recover=all", "-DTAO_PEGTL_VERIF=1",
                       "-I" + os.path.join(vlib.REPO, "include"), "-I" + harness_dir, tu, os.path.join(harness_dir, "vmain.cpp"), "-o", tmp]
            else:
                cmd = [vlib.CXX, "-std=c++17", "-O0", "-DTAO_PEGTL_VERIF=1", "-I" + os.path.join(vlib.REPO, "include"), "-I" + harness_dir, tu, common["vmain_o"], "-o", tmp]
            p = subprocess.run(cmd, stdout=subprocess.PIPE, stderr=subprocess.STDOUT, text=True, errors="replace", timeout=1800)
            if p.returncode != 0:
                errs = [l for l in p.stdout.split("\n") if "error" in l][:5]
                return None, None, "shipped-grammar harness does not compile against the current tree: " + " ;; ".join(errs)[:2000]
            os.rename(tmp, exe)
        p = subprocess.run([exe, "dump"], stdout=subprocess.PIPE, stderr=subprocess.STDOUT, text=True, errors="replace", timeout=300)
        if p.returncode != 0:
            return None, None, "dump failed: " + p.stdout[-1500:]
        table = {}
        for l in p.stdout.split("\n"):
            if l.startswith("NODE "):
                a, h = l[5:].split("|", 1)
                t = a.split()
                table[int(t[0])] = {"enabled": t[1] == "1", "named": t[2] == "1", "subs": [int(x) for x in t[4:]], "head": h.split() or ["?"]}
        cases = os.path.join(d, "cases.%d.txt" % os.getpid())
        with open(cases, "w") as fh:
            for g, _, _, _, ins in chunk:
                for c in CFGS:
                    for s in ins:
                        fh.write("%d %s %s\n" % (g, er.cfg_name(c), s.encode("latin1").hex() or "-"))
        env = dict(os.environ)
        env["VH_ECHO"] = "1"
        env["ASAN_OPTIONS"] = "detect_leaks=0"
        if sanitize:
            env["VH_NOTAIL"] = "1"
        env["VH_MAX_STEPS"] = "60000"
        try:
            pi = subprocess.run([exe, "run", cases], stdout=subprocess.PIPE, stderr=subprocess.PIPE, text=True, errors="replace", timeout=1800, env=env)
        except subprocess.TimeoutExpired:
            return None, None, "shipped-grammar run timed out"
        finally:
            try:
                os.remove(cases)
            except OSError:
                pass
        if pi.returncode != 0:
            lines_ = pi.stderr.split("\n")
            last = [l for l in lines_ if l.startswith("CASE ")][-1:] or ["?"]
            report = [l for l in lines_ if ("ERROR" in l or "runtime error" in l or "SUMMARY" in l)][:4]
            return None, None, {"crash": True, "case": last[0], "rc": pi.returncode, "report": " ;; ".join(report)[:1500] or pi.stderr[-800:],
                                "grammars": {g: cpp for g, _, _, cpp, _ in chunk}}
        rs = [er.parse_run_line(l) for l in pi.stdout.split("\n") if l.startswith("RUN ")]
        return rs, table, None

    import concurrent.futures
    with concurrent.futures.ThreadPoolExecutor(max_workers=vlib.JOBS) as ex:
        for chunk, (rs, table, err) in zip(chunks, ex.map(one, chunks)):
            if err:
                errors.append(err)
                continue
            info = {g: (name, cname, cpp) for g, name, cname, cpp, _ in chunk}
            for r in rs:
                r["family"], r["ctx"], r["cpp"] = info[r["gid"]]
                r["table"] = table
            recs += rs
    return recs, errors


class _K:
    pass


def run_oracle(ctx, pid, sanitize=False):
    """Apply the implementation-side oracle of pid (C02 / C03) to the shipped-grammar runs."""
    import collections
    recs, errors = build_and_run(ctx.tier, ctx.seed, sanitize=sanitize)
    for e in errors:
        if isinstance(e, dict) and e.get("crash"):
            import re
            ctx.violation("shipped crash/sanitizer: " + re.sub(r"0x[0-9a-f]+|\d+", "#", e["report"])[:150], e["report"][:600], e)
        else:
            ctx.diff("shipped-grammar harness could not be built/run against the current tree", {"error": e})
    oracle = ep.ORACLES[pid]
    cnt = collections.Counter()
    fam = collections.Counter()
    nviol = 0
    for r in recs:
        K = _K()
        K.table = r["table"]
        if r["res"] in ("RUNAWAY", "BUDGET"):
            cnt["runaway_runs_skipped"] += 1      # more than 6e4 rule attempts: not a C02/C03 matter, reported in the evidence only
            continue
        fam[r["family"] + "/" + r["ctx"] + "/" + r["res"][:1]] += 1
        for msg in oracle(K, r, cnt)[:2]:
            nviol += 1
            import re
            sig = "shipped %s/%s: %s" % (r["family"], r["ctx"], re.sub(r"\d+", "#", msg))
            ctx.violation(sig[:200], msg, {"rule": r["cpp"], "cfg": r["cfg"], "input_hex": r["input"], "impl_result": r["res"], "impl_cursor": r["cur"],
                                           "impl_trace": r["events"][:3000], "stage": "shipped grammars (implementation-side oracle, no model comparison)"})
    ctx.cover(evaluations=len(recs), distinct=len(fam), validated=0,
              rule="shipped/contrib stage: %d rule families x contexts (top, attempted at every offset, backtracked over) x %d configurations; seeds + every truncation + single-byte delete/insert/replace mutations; implementation-side oracle only%s" % (
                  len(FAMILIES), len(CFGS), " under ASan/UBSan" if sanitize else ""),
              samples=[{"rule": r["cpp"], "cfg": r["cfg"], "input_hex": r["input"], "result": r["res"][:60], "cursor": r["cur"]} for r in recs[:: max(1, len(recs) // 4)][:4]],
              shipped_counters=dict(cnt), shipped_runs=len(recs), shipped_cells=len(fam))
    return len(recs), nviol
