"""engine_run — build the generated corpus against /repo, run implementation and extracted model
on the same cases, and hand structured records to the property checks (shared by C01..C13)."""
import concurrent.futures
import json
import os
import re
import subprocess

import corpus
import vlib

CFGS = [
    # (fam, ctl, A, M, eol)   see harness/vharness.hpp for the families
    ("act0", "ctl2", 1, 1, "lf_crlf"),   # 0 no actions, required, full invocation trace
    ("act3", "ctl2", 1, 1, "lf_crlf"),   # 1 bool apply (veto by predicate) on every rule, required, full invocation trace
    ("act0", "ctl3", 1, 0, "lf_crlf"),   # 2 no actions, optional, invocation trace, control without unwind
    ("act1", "ctl0", 1, 0, "lf_crlf"),   # 3 void apply everywhere
    ("act7", "ctl1", 1, 0, "lf_crlf"),   # 4 void apply on named rules only, control without unwind
    ("act8", "ctl2", 1, 1, "lf_crlf"),   # 5 veto on named rules only, invocation trace
    ("act2", "ctl0", 1, 1, "lf_crlf"),   # 6 apply0 everywhere
    ("act4", "ctl0", 1, 0, "lf_crlf"),   # 7 bool apply0
    ("act5", "ctl0", 1, 0, "lf_crlf"),   # 8 throwing (std) actions
    ("act6", "ctl1", 1, 1, "lf_crlf"),   # 9 throwing (foreign) actions, no unwind
    ("act1", "ctl0", 0, 0, "lf_crlf"),   # 10 apply_mode::nothing
    ("act3", "ctl1", 1, 0, "lf_crlf"),   # 11 veto everywhere, optional, no unwind
]


def cfg_name(c):
    """fam.ctl.A.M.[lazy-]eol[@7-3-5]  (optional 6th tuple field: "", "lazy", "init", "lazy+init")"""
    fam, ctl, a, m, eol = c[:5]
    x = c[5] if len(c) > 5 else ""
    return "%s.%s.%d.%d.%s%s%s" % (fam[3:], ctl[3:], a, m, "lazy-" if "lazy" in x else "", eol, "@7-3-5" if "init" in x else "")


def cfg_of_name(name):
    f, c, a, m, e = name.split(".")
    x = []
    if e.startswith("lazy-"):
        e = e[5:]
        x.append("lazy")
    if e.endswith("@7-3-5"):
        e = e[:-6]
        x.append("init")
    return ("act" + f, "ctl" + c, int(a), int(m), e, "+".join(x))


def cfg_cpp(c, g):
    fam, ctl, a, m, eol = c[:5]
    x = c[5] if len(c) > 5 else ""
    return "vh::reg< g%d::G, vh::%s, vh::%s, apply_mode::%s, rewind_mode::%s, eol::%s, tracking_mode::%s, %d >( %d );" % (
        g.gid, fam, ctl, "action" if a else "nothing", "required" if m else "optional", eol, "lazy" if "lazy" in x else "eager", 1 if "init" in x else 0, g.gid)


EOL_CFGS = [("act1", "ctl2", 1, 1, e) for e in ("lf", "cr", "crlf", "lf_crlf", "cr_crlf")]


def choose_cfgs(g, k, tier):
    if "atoms" in g.tags:
        return EOL_CFGS
    if tier == "thorough":
        idx = ([0, 1, 2, 3, 8], [0, 1, 4, 6, 9], [0, 5, 7, 10, 11])[k % 3]
    else:
        rot = [2, 3, 4, 5, 6, 7, 8, 9, 10, 11]
        idx = [k % 2, rot[k % len(rot)], rot[(k * 7 + 3) % len(rot)]]
    return [CFGS[i] for i in sorted(set(idx))]


def write_tu(path, grams, cfgs_of):
    out = ['#include "vharness.hpp"', "using namespace tao::pegtl;"]
    for g in grams:
        out.append(g.cpp())
    out.append("void register_all() {")
    for g in grams:
        for c in cfgs_of[g.gid]:
            out.append("  " + cfg_cpp(c, g))
    out.append("}")
    with open(path, "w") as fh:
        fh.write("\n".join(out) + "\n")


EVENT_RE = re.compile(r"([A-Z])([^;]*);")


def parse_run_line(l):
    # RUN gid root cfg hex | res | cur | events
    parts = l.split(" | ")
    if len(parts) != 4:
        parts = (l.rstrip("\n") + " ").split(" | ")
        while len(parts) < 4:
            parts.append("")
    hd = parts[0].split()
    rec = {"gid": int(hd[1]), "root": int(hd[2]), "cfg": hd[3], "input": hd[4], "res": parts[1].strip(), "cur": parts[2].strip(),
           "events": parts[3].strip()}
    return rec


def events_of(rec):
    """[(kind, [ints...])]"""
    out = []
    for m in EVENT_RE.finditer(rec["events"]):
        k = m.group(1)
        body = m.group(2)
        nums = [int(x) for x in body.split(",") if x != ""] if body else []
        out.append((k, nums))
    return out


class Corpus:
    pass


class Chunk:
    """one translation unit worth of grammars: built, dumped, run through both sides"""
    pass


def plan(tier, seed, want_tags=None, nrandom=None, maxlen=None, extra=None, choose=None, base=True):
    """extra(tier, seed, start_gid) -> more Grams (property-specific families);
    choose(g, k, tier) -> configurations for grammar g (default choose_cfgs); base=False drops the shared corpus"""
    grams = corpus.systematic(tier) if base else []
    if not base:
        nrandom = 0
    if nrandom is None:
        nrandom = 24 if tier == "quick" else 150
    grams += corpus.random_grammars(seed, nrandom, start_gid=len(grams))
    grams += corpus.random_grammars(seed + 7919, nrandom, start_gid=len(grams), classical_only=True)
    if base:
        grams += corpus.atom_grammars(tier, start_gid=len(grams))
    if want_tags:
        grams = [g for g in grams if g.tags & set(want_tags)]
    if extra:
        more = extra(tier, seed, 100000)
        for i, g in enumerate(more):
            g.gid = 100000 + i
        grams += more
    if maxlen is None:
        maxlen = 4 if tier == "quick" else 5
    cfgs_of = {g.gid: ((choose and choose(g, i, tier)) or choose_cfgs(g, i, tier)) for i, g in enumerate(grams)}
    per_tu = 14 if tier == "quick" else 20
    chunks = [grams[i:i + per_tu] for i in range(0, len(grams), per_tu)]
    return grams, cfgs_of, chunks, maxlen


def prepare_common():
    model_exe = vlib.build_ocaml("Extract", "engine_driver.ml", "engine_driver")
    harness_dir = os.path.join(vlib.VERIF, "harness")
    inc_hash = vlib.tree_hash(os.path.join(vlib.REPO, "include"))
    har_hash = vlib.file_hash(os.path.join(harness_dir, "vharness.hpp"), os.path.join(harness_dir, "vmain.cpp"))
    vmain_dir = os.path.join(vlib.BUILD, "corpus", "vmain-" + vlib.sha(inc_hash, har_hash, vlib.CXX))
    vmain_o = os.path.join(vmain_dir, "vmain.o")
    try:
        os.utime(vmain_dir)
    except OSError:
        pass
    if not os.path.exists(vmain_o):
        os.makedirs(vmain_dir, exist_ok=True)
        rc, out = vlib.sh([vlib.CXX, "-std=c++17", "-O0", "-DTAO_PEGTL_VERIF=1", "-I" + os.path.join(vlib.REPO, "include"), "-I" + harness_dir,
                           "-c", os.path.join(harness_dir, "vmain.cpp"), "-o", vmain_o + ".%d.tmp" % os.getpid()], timeout=600)
        if rc != 0:
            raise vlib.BuildError("vmain.cpp does not compile against the current tree:\n" + out[-3000:])
        os.rename(vmain_o + ".%d.tmp" % os.getpid(), vmain_o)
    return {"model_exe": model_exe, "harness_dir": harness_dir, "inc_hash": inc_hash, "har_hash": har_hash, "vmain_o": vmain_o}


def run_chunk(common, ch, cfgs_of, maxlen, label="engine", sanitize=False):
    """compile (cached), dump, run model + implementation. Returns Chunk or raises/returns error."""
    K = Chunk()
    K.grams = {g.gid: g for g in ch}
    K.error = None
    harness_dir = common["harness_dir"]
    src_text_key = vlib.sha(*[g.cpp() for g in ch], *[cfg_name(c) for g in ch for c in cfgs_of[g.gid]])
    key = vlib.sha(common["inc_hash"], common["har_hash"], src_text_key, vlib.CXX, "asan" if sanitize else "")
    d = os.path.join(vlib.BUILD, "corpus", "%s-%s" % (label + ("-asan" if sanitize else ""), key))
    os.makedirs(d, exist_ok=True)
    try:
        os.utime(d)
    except OSError:
        pass
    exe = os.path.join(d, "tu")
    if not os.path.exists(exe):
        tu = os.path.join(d, "tu.cpp")
        write_tu(tu, ch, cfgs_of)
        tmp = exe + ".%d.tmp" % os.getpid()
        cmd = [vlib.CXX, "-std=c++17", "-O0", "-DTAO_PEGTL_VERIF=1", "-I" + os.path.join(vlib.REPO, "include"), "-I" + harness_dir,
               tu, common["vmain_o"], "-o", tmp]
        if sanitize:
            cmd = [vlib.CXX, "-std=c++17", "-O1", "-g", "-fsanitize=address,undefined", "-fno-sanitize-recover=all", "-DTAO_PEGTL_VERIF=1",
                   "-I" + os.path.join(vlib.REPO, "include"), "-I" + harness_dir, tu, os.path.join(harness_dir, "vmain.cpp"), "-o", tmp]
        p = subprocess.run(cmd, stdout=subprocess.PIPE, stderr=subprocess.STDOUT, text=True, errors="replace", timeout=1800)
        if p.returncode != 0 and "linker command failed" in p.stdout and not any(": error:" in l for l in p.stdout.split("\n") if "linker" not in l):
            # transient (seen under heavy machine load): retry once, compiling vmain.cpp into the same command
            cmd2 = [c for c in cmd if c != common["vmain_o"]]
            if os.path.join(harness_dir, "vmain.cpp") not in cmd2:
                cmd2.insert(-2, os.path.join(harness_dir, "vmain.cpp"))
            p = subprocess.run(cmd2, stdout=subprocess.PIPE, stderr=subprocess.STDOUT, text=True, errors="replace", timeout=1800)
        if p.returncode != 0:
            errs = [l for l in p.stdout.split("\n") if "error" in l][:6]
            K.error = "compile failed: " + " ;; ".join(errs)[:3000]
            return K
        os.rename(tmp, exe)
    p = subprocess.run([exe, "dump"], stdout=subprocess.PIPE, stderr=subprocess.STDOUT, text=True, errors="replace", timeout=120)
    if p.returncode != 0:
        K.error = "dump failed: " + p.stdout[-2000:]
        return K
    dump = os.path.join(d, "dump.%d.txt" % os.getpid())
    with open(dump, "w") as fh:
        fh.write(p.stdout)
    st = [l for l in p.stdout.split("\n") if l.startswith("SELFTEST ")]
    if st and not st[0].startswith("SELFTEST ok"):
        K.error = "input classes of the tree under test fail the harness self-test:" + st[0][12:400]
        return K
    vis = vlib.visible_internal_helpers(p.stdout)
    if vis:
        K.error = "an implementation helper of namespace internal is visible to the control (enable_control is true): " + vis[0][:300]
        return K
    if "unknown" in p.stdout:
        bad = [l for l in p.stdout.split("\n") if "unknown" in l][:3]
        K.error = "untranslatable rule in table dump: " + " ;; ".join(bad)
        return K
    cases = os.path.join(d, "cases-%d.%d.txt" % (maxlen, os.getpid()))
    with open(cases, "w") as fh:
        for g in ch:
            ins = corpus.inputs_for(g, maxlen)
            for c in cfgs_of[g.gid]:
                cn = cfg_name(c)
                for s in ins:
                    fh.write("%d %s %s\n" % (g.gid, cn, s.encode("latin1").hex() or "-"))
    # surface terms (spec side): resolved against the dumped names, never against the structure
    name_to_node = {}
    root_of = {}
    for l in p.stdout.split("\n"):
        if l.startswith("NAME "):
            t = l.split()
            if t[2] != "-":
                name_to_node[bytes.fromhex(t[2]).decode("latin1")] = int(t[1])
        elif l.startswith("REG "):
            t = l.split()
            root_of[int(t[1])] = int(t[2])
    surf = os.path.join(d, "surf.%d.txt" % os.getpid())
    with open(surf, "w") as fh:
        for g in ch:
            if g.surface is None or g.gid not in root_of:
                continue
            order = [n for n, _ in g.rules]
            if any(n not in g.surface for n in order):
                continue
            pairs = []
            okn = True
            for n in order:
                node = name_to_node.get("g%d::%s" % (g.gid, n))
                if node is None:
                    okn = False
                    break
                pairs.append("%s:%d" % (n, node))
            if not okn:
                continue
            fh.write("SURF %d %d %s | %s | %s\n" % (g.gid, root_of[g.gid], ",".join(pairs) or "-", g.surface["G"], " | ".join(g.surface[n] for n in order)))
    try:
        pm = subprocess.run([common["model_exe"], dump, cases, "4000", surf], stdout=subprocess.PIPE, stderr=subprocess.STDOUT, text=True, errors="replace", timeout=1800)
        if pm.returncode != 0:
            K.error = "model driver failed: " + pm.stdout[-2000:]
            return K
        K.crash = None
        try:
            env = dict(os.environ)
            env["VH_ECHO"] = "1"
            env["ASAN_OPTIONS"] = "detect_leaks=0"
            if sanitize:
                env["VH_NOTAIL"] = "1"
            pi = subprocess.run([exe, "run", cases], stdout=subprocess.PIPE, stderr=subprocess.PIPE, text=True, errors="replace", timeout=900, env=env)
        except subprocess.TimeoutExpired:
            K.error = "implementation run timed out (possible endless loop in the changed library)"
            return K
        if pi.returncode != 0:
            lines = pi.stderr.split("\n")
            last = [l for l in lines if l.startswith("CASE ")][-1:] or ["?"]
            report = [l for l in lines if ("ERROR" in l or "runtime error" in l or "SUMMARY" in l)][:4]
            K.crash = {"case": last[0], "rc": pi.returncode, "report": " ;; ".join(report)[:1500] or pi.stderr[-800:]}
            K.error = "implementation crashed (rc=%d) on %s: %s" % (pi.returncode, last[0], K.crash["report"])
            return K
    finally:
        for f in (dump, cases, surf):
            try:
                os.remove(f)
            except OSError:
                pass
    K.table = {}
    K.names = {}
    K.rof = set()
    K.rofs = set()
    for l in p.stdout.split("\n"):
        if l.startswith("NODE "):
            a, h = l[5:].split("|", 1)
            t = a.split()
            K.table[int(t[0])] = {"enabled": t[1] == "1", "named": t[2] == "1", "subs": [int(x) for x in t[4:]], "head": h.split()}
        elif l.startswith("ROFS "):
            K.rofs.add(int(l.split()[1]))
        elif l.startswith("ROF "):
            K.rof.add(int(l.split()[1]))
        elif l.startswith("NAME "):
            t = l.split()
            nm = bytes.fromhex(t[2]).decode("latin1") if t[2] != "-" else ""
            ms = bytes.fromhex(t[3]).decode("latin1") if t[3] != "-" else ""
            K.names[int(t[1])] = (nm, ms)
    K.tie = {}
    K.spec = {}
    for l in pm.stdout.split("\n"):
        if l.startswith("TIE "):
            t = l.split()
            K.tie[int(t[1])] = t[2]
        elif l.startswith("SPEC "):
            t = l.split()
            K.spec[(int(t[1]), t[2])] = " ".join(t[3:])
    K.impl = [parse_run_line(l) for l in pi.stdout.split("\n") if l.startswith("RUN ")]
    K.model = [parse_run_line(l) for l in pm.stdout.split("\n") if l.startswith("RUN ")]
    if len(K.impl) != len(K.model):
        K.error = "run count differs impl=%d model=%d" % (len(K.impl), len(K.model))
    return K


# --------------------------------------------------------------------------- canonical comparison
def expected_message(K, gid, who, ctl=None):
    if who == "LD":
        return "maximum parser rule nesting depth exceeded"
    if who == "LB":
        return "maximum allowed rule consumption reached"
    if who == "CB":
        return "maximum allowed rule consumption exceeded"
    nm, ms = K.names.get(int(who), ("?", ""))
    if ctl is not None and int(ctl) >= 4 and (int(who) in getattr(K, "rof", ()) or int(who) in getattr(K, "rofs", ())):
        return "mustif"               # must_if< mi_errors >::control: the message of the control's error table wins
    if ms.startswith("M"):
        return ms[1:]
    return "parse error matching " + nm


def canon_model_res(C, rec):
    """model result with rule ids replaced by the message the library is documented to produce"""
    r = rec["res"]
    if not r.startswith("X"):
        return r
    parts = r[1:].split(">")
    out = []
    for i, p in enumerate(parts):
        if p.startswith("P:"):
            _, who, pos = p.split(":", 2)
            # every level but the innermost was produced by raise_nested, which must_if does not customise (normal.hpp message)
            ctl = rec["cfg"].split(".")[1] if i == len(parts) - 1 else None
            out.append("P:" + expected_message(C, rec["gid"], who, ctl).encode("latin1").hex() + ":" + pos)
        else:
            out.append(p)
    return "X" + ">".join(out)


def canon_impl_res(rec):
    r = rec["res"]
    if r.startswith("XS:"):
        return "XS"
    return re.sub(r"(>S):[a-z0-9]+", r"\1", r)
