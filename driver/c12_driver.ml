(* c12_driver.ml — C12 (parse tree): runs the extracted model of parse_tree::parse on the tables the
   C++ harness dumped (mode "model"), and applies the extracted SPECIFICATION (call tree of a hook
   log, derivation tree) to the hook logs the IMPLEMENTATION printed (mode "oracle").
   Hand-written glue (trusted): parsing of dump / case / log lines, canonical printing, the
   reachability check of the conformance hypothesis. *)
open C12_model

let rec nat_of_int n = if n <= 0 then O else S (nat_of_int (n - 1))
let rec int_of_nat = function O -> 0 | S n -> 1 + int_of_nat n
let rec pos_of_int n = if n = 1 then XH else if n land 1 = 0 then XO (pos_of_int (n lsr 1)) else XI (pos_of_int (n lsr 1))
let n_of_int n = if n = 0 then N0 else Npos (pos_of_int n)
let rec int_of_pos = function XH -> 1 | XO p -> 2 * int_of_pos p | XI p -> 2 * int_of_pos p + 1
let int_of_n = function N0 -> 0 | Npos p -> int_of_pos p
let n_of_string s =
  let ten = n_of_int 10 in
  let acc = ref N0 in
  String.iter (fun ch -> acc := N.add (N.mul !acc ten) (n_of_int (Char.code ch - 48))) s; !acc
let z_of_string s =
  if String.length s > 0 && s.[0] = '-' then
    (match n_of_string (String.sub s 1 (String.length s - 1)) with N0 -> Z0 | Npos p -> Zneg p)
  else (match n_of_string s with N0 -> Z0 | Npos p -> Zpos p)
let split_ws s = List.filter (fun x -> x <> "") (String.split_on_char ' ' s)
let unhex s = if s = "-" then "" else String.init (String.length s / 2) (fun i -> Char.chr (int_of_string ("0x" ^ String.sub s (2 * i) 2)))

let parse_endian = function "be" -> BE | "le" -> LE | _ -> failwith "endian"
let parse_peek s =
  match String.split_on_char ':' s with
  | ["char"] -> PkChar | ["utf8"] -> PkUtf8 | ["uint8"] -> PkUint8
  | ["mask8"; m] -> PkMaskUint8 (n_of_string m)
  | ["uint"; w; e] -> PkUint (nat_of_int (int_of_string w), parse_endian e)
  | ["mask"; w; e; m] -> PkMaskUint (nat_of_int (int_of_string w), parse_endian e, n_of_string m)
  | ["utf16"; e] -> PkUtf16 (parse_endian e) | ["utf32"; e] -> PkUtf32 (parse_endian e)
  | _ -> failwith ("peek " ^ s)
let parse_filter s =
  match String.split_on_char ':' s with
  | ["any"] -> FAny | ["std"] -> FStd | ["parse"] -> FParse | ["type"; t] -> FType (n_of_string t)
  | _ -> failwith ("filter " ^ s)
let nats l = List.map (fun s -> nat_of_int (int_of_string s)) l
let parse_head toks =
  match toks with
  | ["success"] -> HSuccess | ["failure"] -> HFailure | ["eof"] -> HEof | ["eol"] -> HEol | ["eolf"] -> HEolf
  | ["bof"] -> HBof | ["bol"] -> HBol | ["everything"] -> HEverything | ["discard"] -> HDiscard | ["opaque"] -> HOpaque
  | ["any"; pk] -> HAny (parse_peek pk)
  | "one" :: f :: pk :: cs -> HOne (f = "1", parse_peek pk, List.map z_of_string cs)
  | ["range"; f; pk; lo; hi] -> HRange (f = "1", parse_peek pk, z_of_string lo, z_of_string hi)
  | "ranges" :: pk :: cs -> HRanges (parse_peek pk, List.map z_of_string cs)
  | "string" :: cs -> HString (List.map n_of_string cs)
  | "istring" :: cs -> HIString (List.map n_of_string cs)
  | ["bytes"; n] -> HBytes (nat_of_int (int_of_string n)) | ["require"; n] -> HRequire (nat_of_int (int_of_string n))
  | ["seq"] -> HSeq | ["sor"] -> HSor | ["star_partial"] -> HStarPartial | ["plus"] -> HPlus | ["partial"] -> HPartial
  | ["at"] -> HAt | ["not_at"] -> HNotAt | ["until1"] -> HUntil1 | ["until2"] -> HUntil2
  | ["rep"; n] -> HRep (nat_of_int (int_of_string n))
  | ["rep_min_max"; a; b] -> HRepMinMax (nat_of_int (int_of_string a), nat_of_int (int_of_string b))
  | ["rep_opt"; n] -> HRepOpt (nat_of_int (int_of_string n))
  | ["if_then_else"] -> HIfThenElse | ["if_must"; d] -> HIfMust (d = "1") | ["must"] -> HMust | ["raise"] -> HRaise
  | ["strict"] -> HStrict | ["star_strict"] -> HStarStrict | ["rematch"] -> HRematch
  | ["try_catch_false"; f] -> HTryCatchFalse (parse_filter f) | ["try_catch_nested"; f] -> HTryCatchNested (parse_filter f)
  | ["state"; _] -> HState
  | ["action"; f] -> HAction (nat_of_int (int_of_string f)) | ["control"; c] -> HControl (nat_of_int (int_of_string c))
  | ["enable"] -> HEnable | ["disable"] -> HDisable
  | "apply" :: l -> HApply (nats l) | "apply0" :: l -> HApply0 (nats l) | "if_apply" :: l -> HIfApply (nats l)
  | _ -> failwith ("untranslatable head: " ^ String.concat " " toks)

(* deterministic behaviours, mirrored from vharness.hpp *)
let throw_pred r b e = ((r * 5 + b * 7 + e * 3) mod 5) = 0
let veto_pred r b e = ((r * 7 + b * 3 + e * 5) mod 4) <> 0
let ipred b e = ((b * 3 + e * 5) mod 3) <> 0
let ithrow b e = ((b + e) mod 4) = 3

let starts_with p s = String.length s >= String.length p && String.sub s 0 (String.length p) = p

let ipos p = (int_of_n p.pbyte, int_of_n p.pline, int_of_n p.pcol)
let ps p = let (b, l, c) = ipos p in Printf.sprintf "%d.%d.%d" b l c

(* canonical tree, same format as c12_harness.hpp *)
let rec ptree buf (Node (r, b, e, ch)) =
  (match r with
   | None -> Buffer.add_string buf "root"
   | Some r -> Buffer.add_string buf (Printf.sprintf "%d:%s:%s" (int_of_nat r) (ps b) (match e with Some e -> ps e | None -> "-")));
  Buffer.add_char buf '[';
  List.iter (ptree buf) ch;
  Buffer.add_char buf ']'
let tree_str t = let b = Buffer.create 128 in ptree b t; Buffer.contents b

let hook_char = function HkStart -> 'S' | HkSuccess -> 'O' | HkFailure -> 'F' | HkUnwind -> 'U'

(* "S0,2,0,1,1;A5,...;" -> hook events; rule index -1 (a type outside the table) -> `unknown` *)
let parse_log unknown s =
  let out = ref [] in
  List.iter (fun it ->
      if String.length it > 0 then begin
        let k = it.[0] in
        let h = match k with 'S' -> Some HkStart | 'O' -> Some HkSuccess | 'F' -> Some HkFailure | 'U' -> Some HkUnwind | _ -> None in
        match h with
        | None -> ()
        | Some h ->
          (match String.split_on_char ',' (String.sub it 1 (String.length it - 1)) with
           | [_ctl; r; b; l; c] ->
             let r = int_of_string r in
             let r = if r < 0 then unknown else r in
             out := ((h, nat_of_int r), { pbyte = n_of_int (int_of_string b); pline = n_of_int (int_of_string l); pcol = n_of_int (int_of_string c) }) :: !out
           | _ -> failwith ("bad event " ^ it))
      end) (String.split_on_char ';' s);
  List.rev !out

let () =
  let mode = Sys.argv.(1) and dumpfile = Sys.argv.(2) in
  let namedt = Hashtbl.create 100 in
  let nodes = Hashtbl.create 100 and sels = Hashtbl.create 1000 and rofs = Hashtbl.create 100 and thrs = Hashtbl.create 100 and roots = Hashtbl.create 100 in
  let ic = open_in dumpfile in
  (try while true do
    let l = input_line ic in
    if starts_with "NODE " l then begin
      let body = String.sub l 5 (String.length l - 5) in
      match String.index_opt body '|' with
      | Some k ->
        let a = String.sub body 0 k and h = String.sub body (k + 1) (String.length body - k - 1) in
        (match split_ws a with
         | id :: en :: nm :: _n :: subs ->
           if nm = "1" then Hashtbl.replace namedt (int_of_string id) ();
           Hashtbl.replace nodes (int_of_string id) { nhead = parse_head (split_ws h); nsubs = nats subs; nenabled = (en = "1") }
         | _ -> failwith "bad node")
      | None -> failwith "bad node line"
    end else if starts_with "SEL " l then begin
      match split_ws l with
      | [_; gid; sel; idx; k] -> Hashtbl.replace sels (gid, sel, int_of_string idx) (int_of_string k)
      | _ -> failwith "bad sel"
    end else if starts_with "ROF " l then begin
      match split_ws l with
      | [_; gid; idx] -> Hashtbl.replace rofs (gid, int_of_string idx) ()
      | _ -> failwith "bad rof"
    end else if starts_with "THR " l then begin
      match split_ws l with
      | [_; gid; idx] -> Hashtbl.replace thrs (gid, int_of_string idx) ()
      | _ -> failwith "bad thr"
    end else if starts_with "REG12 " l then begin
      match split_ws l with
      | [_; gid; root; sel; act] -> Hashtbl.replace roots (gid, sel, act) (int_of_string root)
      | _ -> failwith "bad reg"
    end
  done with End_of_file -> ());
  close_in ic;
  let n = Hashtbl.length nodes in
  let g = List.init n (fun i -> try Hashtbl.find nodes i with Not_found -> failwith ("missing node " ^ string_of_int i)) in
  let garr = Array.of_list g in
  let sel_of gid sel : nat -> transform option = fun r ->
    match Hashtbl.find_opt sels (gid, sel, int_of_nat r) with
    | Some 1 -> Some TStore | Some 2 -> Some TRemove | Some 3 -> Some TFoldOne | Some 4 -> Some TDiscardEmpty
    | _ -> None in
  (* subs_t closure, for the conformance hypothesis of the theorems *)
  let closure = Array.make n None in
  let reach r =
    match closure.(r) with
    | Some s -> s
    | None ->
      let seen = Hashtbl.create 16 in
      let rec go x = List.iter (fun y -> let y = int_of_nat y in if y < n && not (Hashtbl.mem seen y) then (Hashtbl.replace seen y (); go y)) garr.(x).nsubs in
      go r; closure.(r) <- Some seen; seen in
  let rec conf_ok allowed (CT (r, _, _, _, kids)) =
    let r = int_of_nat r in
    (match allowed with None -> true | Some s -> r >= n || Hashtbl.mem s r) &&
    (let inner = if r >= n then allowed else Some (reach r) in List.for_all (conf_ok inner) kids) in
  if mode = "model" then begin
    let casefile = Sys.argv.(3) in
    let fuel = nat_of_int (if Array.length Sys.argv > 4 then int_of_string Sys.argv.(4) else 3000) in
    let ic = open_in casefile in
    (try while true do
      let l = input_line ic in
      match split_ws l with
      | [gid; sel; act; inp] ->
        (match Hashtbl.find_opt roots (gid, sel, act) with
         | None -> ()
         | Some root ->
           let throwing = (act = "5") in
           let vetoing = (act = "v") in
           let tagged r = act = "t" && Hashtbl.mem thrs (gid, int_of_nat r) in
           let c = { ceol = EolLfCrlf;
                     acts = (fun _ r -> if vetoing && (let i = int_of_nat r in Hashtbl.mem namedt i) then AKApply true
                                        else if (throwing && (let i = int_of_nat r in i < n && garr.(i).nenabled)) || tagged r then AKApply false else AKNone);
                     abeh = (fun _ r b e ->
                         if tagged r then AThrow N0 else
                         let r = int_of_nat r and (bb, _, _) = ipos b and (eb, _, _) = ipos e in
                         if vetoing then ARet (r = root || veto_pred r bb eb) else
                         if throwing && throw_pred r bb eb then AThrow N0 else ARet true);
                     ibeh = (fun a b e ->
                         let (bb, _, _) = ipos b and (eb, _, _) = ipos e in
                         match int_of_nat a with
                         | 1 -> ARet (ipred bb eb)
                         | 2 -> if ithrow bb eb then AThrow N0 else ARet true
                         | 12 -> ARet false
                         | 13 -> AThrow N0
                         | _ -> ARet true);
                     has_unwind = (fun _ -> true);
                     raise_on_failure = (fun _ r -> act = "mi" && Hashtbl.mem rofs (gid, int_of_nat r)) } in
           let d = { dA = true; dM = false (* parse() default: rewind_mode::optional *); dAct = nat_of_int (if throwing then 5 else if vetoing then 3 else 0); dCtl = O; dDepth = O } in
           let s = unhex inp in
           let bytes = List.init (String.length s) (fun i -> n_of_int (Char.code s.[i])) in
           let sel_f = sel_of gid sel in
           let cur = { rest = bytes; cpos = { pbyte = N0; pline = n_of_int 1; pcol = n_of_int 1 } } in
           let x = eval (pt_table g sel_f) (pt_cfg c) fuel d (nat_of_int root) cur in
           let log = match x with
             | Res (_, _, evs) ->
               let b = Buffer.create 256 in
               List.iter (fun ((h, r), p) -> let (bb, ll, cc) = ipos p in
                           Buffer.add_string b (Printf.sprintf "%c0,%d,%d,%d,%d;" (hook_char h) (int_of_nat r) bb ll cc)) (hooks_of evs);
               Buffer.contents b
             | _ -> "" in
           let (res, tree) = match pt_finish (kind g sel_f) x with
             | PtTree t -> ("T", tree_str t)
             | PtStale (t :: _) -> ("T", tree_str t)          (* what the NDEBUG build returns: state.back() *)
             | PtStale [] -> ("STUCK", "-")
             | PtNull -> ("N", "-")
             | PtExc _ -> ("X", "-")
             | PtStuck -> ("STUCK", "-")
             | PtOof -> ("OOF", "-")
             | PtErr -> ("ERR", "-") in
           Printf.printf "M %s %s %s %s | %s | %s | %s\n" gid sel act inp res tree log)
      | _ -> ()
    done with End_of_file -> ());
    close_in ic
  end else begin
    (* oracle: specification applied to the implementation's logs *)
    let implfile = Sys.argv.(3) in
    let alllog = Hashtbl.create 1000 in
    let pts = ref [] in
    let ic = open_in implfile in
    let fields l = List.map String.trim (String.split_on_char '|' l) in
    (try while true do
      let l = input_line ic in
      if starts_with "PL " l then begin
        match fields l with
        | [hd; _r2; _r3; log3] ->
          (match split_ws hd with
           | [_; gid; act; inp] -> Hashtbl.replace alllog (gid, act, inp) log3
           | _ -> failwith "bad PL head")
        | _ -> failwith ("bad PL line: " ^ l)
      end else if starts_with "PT " l then begin
        match fields l with
        | [hd; _r1; _tree; log1] ->
          (match split_ws hd with
           | [_; gid; _root; sel; act; inp; _within] -> pts := (gid, sel, act, inp, log1) :: !pts
           | _ -> failwith "bad PT head")
        | _ -> failwith ("bad PT line: " ^ l)
      end
    done with End_of_file -> ());
    close_in ic;
    List.iter (fun (gid, sel, act, inp, log1) ->
        let sel_f = sel_of gid sel in
        let selp r = let i = int_of_nat r in if i < n && garr.(i).nenabled then sel_f r else None in
        let spec log =
          let evs = parse_log n log in
          match call_forest evs with
          | None -> ("UNBALANCED", "-")
          | Some ts -> (tree_str (derivation_tree selp ts), if List.for_all (conf_ok None) ts then "1" else "0") in
        let (t1, c1) = spec log1 in
        let (t3, c3) = match Hashtbl.find_opt alllog (gid, act, inp) with Some l3 -> spec l3 | None -> ("MISSING", "-") in
        Printf.printf "O %s %s %s %s | %s | %s | %s | %s\n" gid sel act inp t1 c1 t3 c3) (List.rev !pts)
  end
