(* c10_driver.ml — model side of the C10 correspondence.  Evaluates the extracted Coq model
   (C10_model.do_peek / C10_model.eval_atom) on the same cases as harness/c10_impl.cpp and prints
   the same digest / verbose lines.  Hand-written glue (trusted): parsing of the compiler's rule
   dump, case enumeration, number conversion, digest arithmetic.

     c10_driver --classes                       print the Coq class_table as "CLASS i name | head"
     c10_driver [-v] <rulesfile> <specfile>     rulesfile = output of `c10_impl --rules` *)
module M = C10_model

let rec pos_of_int n = if n = 1 then M.XH else if n land 1 = 0 then M.XO (pos_of_int (n lsr 1)) else M.XI (pos_of_int (n lsr 1))
let n_of_int n = if n = 0 then M.N0 else M.Npos (pos_of_int n)
let rec nat_of_int n = if n <= 0 then M.O else M.S (nat_of_int (n - 1))
let rec int_of_nat = function M.O -> 0 | M.S n -> 1 + int_of_nat n
let rec int_of_pos = function M.XH -> 1 | M.XO p -> 2 * int_of_pos p | M.XI p -> 2 * int_of_pos p + 1
let int_of_n = function M.N0 -> 0 | M.Npos p -> int_of_pos p

(* decimal strings up to 2^64 -> N / Z through the extracted N arithmetic (no native overflow) *)
let n_of_string s =
  let ten = n_of_int 10 in
  let acc = ref M.N0 in
  String.iter (fun ch -> acc := M.N.add (M.N.mul !acc ten) (n_of_int (Char.code ch - 48))) s;
  !acc
let z_of_string s =
  if String.length s > 0 && s.[0] = '-' then
    (match n_of_string (String.sub s 1 (String.length s - 1)) with M.N0 -> M.Z0 | M.Npos p -> M.Zneg p)
  else (match n_of_string s with M.N0 -> M.Z0 | M.Npos p -> M.Zpos p)

(* |z| as three limbs of 30, 30 and 4 bits, plus the sign *)
let limbs_of_pos p =
  let l = [| 0; 0; 0 |] in
  let rec go i = function
    | M.XH -> l.(i / 30) <- l.(i / 30) lor (1 lsl (i mod 30))
    | M.XO q -> go (i + 1) q
    | M.XI q -> l.(i / 30) <- l.(i / 30) lor (1 lsl (i mod 30)); go (i + 1) q in
  go 0 p; l
let limbs_of_z = function
  | M.Z0 -> ([| 0; 0; 0 |], false)
  | M.Zpos p -> (limbs_of_pos p, false)
  | M.Zneg p -> (limbs_of_pos p, true)
let hex_of_limbs l =
  (* value = l0 + l1 * 2^30 + l2 * 2^60, l2 < 16: print as upper-case hex without leading zeros *)
  let bits = Array.make 64 0 in
  for i = 0 to 63 do bits.(i) <- (l.(i / 30) lsr (i mod 30)) land 1 done;
  let b = Buffer.create 16 in
  let started = ref false in
  for d = 15 downto 0 do
    let v = bits.(4 * d) lor (bits.(4 * d + 1) lsl 1) lor (bits.(4 * d + 2) lsl 2) lor (bits.(4 * d + 3) lsl 3) in
    if v <> 0 || !started || d = 0 then begin started := true; Buffer.add_char b "0123456789ABCDEF".[v] end
  done;
  Buffer.contents b

let split_ws s = List.filter (fun x -> x <> "") (String.split_on_char ' ' s)

let parse_endian = function "be" -> M.BE | "le" -> M.LE | _ -> failwith "endian"
let parse_peek s =
  match String.split_on_char ':' s with
  | ["char"] -> M.PkChar | ["utf8"] -> M.PkUtf8 | ["uint8"] -> M.PkUint8
  | ["mask8"; m] -> M.PkMaskUint8 (n_of_string m)
  | ["uint"; w; e] -> M.PkUint (nat_of_int (int_of_string w), parse_endian e)
  | ["mask"; w; e; m] -> M.PkMaskUint (nat_of_int (int_of_string w), parse_endian e, n_of_string m)
  | ["utf16"; e] -> M.PkUtf16 (parse_endian e) | ["utf32"; e] -> M.PkUtf32 (parse_endian e)
  | _ -> failwith ("peek " ^ s)
let parse_head toks =
  match toks with
  | ["success"] -> M.HSuccess | ["failure"] -> M.HFailure
  | ["any"; pk] -> M.HAny (parse_peek pk)
  | "one" :: f :: pk :: cs -> M.HOne (f = "1", parse_peek pk, List.map z_of_string cs)
  | ["range"; f; pk; lo; hi] -> M.HRange (f = "1", parse_peek pk, z_of_string lo, z_of_string hi)
  | "ranges" :: pk :: cs -> M.HRanges (parse_peek pk, List.map z_of_string cs)
  | "string" :: cs -> M.HString (List.map n_of_string cs)
  | "istring" :: cs -> M.HIString (List.map n_of_string cs)
  | _ -> failwith ("untranslatable head: " ^ String.concat " " toks)

(* printing a head in the format of the compiler-side dump (used for the class table) *)
let string_of_z z =
  let (l, neg) = limbs_of_z z in
  (* class parameters are small: decimal through native ints *)
  (if neg then "-" else "") ^ string_of_int (l.(0) lor (l.(1) lsl 30))
let string_of_endian = function M.BE -> "be" | M.LE -> "le"
let string_of_peek = function
  | M.PkChar -> "char" | M.PkUtf8 -> "utf8" | M.PkUint8 -> "uint8"
  | M.PkMaskUint8 m -> "mask8:" ^ string_of_int (int_of_n m)
  | M.PkUint (w, e) -> Printf.sprintf "uint:%d:%s" (int_of_nat w) (string_of_endian e)
  | M.PkMaskUint (w, e, m) -> Printf.sprintf "mask:%d:%s:%d" (int_of_nat w) (string_of_endian e) (int_of_n m)
  | M.PkUtf16 e -> "utf16:" ^ string_of_endian e | M.PkUtf32 e -> "utf32:" ^ string_of_endian e
let string_of_head = function
  | M.HAny pk -> "any " ^ string_of_peek pk
  | M.HOne (f, pk, cs) -> String.concat " " ("one" :: (if f then "1" else "0") :: string_of_peek pk :: List.map string_of_z cs)
  | M.HRange (f, pk, lo, hi) -> String.concat " " ["range"; (if f then "1" else "0"); string_of_peek pk; string_of_z lo; string_of_z hi]
  | M.HRanges (pk, cs) -> String.concat " " ("ranges" :: string_of_peek pk :: List.map string_of_z cs)
  | _ -> "other"
let int_of_ascii (M.Ascii (b0, b1, b2, b3, b4, b5, b6, b7)) =
  let v b i = if b then 1 lsl i else 0 in
  v b0 0 + v b1 1 + v b2 2 + v b3 3 + v b4 4 + v b5 5 + v b6 6 + v b7 7
let rec ocaml_string = function
  | M.EmptyString -> ""
  | M.String (a, s) -> String.make 1 (Char.chr (int_of_ascii a)) ^ ocaml_string s

let peek_of_head = function
  | M.HAny pk | M.HOne (_, pk, _) | M.HRange (_, pk, _, _) | M.HRanges (pk, _) -> Some pk
  | _ -> None

(* ------------------------------------------------------------------ observation *)
type obs = { ok : int; consumed : int; psize : int; limbs : int array; neg : bool; bad : string }

let nbyte = Array.init 256 n_of_int
let pos0 = { M.pbyte = M.N0; M.pline = n_of_int 1; M.pcol = n_of_int 1 }
let zero_limbs = [| 0; 0; 0 |]

let observe (h, pk) (cur : M.cursor) len =
  let (ok, consumed, bad) =
    match M.eval_atom M.EolLfCrlf h cur with
    | Some (M.Res (M.Ok, c', _)) -> (1, len - List.length c'.M.rest, "")
    | Some (M.Res (M.Fail, c', _)) -> (0, len - List.length c'.M.rest, "")
    | Some (M.Res (M.Exc _, _, _)) -> (0, 0, "EXC")
    | Some M.Err -> (0, 0, "ERR")
    | Some M.Oof -> (0, 0, "OOF")
    | None -> (0, 0, "NOATOM") in
  match pk with
  | None -> { ok; consumed; psize = 0; limbs = zero_limbs; neg = false; bad }
  | Some pk ->
    (match M.do_peek pk cur with
     | M.PNone -> { ok; consumed; psize = 0; limbs = zero_limbs; neg = false; bad }
     | M.PSome (z, n) -> let (l, neg) = limbs_of_z z in { ok; consumed; psize = int_of_nat n; limbs = l; neg; bad }
     | M.POob -> { ok; consumed; psize = 0; limbs = zero_limbs; neg = false; bad = bad ^ "OOB" })

(* ------------------------------------------------------------------ digest *)
let m1 = 2147483647 and m2 = 2147483629
type digest = { mutable k : int; mutable d1 : int; mutable d2 : int; mutable cases : int; mutable nonzero : int; mutable bad : int }
let word dg w =
  dg.k <- dg.k + 1;
  if w <> 0 then begin
    dg.d1 <- (dg.d1 + (dg.k mod m1) * (w mod m1)) mod m1;
    dg.d2 <- (dg.d2 + (dg.k mod m2) * (w mod m2)) mod m2
  end
let record dg o =
  let w0 = o.ok lor (o.consumed lsl 1) lor (o.psize lsl 6) in
  word dg w0; word dg o.limbs.(0); word dg o.limbs.(1); word dg (o.limbs.(2) lor (if o.neg then 16 else 0));
  if w0 <> 0 || o.limbs.(0) <> 0 || o.limbs.(1) <> 0 || o.limbs.(2) <> 0 then dg.nonzero <- dg.nonzero + 1;
  if o.bad <> "" then begin dg.bad <- dg.bad + 1; word dg 999 end

let unhex s =
  if s = "-" then [||] else Array.init (String.length s / 2) (fun i -> int_of_string ("0x" ^ String.sub s (2 * i) 2))
let tohex a =
  if Array.length a = 0 then "-" else String.concat "" (Array.to_list (Array.map (Printf.sprintf "%02X") a))

let read_lines path =
  let ic = open_in path in
  let rec go acc = match input_line ic with l -> go (l :: acc) | exception End_of_file -> close_in ic; List.rev acc in
  go []

let () =
  let args = List.tl (Array.to_list Sys.argv) in
  if args = ["--classes"] then begin
    List.iteri (fun i ((name, h), _doc) -> Printf.printf "CLASS %d %s | %s\n" i (ocaml_string name) (string_of_head h)) M.class_table;
    exit 0
  end;
  let verbose = List.mem "-v" args in
  let (rulesfile, specfile) = match List.filter (fun a -> a <> "-v") args with [a; b] -> (a, b) | _ -> failwith "usage" in
  (* family -> array of (head, peek) parsed from the compiler's dump *)
  let fams = Hashtbl.create 16 in
  List.iter (fun l ->
      if String.length l > 5 && String.sub l 0 5 = "RULE " then begin
        let bar = String.rindex l '|' in
        let left = split_ws (String.sub l 0 bar) and right = split_ws (String.sub l (bar + 1) (String.length l - bar - 1)) in
        let fam = List.nth left 1 in
        let h = parse_head right in
        let cur = try Hashtbl.find fams fam with Not_found -> [] in
        Hashtbl.replace fams fam ((h, peek_of_head h) :: cur)
      end) (read_lines rulesfile);
  let fam_rules f = Array.of_list (List.rev (try Hashtbl.find fams f with Not_found -> failwith ("family " ^ f))) in
  List.iteri (fun specidx line ->
      if line <> "" then begin
        let toks = split_ws line in
        let family = List.nth toks 0 and rulesel = List.nth toks 1 and kind = List.nth toks 2 in
        let all = fam_rules family in
        let sel = if rulesel = "all" then all
          else Array.of_list (List.map (fun s -> all.(int_of_string s)) (String.split_on_char ',' rulesel)) in
        let dg = { k = 0; d1 = 0; d2 = 0; cases = 0; nonzero = 0; bad = 0 } in
        if verbose then Printf.printf "S %d %s\n" specidx line;
        let one_case (bytes : int array) =
          let len = Array.length bytes in
          let rest = Array.fold_right (fun b acc -> nbyte.(b) :: acc) bytes [] in
          let cur = { M.rest = rest; M.cpos = pos0 } in
          dg.cases <- dg.cases + 1;
          if verbose then begin
            let b = Buffer.create 64 in
            Buffer.add_string b ("C " ^ tohex bytes);
            Array.iter (fun r ->
                let o = observe r cur len in
                Buffer.add_string b (Printf.sprintf " %d:%d:%d:%s%s%s" o.ok o.consumed o.psize (if o.neg then "-" else "") (hex_of_limbs o.limbs) o.bad)) sel;
            print_endline (Buffer.contents b)
          end else
            Array.iter (fun r -> record dg (observe r cur len)) sel in
        (match kind with
         | "pp" ->
           let al = Array.of_list (List.map (fun alpha ->
               if alpha = "all" then Array.init 256 (fun i -> i) else unhex (String.sub alpha 4 (String.length alpha - 4)))
               (List.tl (List.tl (List.tl toks)))) in
           let len = Array.length al in
           let bytes = Array.init len (fun i -> al.(i).(0)) in
           let ix = Array.make len 0 in
           let fin = ref false in
           while not !fin do
             one_case bytes;
             let p = ref len and stop = ref false in
             while not !stop do
               if !p = 0 then begin fin := true; stop := true end
               else begin
                 decr p;
                 ix.(!p) <- ix.(!p) + 1;
                 if ix.(!p) < Array.length al.(!p) then begin bytes.(!p) <- al.(!p).(ix.(!p)); stop := true end
                 else begin ix.(!p) <- 0; bytes.(!p) <- al.(!p).(0) end
               end
             done
           done
         | "file" ->
           List.iter (fun cl -> if cl <> "" then one_case (unhex cl)) (read_lines (List.nth toks 3))
         | _ -> failwith ("spec kind " ^ kind));
        if not verbose then Printf.printf "D %d %d %d %d %d %d\n" specidx dg.cases dg.nonzero dg.d1 dg.d2 dg.bad
      end) (read_lines specfile);
  if verbose then print_endline "OOB 0"
