(* contrib_driver.ml — model side of the Contrib correspondence: runs the extracted Coq models of
   contrib/rep_one_min_max.hpp, contrib/predicates.hpp and the http chunk rules (Contrib_model, from
   ExtractContrib.v) on the case file that is also fed to harness/contrib_impl.cpp and prints the
   same line format (see the header of contrib_impl.cpp).
   MODE M runs the model with the size answers of memory_input (everything that is left),
   MODE B with the smallest answers a buffer input may give (min( amount, left )).
   Hand-written glue (trusted): case parsing, predicate-term parsing, number conversion, printing. *)
open Contrib_model

let rec nat_of_int n = if n <= 0 then O else S (nat_of_int (n - 1))
let rec pos_of_int n = if n = 1 then XH else if n land 1 = 0 then XO (pos_of_int (n lsr 1)) else XI (pos_of_int (n lsr 1))
let n_of_int n = if n = 0 then N0 else Npos (pos_of_int n)
let z_of_int n = if n = 0 then Z0 else if n > 0 then Zpos (pos_of_int n) else Zneg (pos_of_int (- n))
let n_of_string s =
  let ten = n_of_int 10 in
  let acc = ref N0 in
  String.iter (fun ch -> acc := N.add (N.mul !acc ten) (n_of_int (Char.code ch - 48))) s; !acc

(* decimal printing of a positive: little-endian digit lists, doubling *)
let rec dbl carry = function
  | [] -> if carry = 0 then [] else [carry]
  | d :: tl -> let x = 2 * d + carry in (x mod 10) :: dbl (x / 10) tl
let rec digits_of_pos = function
  | XH -> [1]
  | XO p -> dbl 0 (digits_of_pos p)
  | XI p -> dbl 1 (digits_of_pos p)
let string_of_pos p = String.concat "" (List.rev_map string_of_int (digits_of_pos p))
let string_of_n = function N0 -> "0" | Npos p -> string_of_pos p

let unhex s =
  if s = "-" then []
  else List.init (String.length s / 2) (fun i -> n_of_int (int_of_string ("0x" ^ String.sub s (2 * i) 2)))

let show_pos p = string_of_n p.pbyte ^ ":" ^ string_of_n p.pline ^ ":" ^ string_of_n p.pcol

let show = function
  | Res (Ok, c, _) -> "T " ^ show_pos c.cpos
  | Res (Fail, c, _) -> "F " ^ show_pos c.cpos
  | Res (Exc _, c, _) -> "X " ^ show_pos c.cpos
  | Oof -> "OOF"
  | Err -> "OOB"

(* predicate terms: one(f,c,...) range(f,lo,hi) ranges(c,...) and(t,...) or(t,...) not(t) *)
exception Bad_term of string
let parse_term (s : string) : pred =
  let n = String.length s in
  let i = ref 0 in
  let peekc () = if !i < n then s.[!i] else '\000' in
  let ident () =
    let st = !i in
    while !i < n && (match s.[!i] with 'a' .. 'z' -> true | _ -> false) do incr i done;
    String.sub s st (!i - st) in
  let number () =
    let st = !i in
    if peekc () = '-' then incr i;
    while !i < n && (match s.[!i] with '0' .. '9' -> true | _ -> false) do incr i done;
    if !i = st then raise (Bad_term s);
    int_of_string (String.sub s st (!i - st)) in
  let expect ch = if peekc () = ch then incr i else raise (Bad_term s) in
  let rec list_of item =
    let x = item () in
    if peekc () = ',' then (incr i; x :: list_of item) else [x] in
  let rec term () =
    let id = ident () in
    expect '(';
    let r =
      match id with
      | "one" -> (match list_of number with
                  | f :: cs -> POne (f <> 0, List.map z_of_int cs)
                  | [] -> raise (Bad_term s))
      | "range" -> (match list_of number with
                    | [f; lo; hi] -> PRange (f <> 0, z_of_int lo, z_of_int hi)
                    | _ -> raise (Bad_term s))
      | "ranges" -> PRanges (List.map z_of_int (list_of number))
      | "and" -> PAnd (list_of term)
      | "or" -> POr (list_of term)
      | "not" -> (match list_of term with [t] -> PNot t | _ -> raise (Bad_term s))
      | _ -> raise (Bad_term s) in
    expect ')';
    r in
  let t = term () in
  if !i <> n then raise (Bad_term s);
  t

let eol_ch = function "cr" -> n_of_int 13 | _ -> n_of_int 10
let cursor hex = { rest = unhex hex; cpos = pos0 }
let szf mode = if mode = "M" then sz_mem else sz_min
let avail mode amount c = if mode = "M" then in_size c else avail_min amount c

let run_case = function
  | ["ROM"; mn; mx; cv; eol; mode; hex] ->
      let c = cursor hex in
      let mxn = nat_of_int (int_of_string mx) in
      show (rep_one_min_max (nat_of_int (int_of_string mn)) mxn (n_of_int (int_of_string cv)) (eol_ch eol)
              (avail mode (N.of_nat (S mxn)) c) c)
  | ["PRD"; _; pk; term; eol; mode; hex] ->
      let c = cursor hex in
      let pk = (match pk with "char" -> PkChar | "utf8" -> PkUtf8 | _ -> raise (Bad_term pk)) in
      show (predicates (eol_ch eol) pk (parse_term term) c)
  | ["CSZ"; mode; hex] ->
      let c = cursor hex in
      (match chunk_size (szf mode c) c with
       | (Err, _) -> "OOB"
       | (r, size) -> show r ^ " " ^ string_of_n size)
  | ["CDT"; size; eol; mode; hex] ->
      let c = cursor hex in
      let sz = n_of_string size in
      show (chunk_data (eol_ch eol) (avail mode sz c) sz c)
  | ["CHK"; m; eol; mode; hex] ->
      let c = cursor hex in
      (match http_chunk_noext (m = "R") (eol_ch eol) (szf mode) c with
       | CkRes (r, _) -> show r
       | CkExt -> "EXT")
  | ["CBD"; _; _] -> "-"
  | [] -> ""
  | _ -> "BAD-CASE-LINE"

let () =
  let ic = open_in Sys.argv.(1) in
  let out = Buffer.create (1 lsl 16) in
  (try
     while true do
       let line = input_line ic in
       let toks = List.filter (fun x -> x <> "") (String.split_on_char ' ' line) in
       if toks <> [] then begin
         Buffer.add_string out (try run_case toks with Bad_term t -> "BAD-TERM " ^ t);
         Buffer.add_char out '\n'
       end;
       if Buffer.length out > (1 lsl 16) then (print_string (Buffer.contents out); Buffer.clear out)
     done
   with End_of_file -> ());
  print_string (Buffer.contents out)
