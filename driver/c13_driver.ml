(* c13_driver.ml — applies the extracted scope checker (StateScope.accepts, C13) to event logs of the
   IMPLEMENTATION.  argv.(1): table dump (NODE / ACT lines as printed by harness/vharness.hpp),
   argv.(2): logs, one per line:  LOG <tag> <fam> <ctl> <A> <events|->  .  Prints  VERDICT <tag> OK | REJ <index|end>.
   Hand-written glue (trusted): table parsing (copied from engine_driver.ml), event parsing.  The state events of the
   implementation carry instance numbers, not rule ids: the rule of a block is taken to be the rule of the innermost
   open invocation at its construction (so the checker's "attached rule" test is about that rule). *)
open C13_model

let rec nat_of_int n = if n <= 0 then O else S (nat_of_int (n - 1))
let rec int_of_nat = function O -> 0 | S n -> 1 + int_of_nat n
let rec pos_of_int n = if n = 1 then XH else if n land 1 = 0 then XO (pos_of_int (n lsr 1)) else XI (pos_of_int (n lsr 1))
let n_of_int n = if n = 0 then N0 else Npos (pos_of_int n)
let n_of_string s =
  let ten = n_of_int 10 in
  let acc = ref N0 in
  String.iter (fun ch -> acc := N.add (N.mul !acc ten) (n_of_int (Char.code ch - 48))) s; !acc
let z_of_string s =
  if String.length s > 0 && s.[0] = '-' then
    (match n_of_string (String.sub s 1 (String.length s - 1)) with N0 -> Z0 | Npos p -> Zneg p)
  else (match n_of_string s with N0 -> Z0 | Npos p -> Zpos p)
let split_ws s = List.filter (fun x -> x <> "") (String.split_on_char ' ' s)
let nats l = List.map (fun s -> nat_of_int (int_of_string s)) l

(* only the constructor matters to the checker; value arguments of atoms are irrelevant and dropped *)
let parse_head toks =
  match toks with
  | ["seq"] -> HSeq | ["sor"] -> HSor | ["star_partial"] -> HStarPartial | ["plus"] -> HPlus | ["partial"] -> HPartial
  | ["at"] -> HAt | ["not_at"] -> HNotAt | ["until1"] -> HUntil1 | ["until2"] -> HUntil2
  | ["rep"; n] -> HRep (nat_of_int (int_of_string n))
  | ["rep_min_max"; a; b] -> HRepMinMax (nat_of_int (int_of_string a), nat_of_int (int_of_string b))
  | ["rep_opt"; n] -> HRepOpt (nat_of_int (int_of_string n))
  | ["if_then_else"] -> HIfThenElse | ["if_must"; d] -> HIfMust (d = "1") | ["must"] -> HMust | ["raise"] -> HRaise
  | ["strict"] -> HStrict | ["star_strict"] -> HStarStrict | ["rematch"] -> HRematch
  | "try_catch_false" :: _ -> HTryCatchFalse FAny | "try_catch_nested" :: _ -> HTryCatchNested FAny
  | ["state"; _] -> HState
  | ["action"; f] -> HAction (nat_of_int (int_of_string f)) | ["control"; c] -> HControl (nat_of_int (int_of_string c))
  | ["enable"] -> HEnable | ["disable"] -> HDisable
  | "apply" :: l -> HApply (nats l) | "apply0" :: l -> HApply0 (nats l) | "if_apply" :: l -> HIfApply (nats l)
  | _ -> HSuccess          (* atoms: no sub-rules, no events of their own *)

let parse_act toks =
  let i s = nat_of_int (int_of_string s) in
  match toks with
  | ["change_state"] -> AKMatch MChangeState
  | ["change_action"; f] -> AKMatch (MChangeAction (i f))
  | ["change_action_and_state"; f] -> AKMatch (MChangeActionAndState (i f))
  | ["change_control"; c] -> AKMatch (MChangeControl (i c))
  | ["enable_action"] -> AKMatch MEnableAction | ["disable_action"] -> AKMatch MDisableAction
  | ["limit_depth"; n] -> AKMatch (MLimitDepth (i n)) | ["limit_bytes"; n] -> AKMatch (MLimitBytes (i n)) | ["check_bytes"; n] -> AKMatch (MCheckBytes (i n))
  | "apply" :: _ -> AKApply false | "apply0" :: _ -> AKApply0 false
  | _ -> AKNone

let () =
  let dumpfile = Sys.argv.(1) and logfile = Sys.argv.(2) in
  let nodes = Hashtbl.create 100 and custom = Hashtbl.create 100 in
  let ic = open_in dumpfile in
  (try while true do
    let l = input_line ic in
    if String.length l > 5 && String.sub l 0 5 = "NODE " then begin
      let body = String.sub l 5 (String.length l - 5) in
      match String.index_opt body '|' with
      | Some k ->
        let a = String.sub body 0 k and h = String.sub body (k + 1) (String.length body - k - 1) in
        (match split_ws a with
         | id :: en :: _nm :: _n :: subs ->
           Hashtbl.replace nodes (int_of_string id) { nhead = parse_head (split_ws h); nsubs = nats subs; nenabled = (en = "1") }
         | _ -> failwith "bad node")
      | None -> failwith "bad node line"
    end else if String.length l > 4 && String.sub l 0 4 = "ACT " then begin
      match split_ws (String.sub l 4 (String.length l - 4)) with
      | fam :: r :: toks -> Hashtbl.replace custom (int_of_string fam, int_of_string r) (parse_act toks)
      | _ -> failwith "bad act"
    end
  done with End_of_file -> ());
  close_in ic;
  let n = Hashtbl.fold (fun k _ m -> max m (k + 1)) nodes 0 in
  let g = List.init n (fun i -> try Hashtbl.find nodes i with Not_found -> { nhead = HOpaque; nsubs = []; nenabled = false }) in
  let c = { ceol = EolLfCrlf;
            acts = (fun fam r -> match Hashtbl.find_opt custom (int_of_nat fam, int_of_nat r) with Some k -> k | None -> AKNone);
            abeh = (fun _ _ _ _ -> ARet true); ibeh = (fun _ _ _ -> ARet true);
            has_unwind = (fun _ -> true); raise_on_failure = (fun _ _ -> false) } in
  let mkp b l cc = { pbyte = n_of_int b; pline = n_of_int l; pcol = n_of_int cc } in
  let ic = open_in logfile in
  (try while true do
    let l = input_line ic in
    match split_ws l with
    | ["LOG"; tag; fam; ctl; a; evs] ->
      let rstack = ref [] and bstack = ref [] in
      let conv s =
        if s = "" then None else begin
          let k = s.[0] in
          let nums = List.map int_of_string (List.filter (fun x -> x <> "") (String.split_on_char ',' (String.sub s 1 (String.length s - 1)))) in
          let nt = nat_of_int in
          match k, nums with
          | 'B', [ctl; r; a; m; b; l; cc] -> rstack := r :: !rstack; Some (EEnter (nt ctl, nt r, a = 1, m = 1, mkp b l cc))
          | 'E', [ctl; r; res; b; l; cc] ->
            (match !rstack with _ :: tl -> rstack := tl | [] -> ());
            Some (EExit (nt ctl, nt r, (match res with 1 -> Some true | 0 -> Some false | _ -> None), mkp b l cc))
          | ('S' | 'O' | 'F' | 'U'), [ctl; r; b; l; cc] ->
            let h = match k with 'S' -> HkStart | 'O' -> HkSuccess | 'F' -> HkFailure | _ -> HkUnwind in
            Some (EHook (h, nt ctl, nt r, mkp b l cc))
          | 'R', [ctl; w; b; l; cc] -> Some (ERaise (nt ctl, (if w < 0 then WLimitDepth else WRule (nt w)), mkp b l cc))
          | 'G', [ctl; r; b; l; cc] -> Some (ERaiseNested (nt ctl, nt r, mkp b l cc))
          | 'A', [fam; r; bb; bl; bc; eb; el; ec; _inst] -> Some (EApply (nt fam, nt r, mkp bb bl bc, mkp eb el ec))
          | 'Z', [fam; r; _inst] -> Some (EApply0 (nt fam, nt r, mkp 0 1 1))
          | 'I', [k; bb; bl; bc; eb; el; ec] -> Some (EInline (nt k, mkp bb bl bc, mkp eb el ec))
          | 'J', [k] -> Some (EInline0 (nt k))
          | 'N', [inst; _outer; b; l; cc] ->
            let r = match !rstack with r :: _ -> r | [] -> 0 in
            bstack := (inst, r) :: !bstack; Some (EStNew (nt r, mkp b l cc))
          | 'Y', [inst; _outer; b; l; cc] ->
            let r = try List.assoc inst !bstack with Not_found -> 0 in
            Some (EStSuccess (nt r, mkp b l cc))
          | 'D', [inst] ->
            let r = try List.assoc inst !bstack with Not_found -> 0 in
            bstack := List.filter (fun (i, _) -> i <> inst) !bstack;
            Some (EStDrop (nt r))
          | _ -> failwith ("bad event " ^ s)
        end in
      let events = if evs = "-" then [] else List.filter_map conv (String.split_on_char ';' evs) in
      let v = { vA = (a = "1"); vAct = nat_of_int (int_of_string fam); vCtl = nat_of_int (int_of_string ctl) } in
      if accepts g c v events then Printf.printf "VERDICT %s OK\n" tag
      else (match first_reject g c None [FRoot v] events O with
            | Some i -> Printf.printf "VERDICT %s REJ %d\n" tag (int_of_nat i)
            | None -> Printf.printf "VERDICT %s REJ end\n" tag)
    | _ -> ()
  done with End_of_file -> ());
  close_in ic
