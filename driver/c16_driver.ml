(* c16_driver.ml — model side of the C16 (raw_string) correspondence: runs the extracted Coq model
   (C16_model.raw_string / raw_string_rule) and prints exactly the line format of
   harness/c16_impl.cpp for the same rules, eol policies and inputs.
   Hand-written glue (trusted): enumeration, number conversion, printing.

     c16_driver enum <rule> <maxlen> <prefix>
     c16_driver file <path>                                                               *)
open C16_model

let rec nat_of_int n = if n <= 0 then O else S (nat_of_int (n - 1))
let rec pos_of_int n = if n = 1 then XH else if n land 1 = 0 then XO (pos_of_int (n lsr 1)) else XI (pos_of_int (n lsr 1))
let n_of_int n = if n = 0 then N0 else Npos (pos_of_int n)
let rec int_of_pos = function XH -> 1 | XO p -> 2 * int_of_pos p | XI p -> 2 * int_of_pos p + 1
let int_of_n = function N0 -> 0 | Npos p -> int_of_pos p

(* rule table: must list the same instantiations as c16_impl.cpp *)
type contents = CNone | CAny | CNotX | CBytes2
let rules = [|
  ('[', '=', ']', CNone);
  ('<', '-', '>', CNone);
  ('(', '*', ')', CNone);
  ('|', '=', '|', CNone);
  ('[', '=', ']', CAny);
  ('[', '=', ']', CNotX);
  ('[', '=', ']', CBytes2);
  ('{', '#', '#', CNone) |]
let nrules = Array.length rules
let eols = [| EolLf; EolCr; EolCrlf; EolLfCrlf; EolCrCrlf |]

let alphabet_of r =
  let (o, m, c, _) = rules.(r) in
  let b = Buffer.create 6 in
  List.iter (fun ch -> if not (String.contains (Buffer.contents b) ch) then Buffer.add_char b ch) [o; m; c; '\n'; '\r'; 'x'];
  Buffer.contents b

let byte_tab = Array.init 256 n_of_int

let pos_str (p : pos) = Printf.sprintf "%d.%d.%d" (int_of_n p.pbyte) (int_of_n p.pline) (int_of_n p.pcol)

let run1 r e (bytes : byte list) fuel has_apply required (out : Buffer.t) =
  let (o, m, c, k) = rules.(r) in
  let o = byte_tab.(Char.code o) and m = byte_tab.(Char.code m) and c = byte_tab.(Char.code c) in
  let cur = start bytes in
  let res =
    match k with
    | CNone -> raw_string o m c e has_apply required cur
    | CAny -> raw_string_rule o m c e (cr_any e) fuel has_apply required cur
    | CNotX -> raw_string_rule o m c e (cr_not_one e byte_tab.(Char.code 'x')) fuel has_apply required cur
    | CBytes2 -> raw_string_rule o m c e (cr_bytes e (S (S O))) fuel has_apply required cur in
  match res with
  | RsOk (fin, cb, ce) ->
      let p = fin.cpos in
      Buffer.add_string out (Printf.sprintf " 1,%d,%d,%d," (int_of_n p.pbyte) (int_of_n p.pline) (int_of_n p.pcol));
      if has_apply then Buffer.add_string out (Printf.sprintf "C%s-%s" (pos_str cb.cpos) (pos_str ce.cpos))
      else Buffer.add_char out '-'
  | RsFail cur' ->
      let p = cur'.cpos in
      Buffer.add_string out (Printf.sprintf " 0,%d,%d,%d,-" (int_of_n p.pbyte) (int_of_n p.pline) (int_of_n p.pcol))
  | RsOob -> Buffer.add_string out " OOB"
  | RsOof -> Buffer.add_string out " OOF"

let trivial = " 0,0,1,1,- 0,0,1,1,- 0,0,1,1,- 0,0,1,1,-"
let n_total = ref 0
let n_trivial = ref 0

let run_case r (s : string) suppress =
  let bytes = List.init (String.length s) (fun i -> byte_tab.(Char.code s.[i])) in
  let fuel = nat_of_int (String.length s + 1) in
  let out = Buffer.create 128 in
  Array.iteri (fun eo e ->
    Buffer.clear out;
    run1 r e bytes fuel true true out;
    run1 r e bytes fuel false true out;
    run1 r e bytes fuel true false out;
    run1 r e bytes fuel false false out;
    incr n_total;
    let o = Buffer.contents out in
    if suppress && o = trivial then incr n_trivial
    else begin
      let hex = Buffer.create 32 in
      Buffer.add_char hex 'h';
      String.iter (fun ch -> Buffer.add_string hex (Printf.sprintf "%02x" (Char.code ch))) s;
      print_string (Printf.sprintf "%d %d %s%s\n" r eo (Buffer.contents hex) o)
    end) eols

(* all strings over the rule's alphabet that start with the given prefix (a string of alphabet
   indices, "-" = empty prefix) and have length <= maxlen; same order as c16_impl.cpp *)
let enumerate r maxlen prefix_arg =
  let alpha = alphabet_of r in
  let k = String.length alpha in
  let prefix = if prefix_arg = "-" then [||] else Array.init (String.length prefix_arg) (fun i -> Char.code prefix_arg.[i] - 48) in
  if Array.for_all (fun d -> d >= 0 && d < k) prefix then begin
    let lowest = Array.length prefix in
    for len = lowest to maxlen do
      let idx = Array.make len 0 in
      Array.blit prefix 0 idx 0 lowest;
      let s = Bytes.make len ' ' in
      let continue = ref true in
      while !continue do
        for i = 0 to len - 1 do Bytes.set s i alpha.[idx.(i)] done;
        run_case r (Bytes.to_string s) true;
        let p = ref (len - 1) in
        let carry = ref true in
        while !carry && !p >= lowest do
          idx.(!p) <- idx.(!p) + 1;
          if idx.(!p) < k then carry := false
          else begin idx.(!p) <- 0; decr p end
        done;
        if !carry then continue := false
      done
    done
  end

let unhex_line line =
  let b = Buffer.create 64 in
  let hv ch = match ch with '0'..'9' -> Char.code ch - 48 | 'a'..'f' -> Char.code ch - 87 | _ -> -1 in
  let i = ref 0 in
  (try
    while !i + 1 < String.length line do
      let a = hv line.[!i] and c = hv line.[!i + 1] in
      if a < 0 || c < 0 then raise Exit;
      Buffer.add_char b (Char.chr (a * 16 + c));
      i := !i + 2
    done
  with Exit -> ());
  Buffer.contents b

let () =
  match Array.to_list Sys.argv with
  | [_; "enum"; r; l; f] ->
      enumerate (int_of_string r) (int_of_string l) f;
      Printf.printf "total=%d trivial=%d\n" !n_total !n_trivial
  | [_; "file"; path] ->
      let ic = open_in path in
      (try
        while true do
          let line = input_line ic in
          let s = unhex_line line in
          for r = 0 to nrules - 1 do run_case r s false done
        done
      with End_of_file -> close_in ic);
      Printf.printf "total=%d trivial=%d\n" !n_total !n_trivial
  | _ -> prerr_endline "usage: c16_driver enum <rule> <maxlen> <prefix> | file <path>"; exit 2
