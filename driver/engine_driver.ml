(* engine_driver.ml — runs the extracted Coq engine (Pegtlv.eval) on the tables and cases that the
   C++ harness printed, and prints RUN lines in the same format for line-by-line comparison.
   Hand-written glue (trusted): table parsing, the deterministic action behaviours mirrored from
   harness/vharness.hpp, event printing. *)
open Pegtlv

let rec nat_of_int n = if n <= 0 then O else S (nat_of_int (n - 1))
let rec int_of_nat = function O -> 0 | S n -> 1 + int_of_nat n
let rec pos_of_int n = if n = 1 then XH else if n land 1 = 0 then XO (pos_of_int (n lsr 1)) else XI (pos_of_int (n lsr 1))
let n_of_int n = if n = 0 then N0 else Npos (pos_of_int n)
let rec int_of_pos = function XH -> 1 | XO p -> 2 * int_of_pos p | XI p -> 2 * int_of_pos p + 1
let int_of_n = function N0 -> 0 | Npos p -> int_of_pos p
(* decimal strings up to 2^64 -> N / Z without overflow: go through Z arithmetic on digits *)
let n_of_string s =
  let ten = n_of_int 10 in
  let acc = ref N0 in
  String.iter (fun ch -> acc := N.add (N.mul !acc ten) (n_of_int (Char.code ch - 48))) s; !acc
let z_of_string s =
  if String.length s > 0 && s.[0] = '-' then
    (match n_of_string (String.sub s 1 (String.length s - 1)) with N0 -> Z0 | Npos p -> Zneg p)
  else (match n_of_string s with N0 -> Z0 | Npos p -> Zpos p)

let split_ws s = List.filter (fun x -> x <> "") (String.split_on_char ' ' s)
let unhex s = if s = "-" then "" else String.init (String.length s / 2) (fun i -> Char.chr (int_of_string ("0x" ^ String.sub s (2 * i) 2)))

let parse_endian = function "be" -> BE | "le" -> LE | _ -> failwith "endian"
let parse_peek s =
  match String.split_on_char ':' s with
  | ["char"] -> PkChar | ["utf8"] -> PkUtf8 | ["uint8"] -> PkUint8
  | ["mask8"; m] -> PkMaskUint8 (n_of_string m)
  | ["uint"; w; e] -> PkUint (nat_of_int (int_of_string w), parse_endian e)
  | ["mask"; w; e; m] -> PkMaskUint (nat_of_int (int_of_string w), parse_endian e, n_of_string m)
  | ["utf16"; e] -> PkUtf16 (parse_endian e) | ["utf32"; e] -> PkUtf32 (parse_endian e)
  | _ -> failwith ("peek " ^ s)
let parse_filter s =
  match String.split_on_char ':' s with
  | ["any"] -> FAny | ["std"] -> FStd | ["parse"] -> FParse | ["type"; t] -> FType (n_of_string t)
  | _ -> failwith ("filter " ^ s)
let nats l = List.map (fun s -> nat_of_int (int_of_string s)) l
let parse_head toks =
  match toks with
  | ["success"] -> HSuccess | ["failure"] -> HFailure | ["eof"] -> HEof | ["eol"] -> HEol | ["eolf"] -> HEolf
  | ["bof"] -> HBof | ["bol"] -> HBol | ["everything"] -> HEverything | ["discard"] -> HDiscard | ["opaque"] -> HOpaque
  | ["any"; pk] -> HAny (parse_peek pk)
  | "one" :: f :: pk :: cs -> HOne (f = "1", parse_peek pk, List.map z_of_string cs)
  | ["range"; f; pk; lo; hi] -> HRange (f = "1", parse_peek pk, z_of_string lo, z_of_string hi)
  | "ranges" :: pk :: cs -> HRanges (parse_peek pk, List.map z_of_string cs)
  | "string" :: cs -> HString (List.map n_of_string cs)
  | "istring" :: cs -> HIString (List.map n_of_string cs)
  | ["bytes"; n] -> HBytes (nat_of_int (int_of_string n)) | ["require"; n] -> HRequire (nat_of_int (int_of_string n))
  | ["seq"] -> HSeq | ["sor"] -> HSor | ["star_partial"] -> HStarPartial | ["plus"] -> HPlus | ["partial"] -> HPartial
  | ["at"] -> HAt | ["not_at"] -> HNotAt | ["until1"] -> HUntil1 | ["until2"] -> HUntil2
  | ["rep"; n] -> HRep (nat_of_int (int_of_string n))
  | ["rep_min_max"; a; b] -> HRepMinMax (nat_of_int (int_of_string a), nat_of_int (int_of_string b))
  | ["rep_opt"; n] -> HRepOpt (nat_of_int (int_of_string n))
  | ["if_then_else"] -> HIfThenElse | ["if_must"; d] -> HIfMust (d = "1") | ["must"] -> HMust | ["raise"] -> HRaise
  | ["strict"] -> HStrict | ["star_strict"] -> HStarStrict | ["rematch"] -> HRematch
  | ["try_catch_false"; f] -> HTryCatchFalse (parse_filter f) | ["try_catch_nested"; f] -> HTryCatchNested (parse_filter f)
  | ["state"; _] -> HState
  | ["action"; f] -> HAction (nat_of_int (int_of_string f)) | ["control"; c] -> HControl (nat_of_int (int_of_string c))
  | ["enable"] -> HEnable | ["disable"] -> HDisable
  | "apply" :: l -> HApply (nats l) | "apply0" :: l -> HApply0 (nats l) | "if_apply" :: l -> HIfApply (nats l)
  | _ -> failwith ("untranslatable head: " ^ String.concat " " toks)

(* deterministic behaviours, mirrored from vharness.hpp (arithmetic on unsigned 32-bit there; values here stay tiny) *)
let veto_pred r b e = ((r * 7 + b * 3 + e * 5) mod 4) <> 0
let veto0_pred r = (r mod 3) <> 0
let throw_pred r b e = ((r * 5 + b * 7 + e * 3) mod 5) = 0
let ipred b e = ((b * 3 + e * 5) mod 3) <> 0
let ithrow b e = ((b + e) mod 4) = 3
let ipred3 b e = ((b + e) mod 2) <> 0

type beh = BNone | BApplyVoid | BApply0Void | BApplyBool | BApply0Bool | BThrowStd | BThrowForeign | BMatch of mkind

let fam_default fam named =
  match fam with
  | 0 -> BNone | 1 -> BApplyVoid | 2 -> BApply0Void | 3 -> BApplyBool | 4 -> BApply0Bool | 5 -> BThrowStd | 6 -> BThrowForeign
  | 7 -> if named then BApplyVoid else BNone
  | 8 -> if named then BApplyBool else BNone
  | _ -> BNone

let parse_act toks =
  let i s = nat_of_int (int_of_string s) in
  match toks with
  | ["none"] -> BNone
  | ["apply"; "void"; _] -> BApplyVoid | ["apply0"; "void"; _] -> BApply0Void
  | ["apply"; "bool"; _] -> BApplyBool | ["apply0"; "bool"; _] -> BApply0Bool
  | ["apply"; "throwstd"; _] -> BThrowStd | ["apply"; "throwforeign"; _] -> BThrowForeign
  | ["change_state"] -> BMatch MChangeState
  | ["change_action"; f] -> BMatch (MChangeAction (i f))
  | ["change_action_and_state"; f] -> BMatch (MChangeActionAndState (i f))
  | ["change_control"; c] -> BMatch (MChangeControl (i c))
  | ["enable_action"] -> BMatch MEnableAction | ["disable_action"] -> BMatch MDisableAction
  | ["limit_depth"; n] -> BMatch (MLimitDepth (i n)) | ["limit_bytes"; n] -> BMatch (MLimitBytes (i n)) | ["check_bytes"; n] -> BMatch (MCheckBytes (i n))
  | _ -> failwith ("act " ^ String.concat " " toks)


(* ---------- surface S-expressions (spec side only) ---------- *)
type tok = LP | RP | Atom of string
let tokenize s =
  let toks = ref [] and buf = Buffer.create 16 in
  let flush () = if Buffer.length buf > 0 then (toks := Atom (Buffer.contents buf) :: !toks; Buffer.clear buf) in
  String.iter (fun ch -> match ch with
    | '(' -> flush (); toks := LP :: !toks
    | ')' -> flush (); toks := RP :: !toks
    | ' ' | '\t' -> flush ()
    | c -> Buffer.add_char buf c) s;
  flush (); List.rev !toks
exception Not_classical
let rec nest mk = function
  | [] -> raise Not_classical
  | [_] -> raise Not_classical            (* seq<A> / sor<A> with one argument are not generated as classical *)
  | [a; b] -> mk a b
  | a :: tl -> mk a (nest mk tl)
let rec parse_sexp names toks =
  match toks with
  | LP :: Atom h :: tl ->
    let rec args acc toks = match toks with
      | RP :: tl -> (List.rev acc, tl)
      | LP :: _ -> let (e, tl) = parse_sexp names toks in args (`E e :: acc) tl
      | Atom a :: tl -> args (`A a :: acc) tl
      | [] -> failwith "sexp: eof" in
    let (a, tl) = args [] tl in
    let es () = List.map (function `E e -> e | `A _ -> failwith "sexp: expr expected") a in
    let bytes () = List.map (function `A x -> n_of_int (int_of_string x) | `E _ -> failwith "sexp: byte expected") a in
    let one1 () = match es () with [e] -> e | l -> nest (fun a b -> SSeq (a, b)) l in
    let e = match h with
      | "any" -> SAny | "eof" -> SEof | "success" -> SSuccess | "failure" -> SFailure
      | "one" -> SOne (bytes ()) | "not_one" -> SNotOne (bytes ())
      | "range" -> (match bytes () with [lo; hi] -> SRange (lo, hi) | _ -> failwith "range")
      | "string" -> SString (bytes ())
      | "seq" -> nest (fun a b -> SSeq (a, b)) (es ())
      | "sor" -> nest (fun a b -> SSor (a, b)) (es ())
      | "star" -> SStar (one1 ()) | "plus" -> SPlus (one1 ()) | "opt" -> SOpt (one1 ())
      | "at" -> SAt (one1 ()) | "not_at" -> SNotAt (one1 ())
      | "ref" -> (match a with [`A nmx] -> (try SRef (nat_of_int (List.assoc nmx names)) with Not_found -> failwith ("ref " ^ nmx)) | _ -> failwith "ref")
      | _ -> failwith ("sexp head " ^ h) in
    (e, tl)
  | _ -> failwith "sexp: ( expected"
let sexp_of_string names s = fst (parse_sexp names (tokenize s))

(* eol token of a configuration name: [lazy-]<policy>[@7-3-5] *)
let strip_eol e =
  let e = if String.length e > 5 && String.sub e 0 5 = "lazy-" then String.sub e 5 (String.length e - 5) else e in
  match String.index_opt e '@' with Some k -> String.sub e 0 k | None -> e

let () =
  let dumpfile = Sys.argv.(1) and casefile = Sys.argv.(2) in
  let fuel = nat_of_int (if Array.length Sys.argv > 3 then int_of_string Sys.argv.(3) else 3000) in
  let rof = Hashtbl.create 16 in
  let nodes = Hashtbl.create 100 and named = Hashtbl.create 100 and custom = Hashtbl.create 100
  and roots = Hashtbl.create 100 and runs = ref [] in
  let ic = open_in dumpfile in
  (try while true do
    let l = input_line ic in
    if String.length l > 5 && String.sub l 0 5 = "NODE " then begin
      let body = String.sub l 5 (String.length l - 5) in
      match String.index_opt body '|' with
      | Some k ->
        let a = String.sub body 0 k and h = String.sub body (k + 1) (String.length body - k - 1) in
        (match split_ws a with
         | id :: en :: nm :: _n :: subs ->
           let id = int_of_string id in
           Hashtbl.replace named id (nm = "1");
           Hashtbl.replace nodes id
             { nhead = parse_head (split_ws h); nsubs = nats subs; nenabled = (en = "1") }
         | _ -> failwith "bad node")
      | None -> failwith "bad node line"
    end else if String.length l > 4 && String.sub l 0 4 = "ACT " then begin
      match split_ws (String.sub l 4 (String.length l - 4)) with
      | fam :: r :: toks -> Hashtbl.replace custom (int_of_string fam, int_of_string r) (parse_act toks)
      | _ -> failwith "bad act"
    end else if String.length l > 5 && String.sub l 0 5 = "ROFS " then begin
      ()    (* message without raise_on_failure: only the message text differs (canonicalised on the Python side) *)
    end else if String.length l > 4 && String.sub l 0 4 = "ROF " then begin
      (* rules for which the must_if control families 4/5 raise from failure() *)
      match split_ws (String.sub l 4 (String.length l - 4)) with
      | [r] -> Hashtbl.replace rof (int_of_string r) ()
      | _ -> failwith "bad rof"
    end else if String.length l > 4 && String.sub l 0 4 = "REG " then begin
      match split_ws (String.sub l 4 (String.length l - 4)) with
      | [gid; root; cfg] -> Hashtbl.replace roots (gid, cfg) (int_of_string root)
      | _ -> failwith "bad reg"
    end
  done with End_of_file -> ());
  close_in ic;
  let ic = open_in casefile in
  (try while true do
    let l = input_line ic in
    match split_ws l with
    | [gid; cfg; inp] ->
      (match Hashtbl.find_opt roots (gid, cfg) with
       | Some root -> runs := (gid, root, cfg, inp) :: !runs
       | None -> ())
    | _ -> ()
  done with End_of_file -> ());
  close_in ic;
  let surfs = Hashtbl.create 16 in
  if Array.length Sys.argv > 4 then begin
    let ic = open_in Sys.argv.(4) in
    (try while true do
      let l = input_line ic in
      (* SURF gid rootnode name:node,name:node | root sexp | def sexp | def sexp ... *)
      match String.split_on_char '|' l with
      | hd :: rootsx :: defs ->
        (match split_ws hd with
         | "SURF" :: gid :: rootnode :: rest ->
           let pairs = match rest with
             | [p] when p <> "-" -> List.map (fun kv -> match String.split_on_char ':' kv with [k; v] -> (k, int_of_string v) | _ -> failwith "surf pair") (String.split_on_char ',' p)
             | _ -> [] in
           let names = List.mapi (fun i (k, _) -> (k, i)) pairs in
           (try
             let root = sexp_of_string names rootsx in
             let ds = List.map (sexp_of_string names) (List.filter (fun x -> String.trim x <> "") defs) in
             Hashtbl.replace surfs gid (int_of_string rootnode, List.map (fun (_, v) -> nat_of_int v) pairs, ds, root)
           with Not_classical -> Printf.printf "TIE %s notclassical\n" gid)
         | _ -> ())
      | _ -> ()
    done with End_of_file -> ());
    close_in ic
  end;
  let n = Hashtbl.length nodes in
  let g = List.init n (fun i -> try Hashtbl.find nodes i with Not_found -> failwith ("missing node " ^ string_of_int i)) in
  let beh fam r =
    match Hashtbl.find_opt custom (fam, r) with
    | Some b -> b
    | None -> fam_default fam (try Hashtbl.find named r with Not_found -> false) in
  let ipos p = (int_of_n p.pbyte, int_of_n p.pline, int_of_n p.pcol) in
  let tie_ok = Hashtbl.create 16 in
  Hashtbl.iter (fun gid (rootnode, names, ds, root) ->
    let ok = structure_tie (nat_of_int 60) g names ds (nat_of_int rootnode) root in
    Hashtbl.replace tie_ok gid ok;
    Printf.printf "TIE %s %d\n" gid (if ok then 1 else 0)) surfs;
  let spec_done = Hashtbl.create 1000 in
  List.iter (fun (gid, _root, _cfgs, inp) ->
    match Hashtbl.find_opt surfs gid with
    | Some (_, _, ds, rootx) when not (Hashtbl.mem spec_done (gid, inp)) ->
      Hashtbl.replace spec_done (gid, inp) ();
      let s = unhex inp in
      let bytes = List.init (String.length s) (fun i -> n_of_int (Char.code s.[i])) in
      (match peg_fn (nat_of_int 2000) ds rootx bytes with
       | None -> Printf.printf "SPEC %s %s ?\n" gid inp
       | Some None -> Printf.printf "SPEC %s %s F\n" gid inp
       | Some (Some rest_) -> Printf.printf "SPEC %s %s T %d\n" gid inp (String.length s - List.length rest_))
    | _ -> ()) (List.rev !runs);
  List.iter (fun (gid, root, cfgs, inp) ->
    let (fam0, ctl0, a, m, eol) =
      match String.split_on_char '.' cfgs with
      | [f; c; a; m; e] -> (int_of_string f, int_of_string c, a = "1", m = "1",
          (match strip_eol e with "lf" -> EolLf | "cr" -> EolCr | "crlf" -> EolCrlf | "lf_crlf" -> EolLfCrlf | "cr_crlf" -> EolCrCrlf | _ -> failwith "eol"))
      | _ -> failwith "cfg" in
    let etok = List.nth (String.split_on_char '.' cfgs) 4 in
    let lazy_ = String.length etok > 5 && String.sub etok 0 5 = "lazy-" in
    let p0 = if String.contains etok '@' then { pbyte = n_of_int 7; pline = n_of_int 3; pcol = n_of_int 5 }
             else { pbyte = N0; pline = n_of_int 1; pcol = n_of_int 1 } in
    let c = { ceol = eol;
              acts = (fun fam r -> match beh (int_of_nat fam) (int_of_nat r) with
                  | BNone -> AKNone | BApplyVoid | BThrowStd | BThrowForeign -> AKApply false | BApply0Void -> AKApply0 false
                  | BApplyBool -> AKApply true | BApply0Bool -> AKApply0 true | BMatch k -> AKMatch k);
              abeh = (fun fam r b e ->
                  let r = int_of_nat r and (bb, _, _) = ipos b and (eb, _, _) = ipos e in
                  match beh (int_of_nat fam) r with
                  | BApplyBool -> ARet (veto_pred r bb eb)
                  | BApply0Bool -> ARet (veto0_pred r)
                  | BThrowStd -> if throw_pred r bb eb then AThrow N0 else ARet true
                  | BThrowForeign -> if throw_pred r bb eb then AThrow (n_of_int 1) else ARet true
                  | _ -> ARet true);
              ibeh = (fun a b e ->
                  let (bb, _, _) = ipos b and (eb, _, _) = ipos e in
                  match int_of_nat a with
                  | 1 -> ARet (ipred bb eb)
                  | 2 -> if ithrow bb eb then AThrow N0 else ARet true
                  | 3 -> ARet (ipred3 bb eb)
                  | 12 -> ARet false
                  | 13 -> AThrow N0
                  | _ -> ARet true);
              has_unwind = (fun ctl -> int_of_nat ctl mod 2 = 0);
              raise_on_failure = (fun ctl r -> int_of_nat ctl >= 4 && Hashtbl.mem rof (int_of_nat r)) } in
    let d = { dA = a; dM = m; dAct = nat_of_int fam0; dCtl = nat_of_int ctl0; dDepth = O } in
    let s = unhex inp in
    let bytes = List.init (String.length s) (fun i -> n_of_int (Char.code s.[i])) in
    let buf = Buffer.create 256 in
    (* lazy tracking (memory_input_base< lazy >::position): every reported position is recomputed by
       internal::bump from the beginning, i.e. it is bump_scan over the prefix up to that byte offset *)
    let lazy_pos =
      if not lazy_ then [||] else begin
        let n = List.length bytes in
        let a = Array.make (n + 1) p0 in
        let cur = ref { rest = bytes; cpos = p0 } in
        for i = 1 to n do
          (match bump_scan (eol_ch eol) (S O) !cur with Some c' -> cur := c' | None -> ());
          a.(i) <- !cur.cpos
        done; a end in
    let ipos p =
      if lazy_ then begin
        let k = int_of_n p.pbyte - int_of_n p0.pbyte in
        if k >= 0 && k < Array.length lazy_pos then ipos lazy_pos.(k) else ipos p
      end else ipos p in
    let ps p = let (b, l, c) = ipos p in Printf.sprintf ",%d,%d,%d" b l c in
    let whoi = function WRule r -> int_of_nat r | WLimitDepth -> -1 | WLimitBytes -> -1 in
    let counter = ref 0 and stack = ref [] in
    let top () = match !stack with [] -> 0 | x :: _ -> x in
    let show = function
      | EHook (h, ctl, r, p) ->
        let k = match h with HkStart -> 'S' | HkSuccess -> 'O' | HkFailure -> 'F' | HkUnwind -> 'U' in
        Buffer.add_string buf (Printf.sprintf "%c%d,%d%s;" k (int_of_nat ctl) (int_of_nat r) (ps p))
      | ERaise (ctl, w, p) -> Buffer.add_string buf (Printf.sprintf "R%d,%d%s;" (int_of_nat ctl) (whoi w) (ps p))
      | ERaiseNested (ctl, r, p) -> Buffer.add_string buf (Printf.sprintf "G%d,%d%s;" (int_of_nat ctl) (int_of_nat r) (ps p))
      | EApply (fam, r, b, e) -> Buffer.add_string buf (Printf.sprintf "A%d,%d%s%s,%d;" (int_of_nat fam) (int_of_nat r) (ps b) (ps e) (top ()))
      | EApply0 (fam, r, _) -> Buffer.add_string buf (Printf.sprintf "Z%d,%d,%d;" (int_of_nat fam) (int_of_nat r) (top ()))
      | EInline (a, b, e) -> Buffer.add_string buf (Printf.sprintf "I%d%s%s;" (int_of_nat a) (ps b) (ps e))
      | EInline0 a -> Buffer.add_string buf (Printf.sprintf "J%d;" (int_of_nat a))
      | EStNew (_, p) -> incr counter; let outer = top () in stack := !counter :: !stack;
        Buffer.add_string buf (Printf.sprintf "N%d,%d%s;" !counter outer (ps p))
      | EStSuccess (_, p) -> (match !stack with
          | i :: tl -> Buffer.add_string buf (Printf.sprintf "Y%d,%d%s;" i (match tl with [] -> 0 | x :: _ -> x) (ps p))
          | [] -> Buffer.add_string buf "Y?;")
      | EEnter (ctl, r, a, m, p) -> if int_of_nat ctl >= 2 then
          Buffer.add_string buf (Printf.sprintf "B%d,%d,%d,%d%s;" (int_of_nat ctl) (int_of_nat r) (if a then 1 else 0) (if m then 1 else 0) (ps p))
      | EExit (ctl, r, o, p) -> if int_of_nat ctl >= 2 then
          Buffer.add_string buf (Printf.sprintf "E%d,%d,%d%s;" (int_of_nat ctl) (int_of_nat r) (match o with Some true -> 1 | Some false -> 0 | None -> 2) (ps p))
      | EStDrop _ -> (match !stack with
          | i :: tl -> stack := tl; Buffer.add_string buf (Printf.sprintf "D%d;" i)
          | [] -> Buffer.add_string buf "D?;") in
    let rec exn_str = function
      | EParse (w, p) -> let (b, l, c) = ipos p in
        Printf.sprintf "P:%s:%d,%d,%d" (match w with WRule r -> string_of_int (int_of_nat r) | WLimitDepth -> "LD" | WLimitBytes -> "LB") b l c
      | ECheckBytes p -> let (b, l, c) = ipos p in Printf.sprintf "P:CB:%d,%d,%d" b l c
      | EAct t -> if int_of_n t = 0 then "S" else Printf.sprintf "F:%d" (int_of_n t)
      | ENested (r, p, inner) -> let (b, l, c) = ipos p in Printf.sprintf "P:%d:%d,%d,%d>%s" (int_of_nat r) b l c (exn_str inner) in
    (match eval g c fuel d (nat_of_int root) { rest = bytes; cpos = p0 } with
     | Oof -> Printf.printf "RUN %s %d %s %s | OOF | | \n" gid root cfgs inp
     | Err -> Printf.printf "RUN %s %d %s %s | ERR | | \n" gid root cfgs inp
     | Res (o, cur, evs) ->
       List.iter show evs;
       let res = match o with Ok -> "T" | Fail -> "F" | Exc e -> "X" ^ exn_str e in
       let (b, l, cc) = ipos cur.cpos in
       Printf.printf "RUN %s %d %s %s | %s | %d,%d,%d | %s\n" gid root cfgs inp res b l cc (Buffer.contents buf)))
    (List.rev !runs)
