(* c14_driver.ml — property C14: runs, on every case of a case file,
     * the extracted SPECIFICATION recogniser  C14_model.rfc8259_b  (coq/Rfc8259.v)        -> oracle=0|1
     * the extracted ENGINE MODEL  C14_model.json_verdict  (coq/JsonModel.v: Engine.run on the
       compiler-dumped table of seq< json::text, eof >, gen/Json_gen.v)                     -> model=...
   and prints one line per case:   <hex> oracle=<0|1> model=<true|false|throw|error|oof|skip>

     c14_driver [--no-model] [-c] <cases>
   case file: one hex-encoded input per line, "-" for the empty input; a line starting with '!'
   (or the flag --no-model) skips the model column for that case (model=skip).

   -c  compact output for the bulk families: TWO lines, each holding one character per case in case
       order: line 1 the oracle column (1 0, E = bad case line), line 2 the model column
       (t f x e o s = true false throw error oof skip, E = bad case line).

   Fuel of the model (a Peano nat; bounds recursion depth and loop iterations): 64 + 4*len, doubled
   on VOutOfFuel up to FUEL_CAP, then model=oof.
   Hand-written glue (trusted): hex parsing, number conversion, printing. *)
open C14_model

let rec nat_of_int n = if n <= 0 then O else S (nat_of_int (n - 1))
let rec pos_of_int n = if n = 1 then XH else if n land 1 = 0 then XO (pos_of_int (n lsr 1)) else XI (pos_of_int (n lsr 1))
let n_of_int n = if n = 0 then N0 else Npos (pos_of_int n)

(* the 256 byte values are shared *)
let byte_tab = Array.init 256 n_of_int

let hexval c =
  match c with
  | '0' .. '9' -> Char.code c - 48
  | 'a' .. 'f' -> Char.code c - 87
  | 'A' .. 'F' -> Char.code c - 55
  | _ -> failwith "bad hex digit"

let unhex s =
  if s = "-" then []
  else begin
    let n = String.length s in
    if n land 1 = 1 then failwith "odd hex length";
    let rec go i acc = if i < 0 then acc else go (i - 2) (byte_tab.((hexval s.[i] lsl 4) lor hexval s.[i + 1]) :: acc) in
    go (n - 2) []
  end

let fuel_cap = 4_000_000

let model_verdict data len =
  let rec go f =
    match json_verdict (nat_of_int f) data with
    | VTrue -> "true"
    | VFalse -> "false"
    | VThrow -> "throw"
    | VError -> "error"
    | VOutOfFuel -> if f >= fuel_cap then "oof" else go (2 * f)
  in
  go (64 + 4 * len)

let () =
  let no_model = ref false in
  let compact = ref false in
  let file = ref "" in
  Array.iteri (fun i a -> if i > 0 then (if a = "--no-model" then no_model := true else if a = "-c" then compact := true else file := a)) Sys.argv;
  if !file = "" then (prerr_endline "usage: c14_driver [--no-model] [-c] <cases>"; exit 2);
  let ic = open_in !file in
  let out = Buffer.create 65536 in
  let col_o = Buffer.create 65536 in
  let col_m = Buffer.create 65536 in
  (try
     while true do
       let line = String.trim (input_line ic) in
       if line <> "" then begin
         let skip = line.[0] = '!' in
         let h = if skip then String.sub line 1 (String.length line - 1) else line in
         (match (try Some (unhex h) with Failure _ -> None) with
          | None ->
              if !compact then (Buffer.add_char col_o 'E'; Buffer.add_char col_m 'E')
              else Buffer.add_string out (h ^ " ERROR bad case\n")
          | Some data when !compact ->
              let len = List.length data in
              Buffer.add_char col_o (if rfc8259_b data then '1' else '0');
              Buffer.add_char col_m
                (if skip || !no_model then 's'
                 else match model_verdict data len with
                   | "true" -> 't' | "false" -> 'f' | "throw" -> 'x' | "error" -> 'e' | _ -> 'o')
          | Some data ->
              let len = List.length data in
              let o = if rfc8259_b data then "1" else "0" in
              let m = if skip || !no_model then "skip" else model_verdict data len in
              Buffer.add_string out h;
              Buffer.add_string out " oracle=";
              Buffer.add_string out o;
              Buffer.add_string out " model=";
              Buffer.add_string out m;
              Buffer.add_char out '\n');
         if Buffer.length out > 60000 then (print_string (Buffer.contents out); Buffer.clear out)
       end
     done
   with End_of_file -> ());
  print_string (Buffer.contents out);
  if !compact then (print_string (Buffer.contents col_o); print_char '\n'; print_string (Buffer.contents col_m); print_char '\n');
  close_in ic
