(* c20_driver.ml — model and oracle side of the C20 correspondence.
   Reads the output of harness/c20_impl.cpp (one line per input:  <hex|-> <c1><c2><c3><c4><c5>,
   the verdicts of the real parse< seq< uri::X, eof > > for X = URI, URI_reference, absolute_URI,
   IPv4address, IPv6address; 1 = true, 0 = false, 2 = parse_error, 3 = any other exception) and,
   for every input and rule, evaluates
     model  = extracted UriModel.uri_verdict (engine model on the generated table)
     oracle = extracted verified matcher  nullable (derivs (rfc X) input)   (Regex.re_match)
   Usage: c20_driver <impl-output-file> [k]   — the model is evaluated on every k-th input (default 1 =
   every input; the oracle is evaluated on every input).
   Prints only disagreements and a summary:
     DIFF <rule> <hex> impl=<c> model=<c>          model and implementation differ
     ORACLE <rule> <hex> impl=<c> oracle=<0|1>     implementation accepts iff-not RFC derives
     OTHEREXC <rule> <hex>                          implementation threw something that is no parse_error
     SUMMARY n=<inputs> model=<inputs the model was run on> acc=a,a,a,a,a rej=... perr=... oracc=... maxlen=<n> lens=<l0,l1,...>
   Hand-written glue (trusted): parsing, number conversion, sharing of prefix derivatives, printing. *)
open C20_model

let rec pos_of_int n = if n = 1 then XH else if n land 1 = 0 then XO (pos_of_int (n lsr 1)) else XI (pos_of_int (n lsr 1))
let n_of_int n = if n = 0 then N0 else Npos (pos_of_int n)
let byte_tab = Array.init 256 n_of_int
let rec int_of_pos = function XH -> 1 | XO p -> 2 * int_of_pos p | XI p -> 2 * int_of_pos p + 1
let int_of_n = function N0 -> 0 | Npos p -> int_of_pos p

let unhex s =
  if s = "-" then [||]
  else Array.init (String.length s / 2) (fun i -> int_of_string ("0x" ^ String.sub s (2 * i) 2))

let tops = [| TURI; TURI_reference; Tabsolute_URI; TIPv4address; TIPv6address |]
let names = [| "URI"; "URI_reference"; "absolute_URI"; "IPv4address"; "IPv6address" |]
let nt = Array.length tops

(* per rule: stack of derivatives of the previous input, stack.(k) = derivs (rfc X) (first k bytes) *)
let maxl = 4096
let stacks = Array.init nt (fun i -> let a = Array.make (maxl + 1) Empty in a.(0) <- rfc tops.(i); a)
let prev = ref [||]

let () =
  let ic = if Array.length Sys.argv > 1 then open_in Sys.argv.(1) else stdin in
  let every = if Array.length Sys.argv > 2 then max 1 (int_of_string Sys.argv.(2)) else 1 in
  let n = ref 0 and nmodel = ref 0 in
  let acc = Array.make nt 0 and rej = Array.make nt 0 and perr = Array.make nt 0 and oracc = Array.make nt 0 in
  let lens = Array.make 64 0 in
  let maxlen = ref 0 in
  (try
     while true do
       let line = input_line ic in
       if line <> "" then begin
         match String.split_on_char ' ' line with
         | [hex; codes] when String.length codes = nt ->
             let bs = unhex hex in
             let len = Array.length bs in
             if len > maxl then failwith "input too long";
             incr n;
             if len > !maxlen then maxlen := len;
             lens.(min len 63) <- lens.(min len 63) + 1;
             (* common prefix with the previous input *)
             let p = !prev in
             let k = ref 0 in
             while !k < len && !k < Array.length p && p.(!k) = bs.(!k) do incr k done;
             let cp = !k in
             let input = Array.to_list (Array.map (fun b -> byte_tab.(b)) bs) in
             let with_model = (!n mod every = 0) in
             if with_model then incr nmodel;
             for i = 0 to nt - 1 do
               let st = stacks.(i) in
               for j = cp to len - 1 do st.(j + 1) <- deriv byte_tab.(bs.(j)) st.(j) done;
               let o = if nullable st.(len) then 1 else 0 in
               let c = Char.code codes.[i] - 48 in
               let m = if with_model then int_of_n (uri_verdict tops.(i) input) else c in
               if c = 1 then acc.(i) <- acc.(i) + 1 else if c = 0 then rej.(i) <- rej.(i) + 1 else if c = 2 then perr.(i) <- perr.(i) + 1;
               if o = 1 then oracc.(i) <- oracc.(i) + 1;
               if m <> c then Printf.printf "DIFF %s %s impl=%d model=%d\n" names.(i) hex c m;
               if c = 3 then Printf.printf "OTHEREXC %s %s\n" names.(i) hex
               else if (if c = 1 then 1 else 0) <> o then Printf.printf "ORACLE %s %s impl=%d oracle=%d\n" names.(i) hex c o
             done;
             prev := bs
         | _ -> Printf.printf "BADLINE %s\n" line
       end
     done
   with End_of_file -> ());
  let j a = String.concat "," (Array.to_list (Array.map string_of_int a)) in
  Printf.printf "SUMMARY n=%d model=%d acc=%s rej=%s perr=%s oracc=%s maxlen=%d lens=%s\n" !n !nmodel (j acc) (j rej) (j perr) (j oracc) !maxlen (j lens)
