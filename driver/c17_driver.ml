(* c17_driver.ml — model side of the C17 correspondence.  Runs the extracted Coq model
   (C17_model, from Unescape.v) on the same command lines as harness/c17_impl.cpp and prints the
   same canonical result lines.  The S* commands evaluate the extracted SPECIFICATION
   (UnescapeSpec.v) so that the check can compare it with its independent Python oracle.
   Hand-written glue (trusted): number conversion, hex printing, CRC-32/Adler-32 of chunks. *)
open C17_model

let rec pos_of_int n = if n = 1 then XH else if n land 1 = 0 then XO (pos_of_int (n lsr 1)) else XI (pos_of_int (n lsr 1))
let n_of_int n = if n = 0 then N0 else Npos (pos_of_int n)
let rec int_of_pos = function XH -> 1 | XO p -> 2 * int_of_pos p | XI p -> 2 * int_of_pos p + 1
let int_of_n = function N0 -> 0 | Npos p -> int_of_pos p
let rec nat_of_int n = if n <= 0 then O else S (nat_of_int (n - 1))

(* N <-> hexadecimal text without going through OCaml ints (64-bit values) *)
let hexdig c =
  match c with
  | '0' .. '9' -> Char.code c - 48
  | 'a' .. 'f' -> Char.code c - 87
  | 'A' .. 'F' -> Char.code c - 55
  | _ -> failwith "hexdig"
let n_of_hex s =
  let sixteen = n_of_int 16 in
  let acc = ref N0 in
  String.iter (fun ch -> acc := N.add (N.mul !acc sixteen) (n_of_int (hexdig ch))) s;
  !acc
let rec bits_of_pos = function XH -> [1] | XO p -> 0 :: bits_of_pos p | XI p -> 1 :: bits_of_pos p
let hex_of_n x =
  match x with
  | N0 -> "0"
  | Npos p ->
    let rec groups = function
      | [] -> []
      | b0 :: tl ->
        let b1, tl = (match tl with [] -> (0, []) | b :: t -> (b, t)) in
        let b2, tl = (match tl with [] -> (0, []) | b :: t -> (b, t)) in
        let b3, tl = (match tl with [] -> (0, []) | b :: t -> (b, t)) in
        (b0 + 2 * b1 + 4 * b2 + 8 * b3) :: groups tl in
    let ds = List.rev (groups (bits_of_pos p)) in
    String.concat "" (List.map (fun d -> String.make 1 "0123456789abcdef".[d]) ds)

let bytes_of_hex h =
  if h = "-" then []
  else List.init (String.length h / 2) (fun i -> n_of_int (int_of_string ("0x" ^ String.sub h (2 * i) 2)))
let hex_of_bytes l =
  if l = [] then "-"
  else String.concat "" (List.map (fun b -> Printf.sprintf "%02x" (int_of_n b)) l)
let bytes_of_ascii s = if s = "-" then [] else List.init (String.length s) (fun i -> n_of_int (Char.code s.[i]))

(* zlib-compatible CRC-32 and Adler-32 *)
let crc_table =
  Array.init 256 (fun i ->
    let c = ref i in
    for _ = 0 to 7 do
      c := if !c land 1 = 1 then 0xEDB88320 lxor (!c lsr 1) else !c lsr 1
    done;
    !c)
let crc32 s =
  let c = ref 0xFFFFFFFF in
  String.iter (fun ch -> c := crc_table.((!c lxor Char.code ch) land 0xFF) lxor (!c lsr 8)) s;
  !c lxor 0xFFFFFFFF
let adler32 s =
  let a = ref 1 and b = ref 0 in
  String.iter (fun ch -> a := (!a + Char.code ch) mod 65521; b := (!b + !a) mod 65521) s;
  (!b lsl 16) lor !a

let z = [n_of_int 0x5a]
let append_line cp =
  let (s, ok) = utf8_append_utf32 z (n_of_int cp) in
  Printf.sprintf "a %08x %d %s" cp (if ok then 1 else 0) (hex_of_bytes s)

let show_ures = function
  | UOk s -> "ok " ^ hex_of_bytes s
  | UThrow s -> "throw " ^ hex_of_bytes s
  | UTerminate -> "terminate"
  | UUndef -> "undef"

let split_ws s = List.filter (fun x -> x <> "") (String.split_on_char ' ' s)

let () =
  let out = Buffer.create 65536 in
  let flush_out () = print_string (Buffer.contents out); Buffer.clear out in
  (try
     while true do
       let line = input_line stdin in
       (match split_ws line with
        | [] -> ()
        | ["AR"; lo; hi; ch] ->
          let lo = int_of_string ("0x" ^ lo) and hi = int_of_string ("0x" ^ hi) and ch = int_of_string ("0x" ^ ch) in
          let s = ref lo in
          while !s < hi do
            let text = Buffer.create (ch * 24) in
            let v = ref !s in
            while !v < !s + ch && !v < hi do
              Buffer.add_string text (append_line !v); Buffer.add_char text '\n'; incr v
            done;
            let t = Buffer.contents text in
            Buffer.add_string out (Printf.sprintf "AR %08x %08x %08x\n" !s (crc32 t) (adler32 t));
            s := !s + ch
          done
        | ["a"; cp] -> Buffer.add_string out (append_line (int_of_string ("0x" ^ cp)) ^ "\n")
        | [("J" | "U" | "X" | "P") as c; s0; inb] ->
          let f = (match c with "J" -> unescape_j | "U" -> unescape_u | "X" -> unescape_x | _ -> append_all) in
          let r = f (bytes_of_hex inb) (bytes_of_hex s0) in
          Buffer.add_string out (Printf.sprintf "%s %s %s %s\n" c s0 inb (show_ures r))
        | ["C"; tbl; s0; inb] ->
          let (qs, rs) = if tbl = "json" then (json_qs, json_rs) else (cex_qs, cex_rs) in
          let r = unescape_c qs rs (bytes_of_hex inb) (bytes_of_hex s0) in
          Buffer.add_string out (Printf.sprintf "C %s %s %s %s\n" tbl s0 inb (show_ures r))
        | ["H"; w; digits] ->
          let wn = (match w with "8" | "c" -> 8 | "16" -> 16 | "32" -> 32 | _ -> 64) in
          let r = (match unhex_string (n_of_int wn) (bytes_of_ascii digits) with
                   | Some v -> hex_of_n v
                   | None -> "terminate") in
          Buffer.add_string out (Printf.sprintf "H %s %s %s\n" w digits r)
        | ["T"] ->
          Buffer.add_string out (Printf.sprintf "T json %s %s\n" (hex_of_bytes json_qs) (hex_of_bytes json_rs));
          Buffer.add_string out (Printf.sprintf "T cex %s %s\n" (hex_of_bytes cex_qs) (hex_of_bytes cex_rs))
        (* ---- specification side (UnescapeSpec.v) ---- *)
        | ["SE"; cp] ->
          let v = n_of_hex cp in
          let sc = is_scalar v in
          Buffer.add_string out (Printf.sprintf "SE %s %d %s\n" cp (if sc then 1 else 0) (if sc then hex_of_bytes (encode v) else "-"))
        | ["SJ"; units] ->
          let us = List.map n_of_hex (String.split_on_char ',' units) in
          let r = (match pair_units us with
                   | Some cps -> "ok " ^ hex_of_bytes (encode_all cps)
                   | None -> "err " ^ hex_of_bytes (encode_all (pair_prefix us))) in
          Buffer.add_string out (Printf.sprintf "SJ %s %s\n" units r)
        | ["SH"; digits] ->
          let l = bytes_of_ascii digits in
          let r = if List.for_all is_xdigit l then hex_of_n (hexval l) else "nothex" in
          Buffer.add_string out (Printf.sprintf "SH %s %s\n" digits r)
        | ["SC"; tbl; b] ->
          let t = if tbl = "json" then json_escapes else c_escapes in
          let r = (match assoc (n_of_hex b) t with Some v -> Printf.sprintf "%02x" (int_of_n v) | None -> "none") in
          Buffer.add_string out (Printf.sprintf "SC %s %s %s\n" tbl b r)
        | _ -> Buffer.add_string out ("? " ^ line ^ "\n"));
       if Buffer.length out > 65536 then flush_out ()
     done
   with End_of_file -> ());
  flush_out ()
