(* c11_driver.ml — runs the extracted C11 model on the tables that the C++ compiler dumped.
     c11_driver <tables> <inputs> <fuel>
   <tables>: blocks  "TABLE gid root" / "NODE ..." (the NODE lines of harness/vharness.hpp, ids renumbered 0..n-1 per grammar)
                     / "ORIG newid id-in-the-shared-table"
   <inputs>: lines   "gid hex hex ..."   ("-" = empty input)
   prints per grammar
     MTOT gid <problems table> <table_shape_ok>                  (C11_model.problems: every entry as a root; the shape hypothesis of C11_sound)
     MENT gid n k <kind 0..3 = any opt seq sor> <problems from this root> <consumes> | n1 k1 n2 k2 ...
     MRUN gid <one letter per input: T F X (exception) R (out of fuel) E (Err)>
   Hand-written glue (trusted): number conversion, table parsing, printing. *)
open C11_model

let rec nat_of_int n = if n <= 0 then O else S (nat_of_int (n - 1))
let rec int_of_nat = function O -> 0 | S n -> 1 + int_of_nat n
let rec pos_of_int n = if n = 1 then XH else if n land 1 = 0 then XO (pos_of_int (n lsr 1)) else XI (pos_of_int (n lsr 1))
let n_of_int n = if n = 0 then N0 else Npos (pos_of_int n)
let n_of_string s =
  let ten = n_of_int 10 in
  let acc = ref N0 in
  String.iter (fun ch -> acc := N.add (N.mul !acc ten) (n_of_int (Char.code ch - 48))) s; !acc
let z_of_string s =
  if String.length s > 0 && s.[0] = '-' then
    (match n_of_string (String.sub s 1 (String.length s - 1)) with N0 -> Z0 | Npos p -> Zneg p)
  else (match n_of_string s with N0 -> Z0 | Npos p -> Zpos p)
let split_ws s = List.filter (fun x -> x <> "") (String.split_on_char ' ' s)
let unhex s = if s = "-" then "" else String.init (String.length s / 2) (fun i -> Char.chr (int_of_string ("0x" ^ String.sub s (2 * i) 2)))

let parse_endian = function "be" -> BE | "le" -> LE | _ -> failwith "endian"
let parse_peek s =
  match String.split_on_char ':' s with
  | ["char"] -> PkChar | ["utf8"] -> PkUtf8 | ["uint8"] -> PkUint8
  | ["mask8"; m] -> PkMaskUint8 (n_of_string m)
  | ["uint"; w; e] -> PkUint (nat_of_int (int_of_string w), parse_endian e)
  | ["mask"; w; e; m] -> PkMaskUint (nat_of_int (int_of_string w), parse_endian e, n_of_string m)
  | ["utf16"; e] -> PkUtf16 (parse_endian e) | ["utf32"; e] -> PkUtf32 (parse_endian e)
  | _ -> failwith ("peek " ^ s)
let parse_filter s =
  match String.split_on_char ':' s with
  | ["any"] -> FAny | ["std"] -> FStd | ["parse"] -> FParse | ["type"; t] -> FType (n_of_string t)
  | _ -> failwith ("filter " ^ s)
let nats l = List.map (fun s -> nat_of_int (int_of_string s)) l
let parse_head toks =
  match toks with
  | ["success"] -> HSuccess | ["failure"] -> HFailure | ["eof"] -> HEof | ["eol"] -> HEol | ["eolf"] -> HEolf
  | ["bof"] -> HBof | ["bol"] -> HBol | ["everything"] -> HEverything | ["discard"] -> HDiscard | ["opaque"] -> HOpaque
  | ["any"; pk] -> HAny (parse_peek pk)
  | "one" :: f :: pk :: cs -> HOne (f = "1", parse_peek pk, List.map z_of_string cs)
  | ["range"; f; pk; lo; hi] -> HRange (f = "1", parse_peek pk, z_of_string lo, z_of_string hi)
  | "ranges" :: pk :: cs -> HRanges (parse_peek pk, List.map z_of_string cs)
  | "string" :: cs -> HString (List.map n_of_string cs)
  | "istring" :: cs -> HIString (List.map n_of_string cs)
  | ["bytes"; n] -> HBytes (nat_of_int (int_of_string n)) | ["require"; n] -> HRequire (nat_of_int (int_of_string n))
  | ["seq"] -> HSeq | ["sor"] -> HSor | ["star_partial"] -> HStarPartial | ["plus"] -> HPlus | ["partial"] -> HPartial
  | ["at"] -> HAt | ["not_at"] -> HNotAt | ["until1"] -> HUntil1 | ["until2"] -> HUntil2
  | ["rep"; n] -> HRep (nat_of_int (int_of_string n))
  | ["rep_min_max"; a; b] -> HRepMinMax (nat_of_int (int_of_string a), nat_of_int (int_of_string b))
  | ["rep_opt"; n] -> HRepOpt (nat_of_int (int_of_string n))
  | ["if_then_else"] -> HIfThenElse | ["if_must"; d] -> HIfMust (d = "1") | ["must"] -> HMust | ["raise"] -> HRaise
  | ["strict"] -> HStrict | ["star_strict"] -> HStarStrict | ["rematch"] -> HRematch
  | ["try_catch_false"; f] -> HTryCatchFalse (parse_filter f) | ["try_catch_nested"; f] -> HTryCatchNested (parse_filter f)
  | ["state"; _] -> HState
  | ["action"; f] -> HAction (nat_of_int (int_of_string f)) | ["control"; c] -> HControl (nat_of_int (int_of_string c))
  | ["enable"] -> HEnable | ["disable"] -> HDisable
  | "apply" :: l -> HApply (nats l) | "apply0" :: l -> HApply0 (nats l) | "if_apply" :: l -> HIfApply (nats l)
  | _ -> failwith ("untranslatable head: " ^ String.concat " " toks)

(* deterministic behaviours of the observer actions, mirrored from harness/vharness.hpp (rule ids there are those of
   the translation unit's shared table: ORIG lines) *)
let veto_pred r b e = ((r * 7 + b * 3 + e * 5) mod 4) <> 0
let veto0_pred r = (r mod 3) <> 0
let throw_pred r b e = ((r * 5 + b * 7 + e * 3) mod 5) = 0
let ipred b e = ((b * 3 + e * 5) mod 3) <> 0
let ithrow b e = ((b + e) mod 4) = 3
type beh = BNone | BApplyVoid | BApply0Void | BApplyBool | BApply0Bool | BThrowStd | BThrowForeign
let fam_default fam named =
  match fam with
  | 0 -> BNone | 1 -> BApplyVoid | 2 -> BApply0Void | 3 -> BApplyBool | 4 -> BApply0Bool | 5 -> BThrowStd | 6 -> BThrowForeign
  | 7 -> if named then BApplyVoid else BNone
  | 8 -> if named then BApplyBool else BNone
  | _ -> BNone
let rec int_of_pos = function XH -> 1 | XO p -> 2 * int_of_pos p | XI p -> 2 * int_of_pos p + 1
let int_of_n = function N0 -> 0 | Npos p -> int_of_pos p

let kind_int = function KAny -> 0 | KOpt -> 1 | KSeq -> 2 | KSor -> 3

let () =
  let tables = Sys.argv.(1) and inputs = Sys.argv.(2) in
  let fuel = nat_of_int (int_of_string Sys.argv.(3)) in
  let ins = Hashtbl.create 100 in
  let ic = open_in inputs in
  (try while true do
    match split_ws (input_line ic) with
    | gid :: l -> Hashtbl.replace ins gid l
    | [] -> ()
  done with End_of_file -> ());
  close_in ic;
  let d = { dA = true; dM = true; dAct = O; dCtl = O; dDepth = O } in
  let p0 = { pbyte = N0; pline = n_of_int 1; pcol = n_of_int 1 } in
  let finish gid root nodes named orig =
    let n = Hashtbl.length nodes in
    let beh fam r = fam_default fam (try Hashtbl.find named r with Not_found -> false) in
    let og r = try Hashtbl.find orig r with Not_found -> r in
    let ib p = int_of_n p.pbyte in
    let cfg = { ceol = EolLfCrlf;
                acts = (fun fam r -> match beh (int_of_nat fam) (int_of_nat r) with
                    | BNone -> AKNone | BApplyVoid | BThrowStd | BThrowForeign -> AKApply false | BApply0Void -> AKApply0 false
                    | BApplyBool -> AKApply true | BApply0Bool -> AKApply0 true);
                abeh = (fun fam r b e ->
                    let r = int_of_nat r in
                    match beh (int_of_nat fam) r with
                    | BApplyBool -> ARet (veto_pred (og r) (ib b) (ib e))
                    | BApply0Bool -> ARet (veto0_pred (og r))
                    | BThrowStd -> if throw_pred (og r) (ib b) (ib e) then AThrow N0 else ARet true
                    | BThrowForeign -> if throw_pred (og r) (ib b) (ib e) then AThrow (n_of_int 1) else ARet true
                    | _ -> ARet true);
                ibeh = (fun a b e ->
                    match int_of_nat a with
                    | 1 -> ARet (ipred (ib b) (ib e))
                    | 2 -> if ithrow (ib b) (ib e) then AThrow N0 else ARet true
                    | 12 -> ARet false
                    | 13 -> AThrow N0
                    | _ -> ARet true);
                has_unwind = (fun _ -> false); raise_on_failure = (fun _ _ -> false) } in
    let g = List.init n (fun i -> try Hashtbl.find nodes i with Not_found -> failwith ("missing node " ^ string_of_int i)) in
    Printf.printf "MTOT %s %d %d\n" gid (int_of_nat (problems g)) (if table_shape_ok g then 1 else 0);
    List.iter (fun a ->
      let (nn, k) = a in
      let e = aentry g a in
      let (res, pr) = analyze_root g a in
      Printf.printf "MENT %s %d %d %d %d %d |%s\n" gid (int_of_nat nn) (int_of_nat k) (kind_int e.ekind) (int_of_nat pr) (if res then 1 else 0)
        (String.concat "" (List.map (fun (x, y) -> Printf.sprintf " %d %d" (int_of_nat x) (int_of_nat y)) e.esubs))) (roots g);
    let buf = Buffer.create 400 in
    List.iter (fun h ->
      let s = unhex h in
      let bytes = List.init (String.length s) (fun i -> n_of_int (Char.code s.[i])) in
      Buffer.add_char buf
        (match eval g cfg fuel d (nat_of_int root) { rest = bytes; cpos = p0 } with
         | Oof -> 'R' | Err -> 'E'
         | Res (Ok, _, _) -> 'T' | Res (Fail, _, _) -> 'F' | Res (Exc _, _, _) -> 'X'))
      (try Hashtbl.find ins gid with Not_found -> []);
    Printf.printf "MRUN %s %s\n" gid (Buffer.contents buf) in
  let ic = open_in tables in
  let cur = ref None in
  let flush () = match !cur with Some (gid, root, nodes, named, orig) -> finish gid root nodes named orig; cur := None | None -> () in
  (try while true do
    let l = input_line ic in
    if String.length l > 6 && String.sub l 0 6 = "TABLE " then begin
      flush ();
      match split_ws l with
      | [_; gid; root] -> cur := Some (gid, int_of_string root, Hashtbl.create 50, Hashtbl.create 50, Hashtbl.create 50)
      | _ -> failwith "bad TABLE"
    end else if String.length l > 5 && String.sub l 0 5 = "NODE " then begin
      let body = String.sub l 5 (String.length l - 5) in
      match String.index_opt body '|', !cur with
      | Some k, Some (_, _, nodes, named, _) ->
        let a = String.sub body 0 k and h = String.sub body (k + 1) (String.length body - k - 1) in
        (match split_ws a with
         | id :: en :: nm :: _n :: subs ->
           Hashtbl.replace named (int_of_string id) (nm = "1");
           Hashtbl.replace nodes (int_of_string id) { nhead = parse_head (split_ws h); nsubs = nats subs; nenabled = (en = "1") }
         | _ -> failwith "bad node")
      | _ -> failwith "bad node line"
    end else if String.length l > 5 && String.sub l 0 5 = "ORIG " then begin
      match split_ws l, !cur with
      | [_; a; b], Some (_, _, _, _, orig) -> Hashtbl.replace orig (int_of_string a) (int_of_string b)
      | _ -> failwith "bad ORIG"
    end
  done with End_of_file -> ());
  close_in ic;
  flush ()
