(* c15_driver.ml — model side of the C15 correspondence: runs the extracted Coq model of
   contrib/integer.hpp (C15_model, from ExtractC15.v) on the case file that is also fed to
   harness/c15_impl.cpp and prints the same line format (see the header of c15_impl.cpp).
   Hand-written glue (trusted): case parsing, number conversion, printing. *)
open C15_model

let rec nat_of_int n = if n <= 0 then O else S (nat_of_int (n - 1))
let rec pos_of_int n = if n = 1 then XH else if n land 1 = 0 then XO (pos_of_int (n lsr 1)) else XI (pos_of_int (n lsr 1))
let n_of_int n = if n = 0 then N0 else Npos (pos_of_int n)
let n_of_string s =
  let ten = n_of_int 10 in
  let acc = ref N0 in
  String.iter (fun ch -> acc := N.add (N.mul !acc ten) (n_of_int (Char.code ch - 48))) s; !acc

(* decimal printing of a positive: little-endian digit lists, doubling *)
let rec dbl carry = function
  | [] -> if carry = 0 then [] else [carry]
  | d :: tl -> let x = 2 * d + carry in (x mod 10) :: dbl (x / 10) tl
let rec digits_of_pos = function
  | XH -> [1]
  | XO p -> dbl 0 (digits_of_pos p)
  | XI p -> dbl 1 (digits_of_pos p)
let string_of_pos p = String.concat "" (List.rev_map string_of_int (digits_of_pos p))
let string_of_n = function N0 -> "0" | Npos p -> string_of_pos p
let string_of_z = function Z0 -> "0" | Zpos p -> string_of_pos p | Zneg p -> "-" ^ string_of_pos p

let unhex s =
  if s = "-" then []
  else List.init (String.length s / 2) (fun i -> n_of_int (int_of_string ("0x" ^ String.sub s (2 * i) 2)))

let show_pos p = string_of_n p.pbyte ^ ":" ^ string_of_n p.pline ^ ":" ^ string_of_n p.pcol
let ovf_name = function OvfInteger -> "integer" | OvfUnsigned -> "unsigned" | OvfSigned -> "signed"

let show show_st = function
  | MOk (c, st) -> "T " ^ show_pos c.cpos ^ " " ^ show_st st
  | MFail (c, st) -> "F " ^ show_pos c.cpos ^ " " ^ show_st st
  | MExc (k, p, c, st) -> "X:" ^ ovf_name k ^ " " ^ show_pos c.cpos ^ " " ^ show_st st ^ " @" ^ show_pos p
  | MOob -> "OOB"

let n77 = n_of_int 77
let z77 = Zpos (pos_of_int 77)

let run_case kind w mx hex =
  let c = { rest = unhex hex; cpos = pos0 } in
  let wn = nat_of_int w in
  let u r = show string_of_n r and s r = show string_of_z r in
  match kind with
  | "U0" -> u (unsigned_rule c n77)
  | "UA" -> u (unsigned_rule_unsigned_action wn (umax wn) c n77)
  | "UWA" -> u (unsigned_rule_with_action true wn c n77)
  | "UWN" -> u (unsigned_rule_with_action false wn c n77)
  | "MR" -> u (maximum_rule wn mx c n77)
  | "MRA" -> u (maximum_rule_maximum_action wn mx c n77)
  | "UMA" -> u (unsigned_rule_unsigned_action wn mx c n77)
  | "MWA" -> u (maximum_rule_with_action true wn mx c n77)
  | "MWN" -> u (maximum_rule_with_action false wn mx c n77)
  | "S0" -> s (signed_rule c z77)
  | "SA" -> s (signed_rule_signed_action wn c z77)
  | "SWA" -> s (signed_rule_with_action true wn c z77)
  | "SWN" -> s (signed_rule_with_action false wn c z77)
  | _ -> "UNKNOWN-KIND"

let acc8 mx =
  let b = Buffer.create 12000 in
  let w8 = nat_of_int 8 in
  for r = 0 to 255 do
    for c = 0 to 9 do
      (match accumulate_digit w8 mx (n_of_int r) (n_of_int c) with
       | Some v -> Buffer.add_string b (string_of_n v)
       | None -> Buffer.add_char b '-');
      Buffer.add_char b ','
    done
  done;
  Buffer.contents b

let () =
  let ic = open_in Sys.argv.(1) in
  let out = Buffer.create (1 lsl 16) in
  (try
     while true do
       let line = input_line ic in
       (match List.filter (fun x -> x <> "") (String.split_on_char ' ' line) with
        | ["ACC"; mx] -> Buffer.add_string out (acc8 (n_of_string mx))
        | [kind; w; mx; hex] -> Buffer.add_string out (run_case kind (int_of_string w) (n_of_string mx) hex)
        | [] -> ()
        | _ -> Buffer.add_string out "BAD-CASE-LINE");
       Buffer.add_char out '\n';
       if Buffer.length out > (1 lsl 16) then (print_string (Buffer.contents out); Buffer.clear out)
     done
   with End_of_file -> ());
  print_string (Buffer.contents out)
