(* c19_driver.ml — runs the extracted C19 model (C19_model.c19_report, from coq/Lines.v) and the
   extracted specification functions (line_begin / line_end / line_bytes, from coq/LinesSpec.v)
   on the case file that the C++ harness reads, and prints one line per (case, k) in the
   harness' canonical format, followed by " | SLB= SLE= SLINE=" (the Coq spec's answer for the
   data and k alone).
     c19_driver <cases>     case line:  <eager|lazy> <lf|cr|crlf|lf_crlf|cr_crlf> <byte0> <line0> <col0> <hexdata|->
   Hand-written glue (trusted): number conversion, parsing, printing. *)
open C19_model

let rec nat_of_int n = if n <= 0 then O else S (nat_of_int (n - 1))
let rec int_of_nat = function O -> 0 | S n -> 1 + int_of_nat n
let rec pos_of_int n = if n = 1 then XH else if n land 1 = 0 then XO (pos_of_int (n lsr 1)) else XI (pos_of_int (n lsr 1))
let n_of_int n = if n = 0 then N0 else Npos (pos_of_int n)
let rec int_of_pos = function XH -> 1 | XO p -> 2 * int_of_pos p | XI p -> 2 * int_of_pos p + 1
let int_of_n = function N0 -> 0 | Npos p -> int_of_pos p
let int_of_z = function Z0 -> 0 | Zpos p -> int_of_pos p | Zneg p -> - (int_of_pos p)

let split_ws s = List.filter (fun x -> x <> "") (String.split_on_char ' ' s)
let unhex s = if s = "-" then [] else List.init (String.length s / 2) (fun i -> int_of_string ("0x" ^ String.sub s (2 * i) 2))
let hex l = if l = [] then "-" else String.concat "" (List.map (fun b -> Printf.sprintf "%02x" (int_of_n b)) l)

let parse_eol = function
  | "lf" -> EolLf | "cr" -> EolCr | "crlf" -> EolCrlf | "lf_crlf" -> EolLfCrlf | "cr_crlf" -> EolCrCrlf
  | s -> failwith ("eol " ^ s)

let str_ptr = function OutOfData -> "OUT" | Off z -> string_of_int (int_of_z z)
let str_line = function LineOut (_, _) -> "OUT" | Line l -> hex l

let run_case line =
  match split_ws line with
  | [mode; eol; b0; l0; c0; h] ->
      let eager = (match mode with "eager" -> true | "lazy" -> false | _ -> failwith "mode") in
      let e = parse_eol eol in
      let data = List.map n_of_int (unhex h) in
      let init = { pbyte = n_of_int (int_of_string b0); pline = n_of_int (int_of_string l0); pcol = n_of_int (int_of_string c0) } in
      let inp = { idata = data; iinit = init } in
      for k = 0 to List.length data do
        let kn = nat_of_int k in
        let spec = Printf.sprintf "SLB=%d SLE=%d SLINE=%s" (int_of_nat (line_begin e data kn)) (int_of_nat (line_end e data kn)) (hex (line_bytes e data kn)) in
        match c19_report eager e inp kn with
        | None -> Printf.printf "M=%s E=%s I=%s,%s,%s D=%s K=%d NONE | %s\n" mode eol b0 l0 c0 h k spec
        | Some r ->
            Printf.printf "M=%s E=%s I=%s,%s,%s D=%s K=%d B=%s P=%d,%d,%d AT=%d BOL=%d EOL=%s LINE=%s | %s\n"
              mode eol b0 l0 c0 h k
              (match r.r_byte with None -> "NONE" | Some b -> string_of_int (int_of_n b))
              (int_of_n r.r_pos.pbyte) (int_of_n r.r_pos.pline) (int_of_n r.r_pos.pcol)
              (int_of_z r.r_at) (int_of_z r.r_bol) (str_ptr r.r_eol) (str_line r.r_line) spec
      done
  | [] -> ()
  | _ -> Printf.printf "ERROR bad case %s\n" line

let () =
  let ic = open_in Sys.argv.(1) in
  (try
     while true do
       run_case (input_line ic)
     done
   with End_of_file -> ());
  close_in ic
