#!/bin/bash
# run_all.sh [quick|thorough] — every registered check in sequence on the current tree; summary lines to stdout
tier=${1:-quick}
cd /verif
for id in $(python3 -c "import json; print(' '.join(c['property_id'] for c in json.load(open('MANIFEST.json'))['checks']))"); do
  s=$(date +%s)
  out=$(bin/check $id $tier 2>&1); rc=$?
  echo "$id rc=$rc $(( $(date +%s) - s ))s $(echo "$out" | grep -a "HOLDS\|FAILS" | tail -1 | cut -c1-160)"
  echo "$out" | grep -a "^VIOLATION" | head -3
done
