#!/usr/bin/env python3
"""seeded_summary — collect seeded/<id>/{meta,suite,result}.json into seeded/SUMMARY.md and add the coordinator's
verification record ("what I ran") to every meta.json."""
import glob
import json
import os

V = os.path.dirname(os.path.dirname(os.path.abspath(__file__)))
rows = []
for d in sorted(glob.glob(os.path.join(V, "seeded", "*"))):
    if not os.path.isdir(d):
        continue
    sid = os.path.basename(d)
    meta = json.load(open(os.path.join(d, "meta.json")))
    suite = json.load(open(os.path.join(d, "suite.json"))) if os.path.exists(os.path.join(d, "suite.json")) else {}
    res = json.load(open(os.path.join(d, "result.json"))) if os.path.exists(os.path.join(d, "result.json")) else {}
    pid = meta["property"]
    allchk = res.get("checks") or {}
    chk = allchk.get(pid, {})
    other = sorted(k for k, v in allchk.items() if k != pid and v.get("caught"))
    if not chk.get("caught") and other:
        # not caught by the check of the property the sub-agent was given, but by the check of the property that owns the code
        chk = dict(allchk[other[0]])
        chk["by_other"] = other[0]
    lines = chk.get("lines", [])
    viol = [l for l in lines if l.startswith("VIOLATION")]
    how = "-"
    if chk.get("caught"):
        how = "proof/correspondence broken (no-failing-input-found)" if all("no-failing-input-found" in l for l in viol) else "oracle violation with replay"
        if chk.get("by_other"):
            how += " - by the check of %s (the property that owns the changed code), not by %s's" % (chk["by_other"], pid)
    du, dc = res.get("demo_unchanged") or {}, res.get("demo_changed") or {}
    meta["verified_by_coordinator"] = {
        "test_suite_with_change": suite.get("ctest", "not run"), "test_suite_cmd": suite.get("cmd", ""),
        "demo_on_unchanged_tree_rc": du.get("rc"), "demo_with_change_rc": dc.get("rc"),
        "check_run": "tools/run_seeded.py %s (bin/check %s %s against a scratch copy of /repo with only this patch applied)" % (sid, pid, res.get("tier", "quick")),
        "check_caught": bool(chk.get("caught")), "check_verdict_lines": lines[:4], "caught_by": how, "at": res.get("at")}
    json.dump(meta, open(os.path.join(d, "meta.json"), "w"), indent=1)
    rows.append((sid, pid, (meta.get("title") or meta.get("what_it_breaks") or "")[:110].replace("|", "/"), ", ".join(meta.get("files_touched", []))[:70] if isinstance(meta.get("files_touched"), list) else str(meta.get("files_touched", ""))[:70],
                 suite.get("ctest", "?")[:24], "%s/%s" % (du.get("rc"), dc.get("rc")), "yes" if chk.get("caught") else "NO", how))
with open(os.path.join(V, "seeded", "SUMMARY.md"), "w") as fh:
    fh.write("# Seeded breaking changes\n\nEach directory holds `patch.diff`, `demo.cpp`, `meta.json` (written by an independent sub-agent that saw only the property text, "
             "plus `verified_by_coordinator`), `suite.json` (unit tests with only this patch applied), `result.json` (the property's check against the patched tree).\n\n"
             "| id | property | change | files | unit tests with the change | demo rc unchanged/changed | caught by the check | how |\n|---|---|---|---|---|---|---|---|\n")
    for r in rows:
        fh.write("| " + " | ".join(str(x) for x in r) + " |\n")
print(len(rows), "rows;", sum(1 for r in rows if r[6] == "yes"), "caught")
