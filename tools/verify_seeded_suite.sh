#!/bin/bash
# verify_seeded_suite.sh <worktree> <seeded-id>...  — apply each seeded patch in a scratch worktree of /repo,
# rebuild the unit tests (incremental ninja build) and run ctest; record the outcome in seeded/<id>/suite.json
WT=$1; shift
B=$WT/_b
if [ ! -d $B ]; then cmake -S $WT -B $B -G Ninja -DCMAKE_BUILD_TYPE=RelWithDebInfo -DPEGTL_BUILD_EXAMPLES=OFF > /dev/null; fi
for sid in "$@"; do
  d=/verif/seeded/$sid
  [ -f $d/suite.json ] && continue
  git -C $WT checkout -q -- . 
  if ! git -C $WT apply $d/patch.diff; then echo "{\"applies\": false}" > $d/suite.json; continue; fi
  cmake --build $B -j8 > $B/build.log 2>&1; brc=$?
  out=$(ctest --test-dir $B -j8 --timeout 900 2>&1 | tail -5)
  passed=$(echo "$out" | grep -o '[0-9]*% tests passed, [0-9]* tests failed out of [0-9]*')
  git -C $WT checkout -q -- .
  python3 - "$d/suite.json" "$brc" "$passed" <<'PY'
import json,sys
json.dump({"applies": True, "build_rc": int(sys.argv[2]), "ctest": sys.argv[3], "cmd": "cmake --build (RelWithDebInfo, examples off) && ctest -j8 in a scratch worktree with only this patch applied"}, open(sys.argv[1],"w"), indent=1)
PY
  echo "$sid: build=$brc $passed"
done
