#!/usr/bin/env python3
"""doc_equiv — the specification side of C09, read from the reference text.

Extracts every  * [Equivalent] to `EXPR`  clause of /repo/doc/Rule-Reference.md together with the
rule header(s) it is listed under (`###### `name< params >``), parses the clause language (nested
`name< args >`, pack expansion `X...`, `Max - Min`, the informal `, ...,` repetition of rep<> and
ranges<>) and instantiates a clause on concrete template arguments, giving the C++ text of the
DOCUMENTED EXPANSION.  Nothing here looks at the library's headers: what the clause says is what
comes out.  Used by lib/props_c09.py (twin grammars) and checks/C09.py (gen/AliasC09_gen.v).

    import doc_equiv
    cl = doc_equiv.load()                                   # [Clause]
    doc_equiv.expansions("list", ["R", "S"])                # [(clause, "seq< R, star< S, R > >")]

CLI:  tools/doc_equiv.py            lists every clause that was extracted
      tools/doc_equiv.py list A B   prints the expansions of list< A, B >
"""
import os
import re
import sys

REPO = os.environ.get("VERIF_REPO", "/repo")
REFERENCE = os.path.join(REPO, "doc", "Rule-Reference.md")


# --------------------------------------------------------------------------- clause language
TOK = re.compile(r"\s*(\.\.\.|'(?:\\.|[^'\\])'|[A-Za-z_][A-Za-z_0-9:]*|0x[0-9a-fA-F]+|\d+|<|>|,|-|=)")


def tokenize(s):
    out = []
    i = 0
    s = s.strip()
    while i < len(s):
        m = TOK.match(s, i)
        if not m:
            raise ValueError("cannot tokenize %r at %d" % (s, i))
        out.append(m.group(1))
        i = m.end()
    return out


class Node:
    """kind: 'app' (name, args), 'id' (name), 'lit' (text), 'dots', 'sub' (args = [a, b]);  pack = followed by `...`"""
    def __init__(self, kind, name=None, args=None, pack=False):
        self.kind = kind
        self.name = name
        self.args = args or []
        self.pack = pack

    def __repr__(self):
        if self.kind == "app":
            s = "%s< %s >" % (self.name, ", ".join(map(repr, self.args)))
        elif self.kind == "sub":
            s = "%r - %r" % (self.args[0], self.args[1])
        elif self.kind == "dots":
            s = "..."
        else:
            s = self.name
        return s + ("..." if self.pack else "")


def parse(tokens):
    pos = [0]

    def peek():
        return tokens[pos[0]] if pos[0] < len(tokens) else None

    def take():
        t = tokens[pos[0]]
        pos[0] += 1
        return t

    def atom():
        t = take()
        if t == "...":
            return Node("dots")
        if re.match(r"'|\d|0x", t):
            n = Node("lit", t)
        else:
            n = Node("id", t)
            if peek() == "<":
                take()
                args = []
                if peek() == ">":
                    take()
                else:
                    while True:
                        args.append(term())
                        t2 = take()
                        if t2 == ">":
                            break
                        if t2 != ",":
                            raise ValueError("expected , or > but got %r" % t2)
                n = Node("app", t, args)
        return n

    def term():
        n = atom()
        if peek() == "-":
            take()
            n = Node("sub", args=[n, atom()])
        if peek() == "=":          # default argument in a header:  T = S
            take()
            d = atom()
            n.default = d
        if peek() == "..." and n.kind != "dots":
            # `X...` is a pack expansion; a bare `...` list element is preceded by a comma
            take()
            n.pack = True
        return n

    n = term()
    if pos[0] != len(tokens):
        raise ValueError("trailing tokens %r" % tokens[pos[0]:])
    return n


class Clause:
    def __init__(self, header, expr, note, line):
        self.header_text = header
        self.expr_text = expr
        self.note = note
        self.line = line
        self.header = parse(tokenize(header))
        self.expr = parse(tokenize(expr))
        self.name = self.header.name
        self.params = []          # (name, is_pack, default or None)
        for a in self.header.args:
            if a.kind == "dots":
                self.params.append(("...", True, None))
            else:
                self.params.append((a.name, a.pack, getattr(a, "default", None)))

    def __repr__(self):
        return "%s  ==  %s%s" % (self.header_text, self.expr_text, ("   [" + self.note + "]") if self.note else "")

    # ---- binding template arguments to the header's parameters
    def bind(self, args):
        env = {}
        ps = self.params
        npack = sum(1 for p in ps if p[1])
        fixed = [p for p in ps if not p[1]]
        need = sum(1 for p in fixed if p[2] is None)
        if npack == 0 and not (need <= len(args) <= len(fixed)):
            return None
        if npack and len(args) < need:
            return None
        i = 0
        for (n, is_pack, dflt) in ps:
            if is_pack:
                env[n] = list(args[i:])
                i = len(args)
            elif i < len(args):
                env[n] = args[i]
                i += 1
            elif dflt is not None:
                env[n] = env[dflt.name]
            else:
                return None
        return env

    def instantiate(self, args):
        """C++ text of the documented expansion of  name< args >, or None when the clause does not apply"""
        args = [a.strip() for a in args]
        if self.name == "ranges":
            return ranges_clause(self, args)
        env = self.bind(args)
        if env is None:
            return None
        note = self.note
        for p in getattr(self, "nonempty", ()):
            if isinstance(env.get(p), list) and not env[p]:
                return None
        if "is a single rule" in note:
            packs = [v for v in env.values() if isinstance(v, list)]
            if not packs or len(packs[0]) != 1:
                return None
        m = re.search(r"if `(\w+)` is the first rule of `(\w+)\.\.\.`", note)
        if m:
            if not env.get(m.group(2)):
                return None
            env[m.group(1)] = env[m.group(2)][0]
        rep_count = None
        m = re.search(r"is repeated `(\w+)` times", note)
        if m:
            rep_count = int(env[m.group(1)])
        out = inst(self.expr, env, rep_count)
        if len(out) != 1:
            raise ValueError("clause %r does not instantiate to one rule" % self)
        return out[0]


def packs_in(n, env):
    s = set()
    if n.kind == "id" and isinstance(env.get(n.name), list):
        s.add(n.name)
    for a in n.args:
        s |= packs_in(a, env)
    return s


def inst(n, env, rep_count=None, expanding=False):
    """-> list of C++ strings (a pack expansion yields 0..n elements)"""
    if n.pack and not expanding:
        ps = sorted(packs_in(n, env))
        if not ps:
            raise ValueError("`...` after something that mentions no pack: %r" % n)
        k = len(env[ps[0]])
        out = []
        for i in range(k):
            e2 = dict(env)
            for p in ps:
                e2[p] = env[p][i]
            out += inst(n, e2, rep_count, expanding=True)
        return out
    if n.kind == "lit":
        return [n.name]
    if n.kind == "id":
        v = env.get(n.name)
        if v is None:
            return [n.name]                      # a rule name of the library: any, eof, success, identifier_other ...
        if isinstance(v, list):
            return list(v)                       # a pack mentioned without `...` (e.g. `opt< R >` when R... is a single rule)
        return [str(v)]
    if n.kind == "sub":
        a = inst(n.args[0], env)[0]
        b = inst(n.args[1], env)[0]
        return [str(int(a, 0) - int(b, 0))]
    if n.kind == "app":
        args = []
        raw = n.args
        if any(a.kind == "dots" for a in raw):
            # informal repetition  X, ..., X   (rep<>): X repeated rep_count times
            if rep_count is None:
                raise ValueError("bare ... without a repetition count in %r" % n)
            items = [a for a in raw if a.kind != "dots"]
            x = inst(items[0], env)
            if any(inst(a, env) != x for a in items):
                raise ValueError("X, ..., Y with X != Y in %r" % n)
            for _ in range(rep_count):
                args += x
        else:
            for a in raw:
                args += inst(a, env, rep_count)
        if not args:
            return ["%s<>" % n.name]
        return ["%s< %s >" % (n.name, ", ".join(args))]
    raise ValueError("unexpected node %r" % n)


def ranges_clause(cl, args):
    """ranges< C1, D1, C2, D2, ... >  ==  sor< range< C1, D1 >, range< C2, D2 >, ... >   (even)
       ranges< C1, D1, ..., E >       ==  sor< range< C1, D1 >, ..., one< E > >            (odd)"""
    odd_header = cl.header.args and cl.header.args[-1].kind != "dots"
    odd_expr = "one<" in cl.expr_text.replace(" ", "")
    if (len(args) % 2 == 1) != odd_expr:
        return None
    items = ["range< %s, %s >" % (args[i], args[i + 1]) for i in range(0, len(args) - 1, 2)]
    if odd_expr:
        items.append("one< %s >" % args[-1])
    _ = odd_header
    return "sor< %s >" % ", ".join(items) if items else "sor<>"


# --------------------------------------------------------------------------- extraction
HEADER_RE = re.compile(r"^###### `([^`]+)`\s*$")
NONEMPTY_RE = re.compile(r"^\* (?:`(\w+)` must be a non-empty (?:rule|character) pack|Does not apply if `(\w+)` is an empty rule pack)")
CLAUSE_RE = re.compile(r"^\* \[Equivalent\] to `([^`]+)`(.*)$")
SECTION_RE = re.compile(r"^## (.+)$")
# sections of the reference whose rules live in tao::pegtl / tao::pegtl::ascii
SECTIONS = ("Meta Rules", "Combinators", "Convenience", "Action Rules", "Atomic Rules", "ASCII Rules")


def load(path=None):
    path = path or REFERENCE
    out = []
    headers = []
    fresh = True
    section = ""
    nonempty = {}
    for ln, l in enumerate(open(path, encoding="utf-8").read().split("\n"), 1):
        m = SECTION_RE.match(l)
        if m:
            section = m.group(1).strip()
            continue
        m = HEADER_RE.match(l)
        if m:
            if not fresh:
                headers = []
            headers.append(m.group(1))
            fresh = True
            continue
        if l.strip():
            fresh = False
        m = NONEMPTY_RE.match(l)
        if m:
            # "`R` must be a non-empty rule pack." / "Does not apply if `S` is an empty rule pack": constrains every
            # clause listed under the same header(s), whether it comes before or after this line
            nonempty.setdefault(tuple(headers), set()).add(m.group(1) or m.group(2))
            continue
        m = CLAUSE_RE.match(l)
        if not m or section not in SECTIONS:
            continue
        expr, rest = m.group(1), m.group(2).strip()
        if rest.startswith(", but") or "wrt." in rest:
            continue                              # "equivalent to seq< R... >, but: ..." is not an equivalence claim
        note = rest.rstrip(".").strip()
        for h in headers:
            if "TAO_PEGTL" in h:
                continue
            try:
                c = Clause(h, expr, note, ln)
            except ValueError as e:               # a clause we cannot read is reported, never dropped silently
                out.append(Unparsed(h, expr, note, ln, str(e)))
                continue
            c.section = section
            c.block = tuple(headers)
            out.append(c)
    for c in out:
        c.nonempty = nonempty.get(getattr(c, "block", None), set())
    # ranges: the two headers carry the two clauses pairwise (even / odd argument count)
    return out


class Unparsed:
    def __init__(self, header, expr, note, line, why):
        self.header_text, self.expr_text, self.note, self.line, self.why = header, expr, note, line, why
        self.name = header.split("<")[0].strip()
        self.section = ""

    def instantiate(self, args):
        raise ValueError("clause at line %d could not be parsed: %s" % (self.line, self.why))

    def __repr__(self):
        return "UNPARSED %s == %s (%s)" % (self.header_text, self.expr_text, self.why)


_CACHE = {}


def expansions(name, args, path=None):
    """[(clause, cpp)] for every clause listed under a header `name< ... >` that applies to these arguments"""
    key = path or REFERENCE
    if key not in _CACHE:
        _CACHE[key] = load(path)
    out = []
    seen = set()
    for c in _CACHE[key]:
        if c.name != name:
            continue
        x = c.instantiate(args)
        if x is not None and x not in seen:
            seen.add(x)
            out.append((c, x))
    return out


def split_args(s):
    """'rep< 2, seq< a, b > >' -> ('rep', ['2', 'seq< a, b >'])"""
    s = s.strip()
    if "<" not in s:
        return s, []
    name, rest = s.split("<", 1)
    rest = rest.rstrip()
    assert rest.endswith(">"), s
    rest = rest[:-1]
    args = []
    depth = 0
    cur = ""
    inq = False
    i = 0
    while i < len(rest):
        ch = rest[i]
        if inq:
            cur += ch
            if ch == "\\":
                cur += rest[i + 1]
                i += 1
            elif ch == "'":
                inq = False
        elif ch == "'":
            inq = True
            cur += ch
        elif ch == "<":
            depth += 1
            cur += ch
        elif ch == ">":
            depth -= 1
            cur += ch
        elif ch == "," and depth == 0:
            args.append(cur.strip())
            cur = ""
        else:
            cur += ch
        i += 1
    if cur.strip():
        args.append(cur.strip())
    return name.strip(), args


def main(argv):
    if len(argv) >= 1:
        for c, x in expansions(argv[0], argv[1:]):
            print("%-40s %s" % (c.header_text, x))
        return 0
    for c in load():
        print("%5d  %s" % (c.line, c))
    return 0


if __name__ == "__main__":
    sys.exit(main(sys.argv[1:]))
