#!/usr/bin/env python3
"""run_seeded — run registered checks against the seeded breaking changes under /verif/seeded/.

usage: tools/run_seeded.py [--tier quick|thorough] [--props C02,C01] [--inplace] <seeded-id>... | --all

For each seeded change (seeded/<id>/patch.diff, demo.cpp, meta.json):
  1. the demonstration is compiled against the unchanged tree (must pass) and the changed tree (must fail);
  2. the check of the property the change breaks (meta.json "property"; --props adds others) is run
     against the changed tree and must exit 1 with a VIOLATION line;
  3. the outcome is written to seeded/<id>/result.json.
Default: the change is applied to a scratch COPY of /repo (include/ + src/example for C17) and the
checks run with VERIF_REPO pointing at it, so that other jobs using /repo are not disturbed.
--inplace: literally `git -C /repo apply`, run, `git -C /repo checkout -- .` (the protocol of the
brief; use only when nothing else is running)."""
import json
import os
import shutil
import subprocess
import sys
import time

VERIF = os.path.dirname(os.path.dirname(os.path.abspath(__file__)))
SEEDED = os.path.join(VERIF, "seeded")


def sh(cmd, **kw):
    p = subprocess.run(cmd, stdout=subprocess.PIPE, stderr=subprocess.STDOUT, text=True, errors="replace", **kw)
    return p.returncode, p.stdout


def demo(inc_root, sid, d):
    src = os.path.join(d, "demo.cpp")
    if not os.path.exists(src):
        return None
    exe = "/tmp/seedrun_demo_%s_%d" % (sid, os.getpid())
    rc, out = sh(["g++", "-std=c++17", "-I", os.path.join(inc_root, "include"), "-I", os.path.join(inc_root, "src", "example", "pegtl"), src, "-o", exe], timeout=600)
    if rc != 0:
        return {"build": "failed", "out": out[-800:]}
    try:
        rc, out = sh([exe], timeout=120)
    except subprocess.TimeoutExpired:
        rc, out = 124, "timeout"
    os.remove(exe)
    return {"rc": rc, "out": out[-400:]}


def main():
    args = sys.argv[1:]
    tier = "quick"
    props = None
    inplace = False
    ids = []
    i = 0
    while i < len(args):
        a = args[i]
        if a == "--tier":
            tier = args[i + 1]
            i += 1
        elif a == "--props":
            props = args[i + 1].split(",")
            i += 1
        elif a == "--inplace":
            inplace = True
        elif a == "--all":
            ids = sorted(x for x in os.listdir(SEEDED) if os.path.exists(os.path.join(SEEDED, x, "patch.diff")))
        else:
            ids.append(a)
        i += 1
    worst = 0
    for sid in ids:
        d = os.path.join(SEEDED, sid)
        meta = json.load(open(os.path.join(d, "meta.json")))
        patch = os.path.join(d, "patch.diff")
        plist = props or [meta["property"]]
        res = {"seeded": sid, "tier": tier, "checks": {}, "at": time.strftime("%Y-%m-%d %H:%M:%S")}
        res["demo_unchanged"] = demo("/repo", sid, d)
        if inplace:
            root = "/repo"
            rc, out = sh(["git", "-C", "/repo", "apply", patch])
            if rc != 0:
                print(sid, "patch does not apply:", out[-300:])
                continue
        else:
            root = "/tmp/seedrun_%s_%d" % (sid, os.getpid())
            shutil.rmtree(root, ignore_errors=True)
            os.makedirs(root)
            sh(["git", "-C", "/repo", "archive", "--format=tar", "-o", root + ".tar", "HEAD", "include", "src/example", "doc"])
            sh(["tar", "-xf", root + ".tar", "-C", root])
            os.remove(root + ".tar")
            rc, out = sh(["patch", "-p1", "-d", root, "-i", patch])
            if rc != 0:
                print(sid, "patch does not apply:", out[-300:])
                shutil.rmtree(root, ignore_errors=True)
                continue
        try:
            res["demo_changed"] = demo(root, sid, d)
            for pid in plist:
                env = dict(os.environ)
                if not inplace:
                    env["VERIF_REPO"] = root
                t0 = time.time()
                rc, out = sh([os.path.join(VERIF, "bin", "check"), pid, tier], cwd=VERIF, env=env, timeout=3600)
                lines = [l for l in out.split("\n") if l.startswith(("VIOLATION", "KNOWN-FINDING", pid + " "))]
                res["checks"][pid] = {"rc": rc, "lines": lines[:12], "wall_s": round(time.time() - t0, 1), "caught": rc == 1 and any(l.startswith("VIOLATION") for l in lines)}
                print("%s: check %s %s -> rc=%d %s (%.0fs)" % (sid, pid, tier, rc, "CAUGHT" if res["checks"][pid]["caught"] else "MISSED", time.time() - t0))
                for l in lines[:4]:
                    print("    " + l[:300])
                if pid == meta["property"] and not res["checks"][pid]["caught"]:
                    worst = 1
        finally:
            if inplace:
                sh(["git", "-C", "/repo", "checkout", "--", "."])
            else:
                shutil.rmtree(root, ignore_errors=True)
        with open(os.path.join(d, "result.json" if tier == "quick" else "result_%s.json" % tier), "w") as fh:
            json.dump(res, fh, indent=1)
    return worst


if __name__ == "__main__":
    sys.exit(main())
