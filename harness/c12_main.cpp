// c12_main.cpp - entry point of a C12 corpus binary:
//   <bin> dump          -> NODE/NAME/ACT lines (vharness table), SEL/ROF lines, REG12 lines
//   <bin> run <cases>   -> one PT line per case "gid sel act hexinput"
#include "c12_harness.hpp"
#include <cstdlib>
#include <fstream>
#include <iostream>
#include <tuple>
void register_all();
static std::string unhex( const std::string& h )
{
   if( h == "-" ) {
      return "";
   }
   std::string r;
   for( std::size_t i = 0; i + 1 < h.size(); i += 2 ) {
      r += char( std::stoi( h.substr( i, 2 ), nullptr, 16 ) );
   }
   return r;
}
int main( int argc, char** argv )
{
   register_all();
   const std::string mode = argc > 1 ? argv[ 1 ] : "dump";
   if( mode == "dump" ) {
      vh::print_table();
      for( const auto& l : c12::sel_lines() ) {
         std::printf( "%s\n", l.c_str() );
      }
      for( const auto& e : c12::registry() ) {
         std::printf( "REG12 %d %d %s %s\n", e.gid, e.root, e.sel.c_str(), e.act.c_str() );
      }
      return 0;
   }
   std::map< std::tuple< int, std::string, std::string >, const c12::Entry* > m;
   for( const auto& e : c12::registry() ) {
      m[ { e.gid, e.sel, e.act } ] = &e;
   }
   const bool echo = std::getenv( "VH_ECHO" ) != nullptr;
   std::ifstream f( argv[ 2 ] );
   int gid;
   std::string sel, act, h;
   while( f >> gid >> sel >> act >> h ) {
      const auto it = m.find( { gid, sel, act } );
      if( it == m.end() ) {
         continue;
      }
      if( echo ) {
         std::fprintf( stderr, "CASE %d %s %s %s\n", gid, sel.c_str(), act.c_str(), h.c_str() );
      }
      it->second->fn( gid, it->second->root, sel, act, unhex( h ) );
   }
   return 0;
}
