// c16_impl.cpp — implementation side of the C16 (raw_string) correspondence.
// Runs the REAL tao::pegtl::raw_string<...> from the tree under test on exact-size heap buffers
// and prints one canonical line per (rule, eol policy, input):
//
//   <rule> <eol> h<hex input> <req,act> <req,noact> <opt,act> <opt,noact>
//
// each result being  <ok>,<byte>,<line>,<col>,<content>  with <content> = '-' (Action< content >
// not called) or C<byte>.<line>.<col>-<byte>.<line>.<col> (begin / end of the action's input;
// suffix x<k> when the action was called k != 1 times).  The final position is the input's
// position after parse() returned, also after a local failure.
//
//   c16_impl enum <rule> <maxlen> <prefix>  all strings of length <= maxlen over the rule's
//                                           alphabet that start with <prefix> (a string of
//                                           alphabet indices, "-" = every string); lines whose
//                                           four results are all 0,0,1,1,- are counted, not printed
//   c16_impl file <path>                    one hex string per line, every rule, every line printed
#include <tao/pegtl.hpp>
#include <tao/pegtl/contrib/raw_string.hpp>

#include <cstdio>
#include <cstdlib>
#include <cstring>
#include <fstream>
#include <iostream>
#include <memory>
#include <string>
#include <vector>

namespace pegtl = tao::pegtl;
using namespace tao::pegtl;

namespace
{
   struct record
   {
      int calls = 0;
      std::size_t bb = 0, bl = 0, bc = 0, eb = 0, el = 0, ec = 0;
   };
   record g_rec;

   template< typename Rule >
   struct act
      : nothing< Rule >
   {};

   struct record_span
   {
      // match.hpp forwards the states it was called with; raw_string calls Control< content >::match
      // with marker_size in front of the user's states, so apply() must accept extra arguments.
      template< typename ActionInput, typename... States >
      static void apply( const ActionInput& in, const States&... /*unused*/ )
      {
         ++g_rec.calls;
         const auto b = in.position();
         const auto e = in.input().position();
         g_rec.bb = b.byte;
         g_rec.bl = b.line;
         g_rec.bc = b.column;
         g_rec.eb = e.byte;
         g_rec.el = e.line;
         g_rec.ec = e.column;
         // the span seen by the action is [ in.begin(), in.end() ): cross-check with the positions
         if( std::size_t( in.end() - in.begin() ) != e.byte - b.byte ) {
            g_rec.calls += 1000;
         }
      }
   };

   using rs0 = raw_string< '[', '=', ']' >;
   using rs1 = raw_string< '<', '-', '>' >;
   using rs2 = raw_string< '(', '*', ')' >;
   using rs3 = raw_string< '|', '=', '|' >;                   // Close == Open
   using rs4 = raw_string< '[', '=', ']', any >;
   using rs5 = raw_string< '[', '=', ']', not_one< 'x' > >;
   using rs6 = raw_string< '[', '=', ']', bytes< 2 > >;
   using rs7 = raw_string< '{', '#', '#' >;                   // Close == Marker

   template<> struct act< rs0::content > : record_span {};
   template<> struct act< rs1::content > : record_span {};
   template<> struct act< rs2::content > : record_span {};
   template<> struct act< rs3::content > : record_span {};
   template<> struct act< rs4::content > : record_span {};
   template<> struct act< rs5::content > : record_span {};
   template<> struct act< rs6::content > : record_span {};
   template<> struct act< rs7::content > : record_span {};

   constexpr int NRULES = 8;
   const char rule_chars[ NRULES ][ 3 ] = {
      { '[', '=', ']' }, { '<', '-', '>' }, { '(', '*', ')' }, { '|', '=', '|' },
      { '[', '=', ']' }, { '[', '=', ']' }, { '[', '=', ']' }, { '{', '#', '#' } };

   std::string alphabet_of( const int rule )
   {
      std::string a;
      const char cand[ 6 ] = { rule_chars[ rule ][ 0 ], rule_chars[ rule ][ 1 ], rule_chars[ rule ][ 2 ], '\n', '\r', 'x' };
      for( const char ch : cand ) {
         if( a.find( ch ) == std::string::npos ) {
            a += ch;
         }
      }
      return a;
   }

   template< typename Rule, typename Eol, rewind_mode M, bool Act >
   void run1( const char* b, const char* e, std::string& out )
   {
      memory_input< tracking_mode::eager, Eol > in( b, e, "" );
      g_rec = record();
      bool r;
      if constexpr( Act ) {
         r = parse< Rule, act, normal, apply_mode::action, M >( in );
      }
      else {
         r = parse< Rule, nothing, normal, apply_mode::action, M >( in );
      }
      const auto p = in.position();
      char buf[ 256 ];
      int n = std::snprintf( buf, sizeof( buf ), " %d,%zu,%zu,%zu,", r ? 1 : 0, p.byte, p.line, p.column );
      out.append( buf, n );
      if( g_rec.calls == 0 ) {
         out += '-';
      }
      else {
         n = std::snprintf( buf, sizeof( buf ), "C%zu.%zu.%zu-%zu.%zu.%zu", g_rec.bb, g_rec.bl, g_rec.bc, g_rec.eb, g_rec.el, g_rec.ec );
         out.append( buf, n );
         if( g_rec.calls != 1 ) {
            n = std::snprintf( buf, sizeof( buf ), "x%d", g_rec.calls );
            out.append( buf, n );
         }
      }
   }

   template< typename Rule, typename Eol >
   void run4( const char* b, const char* e, std::string& out )
   {
      run1< Rule, Eol, rewind_mode::required, true >( b, e, out );
      run1< Rule, Eol, rewind_mode::required, false >( b, e, out );
      run1< Rule, Eol, rewind_mode::optional, true >( b, e, out );
      run1< Rule, Eol, rewind_mode::optional, false >( b, e, out );
   }

   using run4_t = void ( * )( const char*, const char*, std::string& );

   template< typename Rule >
   struct per_rule
   {
      static constexpr run4_t tab[ 5 ] = {
         &run4< Rule, eol::lf >, &run4< Rule, eol::cr >, &run4< Rule, eol::crlf >, &run4< Rule, eol::lf_crlf >, &run4< Rule, eol::cr_crlf >
      };
   };

   const run4_t* rule_tab( const int rule )
   {
      switch( rule ) {
         case 0: return per_rule< rs0 >::tab;
         case 1: return per_rule< rs1 >::tab;
         case 2: return per_rule< rs2 >::tab;
         case 3: return per_rule< rs3 >::tab;
         case 4: return per_rule< rs4 >::tab;
         case 5: return per_rule< rs5 >::tab;
         case 6: return per_rule< rs6 >::tab;
         case 7: return per_rule< rs7 >::tab;
      }
      std::abort();
   }

   const char* const TRIVIAL = " 0,0,1,1,- 0,0,1,1,- 0,0,1,1,- 0,0,1,1,-";

   unsigned long long n_total = 0;
   unsigned long long n_trivial = 0;

   void run_case( const int rule, const std::string& s, const bool suppress )
   {
      // the input is a window inside a larger heap buffer: no terminator, and the bytes BEHIND the logical end are
      // adversarial (the rule's own alphabet: open / marker / close / line endings), so that any dependence on data
      // outside [begin,end) changes the result; every case runs with two different tails which must agree
      const std::string alpha = alphabet_of( rule );
      std::string tail1 = alpha + std::string( alpha.rbegin(), alpha.rend() ) + alpha;
      std::string tail2( tail1.rbegin(), tail1.rend() );
      tail2 = std::string( 1, alpha.empty() ? 'x' : alpha[ alpha.size() / 2 ] ) + tail2;
      std::unique_ptr< char[] > buf( new char[ s.size() + tail1.size() ] );
      std::unique_ptr< char[] > buf2( new char[ s.size() + tail2.size() ] );
      if( !s.empty() ) {
         std::memcpy( buf.get(), s.data(), s.size() );
         std::memcpy( buf2.get(), s.data(), s.size() );
      }
      std::memcpy( buf.get() + s.size(), tail1.data(), tail1.size() );
      std::memcpy( buf2.get() + s.size(), tail2.data(), tail2.size() );
      const char* b = buf.get();
      const char* e = b + s.size();
      const run4_t* tab = rule_tab( rule );
      std::string out;
      for( int eo = 0; eo < 5; ++eo ) {
         out.clear();
         tab[ eo ]( b, e, out );
         {
            std::string out2;
            tab[ eo ]( buf2.get(), buf2.get() + s.size(), out2 );
            if( out2 != out ) {
               out += " TAILDEP[" + out2 + "]";      // the result depends on bytes behind the end of the input
            }
         }
         ++n_total;
         if( suppress && ( out == TRIVIAL ) ) {
            ++n_trivial;
            continue;
         }
         std::string hex = "h";
         static const char* digits = "0123456789abcdef";
         for( const char ch : s ) {
            const auto u = static_cast< unsigned char >( ch );
            hex += digits[ u >> 4 ];
            hex += digits[ u & 15 ];
         }
         std::printf( "%d %d %s%s\n", rule, eo, hex.c_str(), out.c_str() );
      }
   }

   // all strings over the rule's alphabet that start with the given prefix (a string of alphabet
   // indices, "-" = empty prefix) and have length <= maxlen, shorter strings first, last letter fastest
   void enumerate( const int rule, const int maxlen, const std::string& prefix_arg )
   {
      const std::string alpha = alphabet_of( rule );
      const int k = int( alpha.size() );
      std::vector< int > prefix;
      if( prefix_arg != "-" ) {
         for( const char ch : prefix_arg ) {
            const int d = ch - '0';
            if( d < 0 || d >= k ) {
               return;  // no such letter in this alphabet: empty shard
            }
            prefix.push_back( d );
         }
      }
      const int lowest = int( prefix.size() );
      for( int len = lowest; len <= maxlen; ++len ) {
         std::vector< int > idx( len, 0 );
         for( int i = 0; i < lowest; ++i ) {
            idx[ i ] = prefix[ i ];
         }
         std::string s( len, ' ' );
         while( true ) {
            for( int i = 0; i < len; ++i ) {
               s[ i ] = alpha[ idx[ i ] ];
            }
            run_case( rule, s, true );
            int p = len - 1;
            while( p >= lowest ) {
               if( ++idx[ p ] < k ) {
                  break;
               }
               idx[ p ] = 0;
               --p;
            }
            if( p < lowest ) {
               break;
            }
         }
      }
   }

   int unhex( const char ch )
   {
      if( ch >= '0' && ch <= '9' ) return ch - '0';
      if( ch >= 'a' && ch <= 'f' ) return ch - 'a' + 10;
      return -1;
   }

}  // namespace

int main( int argc, char** argv )
{
   if( argc >= 5 && std::string( argv[ 1 ] ) == "enum" ) {
      const int rule = std::atoi( argv[ 2 ] );
      const int maxlen = std::atoi( argv[ 3 ] );
      enumerate( rule, maxlen, argv[ 4 ] );
      std::printf( "total=%llu trivial=%llu\n", n_total, n_trivial );
      return 0;
   }
   if( argc >= 3 && std::string( argv[ 1 ] ) == "file" ) {
      std::ifstream f( argv[ 2 ] );
      std::string line;
      while( std::getline( f, line ) ) {
         std::string s;
         for( std::size_t i = 0; i + 1 < line.size(); i += 2 ) {
            const int a = unhex( line[ i ] );
            const int b = unhex( line[ i + 1 ] );
            if( a < 0 || b < 0 ) {
               break;
            }
            s += char( a * 16 + b );
         }
         for( int rule = 0; rule < NRULES; ++rule ) {
            run_case( rule, s, false );
         }
      }
      std::printf( "total=%llu trivial=%llu\n", n_total, n_trivial );
      return 0;
   }
   std::fprintf( stderr, "usage: c16_impl enum <rule> <maxlen> <prefix> | file <path>\n" );
   return 2;
}
