// c11_main.cpp - entry point of a C11 corpus binary
//   <bin> dump              -> NODE/NAME lines of the shared table, REG gid root, AENT/ATOT lines (the real analysis)
//   <bin> run <inputsfile>  -> IRUN gid <letters>; the file holds "gid hex hex hex ..." lines ("-" = empty input)
#include "c11_harness.hpp"
#include <cstdlib>
#include <fstream>
#include <iostream>
#include <sstream>
#include <sys/resource.h>
#include <unistd.h>
void register_all();
static std::string unhex( const std::string& h )
{
   if( h == "-" ) {
      return "";
   }
   std::string r;
   for( std::size_t i = 0; i + 1 < h.size(); i += 2 ) {
      r += char( std::stoi( h.substr( i, 2 ), nullptr, 16 ) );
   }
   return r;
}
int main( int argc, char** argv )
{
   // deep (but bounded, see c11::max_depth) recursion at -O0 needs more than the default stack
   {
      rlimit rl;
      const rlim_t want = rlim_t( 1 ) << 30;
      if( ( getrlimit( RLIMIT_STACK, &rl ) == 0 ) && ( rl.rlim_cur != RLIM_INFINITY ) && ( rl.rlim_cur < want ) && ( std::getenv( "C11_REEXEC" ) == nullptr ) ) {
         rl.rlim_cur = ( rl.rlim_max == RLIM_INFINITY || rl.rlim_max >= want ) ? want : rl.rlim_max;
         if( setrlimit( RLIMIT_STACK, &rl ) == 0 ) {
            setenv( "C11_REEXEC", "1", 1 );
            execv( "/proc/self/exe", argv );
         }
      }
   }
   register_all();
   const std::string mode = argc > 1 ? argv[ 1 ] : "dump";
   if( mode == "dump" ) {
      vh::print_table();
      for( const auto& e : c11::items() ) {
         std::printf( "REG %d %d\n", e.gid, e.root );
         e.analysis();
      }
      return 0;
   }
   std::map< int, const c11::item* > m;
   for( const auto& e : c11::items() ) {
      m[ e.gid ] = &e;
   }
   std::ifstream f( argv[ 2 ] );
   std::string line;
   while( std::getline( f, line ) ) {
      std::istringstream is( line );
      int gid;
      if( !( is >> gid ) ) {
         continue;
      }
      const auto it = m.find( gid );
      if( it == m.end() ) {
         continue;
      }
      std::string h, out;
      while( is >> h ) {
         out += it->second->run( unhex( h ) );
      }
      std::printf( "IRUN %d %s\n", gid, out.c_str() );
      std::fflush( stdout );
   }
   return 0;
}
