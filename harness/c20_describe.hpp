// c20_describe.hpp — C20 only: how the table dump represents tao::pegtl::maximum_rule< Unsigned, Maximum >
// (contrib/integer.hpp; uri::dec_octet derives from maximum_rule< std::uint8_t >).
//
// maximum_rule is a class with a hand-written match() (match_and_convert_unsigned_with_maximum_nothrow)
// and has no Engine.head constructor, so it is dumped as the leaf token `opaque`, for EVERY
// instantiation, and the dump program of checks/C20.py prints the node index, the bit width of
// Unsigned and the value of Maximum as three extra ROOT lines (-> gen/Uri_gen.v: uri_dec_octet,
// uri_dec_octet_bits, uri_dec_octet_max).  coq/UriModel.v (evalx) interprets exactly that node by
// the C15 model Integer.maximum_rule bits max, so an edit of the template arguments in uri.hpp
// changes the model, the correspondence follows the code, and the proofs about the table (which
// need 8 / 255) no longer compile.
//
// Do not include harness/describe_contrib.hpp in the same program (it specialises the same class).
#pragma once
#include "vharness.hpp"
#include <cstdint>
#include <cstdio>
#include <tao/pegtl/contrib/integer.hpp>

namespace vh
{
   template< typename U, U Max > struct describe< tao::pegtl::maximum_rule< U, Max > > { static std::string str() { return "opaque"; } };
}  // namespace vh

namespace c20
{
   // parameters of the class a rule derives its match() from; 0 0 when it is not a maximum_rule
   template< typename T > struct maxrule_params
   {
      static void print( const char* name ) { std::printf( "ROOT %s_bits 0\nROOT %s_max 0\n", name, name ); }
   };
   template< typename U, U Max > struct maxrule_params< tao::pegtl::maximum_rule< U, Max > >
   {
      static void print( const char* name )
      {
         std::printf( "ROOT %s_bits %u\nROOT %s_max %llu\n", name, static_cast< unsigned >( 8 * sizeof( U ) ), name, static_cast< unsigned long long >( Max ) );
      }
   };
}  // namespace c20
