// vharness.hpp — translator (grammar table dump through rule_t/subs_t/enable_control) and
// outside-only observers (Control, Action, state types) for the engine correspondence.
// Uses only public customisation points of PEGTL; compiled against /repo/include on every run.
#pragma once
#include <cstddef>
// bounds hook of the guarded instrumentation in memory_input / buffer_input (TAO_PEGTL_VERIF)
namespace vh
{
   struct oob_record
   {
      long count = 0;
      const char* what = "";
      long need = 0;
      long have = 0;
   };
   inline oob_record& oob()
   {
      static oob_record r;
      return r;
   }
   inline void access( const char* what, const std::size_t need, const std::ptrdiff_t have ) noexcept
   {
      if( ( have < 0 ) || ( need > std::size_t( have ) ) ) {
         oob_record& r = oob();
         if( r.count++ == 0 ) {
            r.what = what;
            r.need = long( need );
            r.have = long( have );
         }
      }
   }
}  // namespace vh
#define TAO_PEGTL_VERIF_ACCESS( what, need, have ) ::vh::access( what, need, have )
#include <tao/pegtl.hpp>
#include <tao/pegtl/contrib/limit_depth.hpp>
#include <tao/pegtl/contrib/limit_bytes.hpp>
#include <tao/pegtl/contrib/check_bytes.hpp>
#include <tao/pegtl/contrib/input_with_depth.hpp>
#include <tao/pegtl/contrib/utf16.hpp>
#include <tao/pegtl/contrib/utf32.hpp>
#include <tao/pegtl/contrib/uint8.hpp>
#include <tao/pegtl/contrib/uint16.hpp>
#include <tao/pegtl/contrib/uint32.hpp>
#include <tao/pegtl/contrib/uint64.hpp>
#include <cstdio>
#include <cstdlib>
#include <cstring>
#include <map>
#include <sstream>
#include <stdexcept>
#include <string>
#include <vector>

namespace vh
{
   using namespace tao::pegtl;
   namespace I = tao::pegtl::internal;

   // ------------------------------------------------------------------ value printing
   template< typename T >
   std::string pv( const T v )
   {
      if constexpr( std::is_signed_v< T > ) {
         return std::to_string( static_cast< long long >( v ) );
      }
      else {
         return std::to_string( static_cast< unsigned long long >( v ) );
      }
   }
   template< typename T, T... Vs >
   std::string pvs()
   {
      std::string s;
      ( ( s += ' ', s += pv< T >( Vs ) ), ... );
      return s;
   }

   // ------------------------------------------------------------------ describe<Peek>
   template< typename P > struct dpeek { static std::string str() { return "unknownpeek"; } };
   template<> struct dpeek< I::peek_char > { static std::string str() { return "char"; } };
   template<> struct dpeek< I::peek_utf8 > { static std::string str() { return "utf8"; } };
   template<> struct dpeek< I::peek_uint8 > { static std::string str() { return "uint8"; } };
   template< std::uint8_t M > struct dpeek< I::peek_mask_uint8< M > > { static std::string str() { return "mask8:" + std::to_string( unsigned( M ) ); } };
   template<> struct dpeek< I::peek_uint16_be > { static std::string str() { return "uint:2:be"; } };
   template<> struct dpeek< I::peek_uint16_le > { static std::string str() { return "uint:2:le"; } };
   template<> struct dpeek< I::peek_uint32_be > { static std::string str() { return "uint:4:be"; } };
   template<> struct dpeek< I::peek_uint32_le > { static std::string str() { return "uint:4:le"; } };
   template<> struct dpeek< I::peek_uint64_be > { static std::string str() { return "uint:8:be"; } };
   template<> struct dpeek< I::peek_uint64_le > { static std::string str() { return "uint:8:le"; } };
   template< std::uint16_t M > struct dpeek< I::peek_mask_uint_impl< I::read_uint16_be, M > > { static std::string str() { return "mask:2:be:" + std::to_string( M ); } };
   template< std::uint16_t M > struct dpeek< I::peek_mask_uint_impl< I::read_uint16_le, M > > { static std::string str() { return "mask:2:le:" + std::to_string( M ); } };
   template< std::uint32_t M > struct dpeek< I::peek_mask_uint_impl< I::read_uint32_be, M > > { static std::string str() { return "mask:4:be:" + std::to_string( M ); } };
   template< std::uint32_t M > struct dpeek< I::peek_mask_uint_impl< I::read_uint32_le, M > > { static std::string str() { return "mask:4:le:" + std::to_string( M ); } };
   template< std::uint64_t M > struct dpeek< I::peek_mask_uint_impl< I::read_uint64_be, M > > { static std::string str() { return "mask:8:be:" + std::to_string( M ); } };
   template< std::uint64_t M > struct dpeek< I::peek_mask_uint_impl< I::read_uint64_le, M > > { static std::string str() { return "mask:8:le:" + std::to_string( M ); } };
   template<> struct dpeek< I::peek_utf16_be > { static std::string str() { return "utf16:be"; } };
   template<> struct dpeek< I::peek_utf16_le > { static std::string str() { return "utf16:le"; } };
   template<> struct dpeek< I::peek_utf32_be > { static std::string str() { return "utf32:be"; } };
   template<> struct dpeek< I::peek_utf32_le > { static std::string str() { return "utf32:le"; } };

   // ------------------------------------------------------------------ harness-side marker types
   struct named {};   // generated grammars derive their named rules from this (no members; rule_t comes from the first base)
   template< typename R > inline constexpr bool is_named = std::is_base_of_v< named, R >;

   struct mustif {};  // generated grammars derive from this the named rules for which the must_if control families (ctl4/ctl5) have a message
   template< typename R > inline constexpr bool is_mustif = std::is_base_of_v< mustif, R >;
   struct mustsoft {};  // marker: the error table has a message for the rule but says raise_on_failure = false (only must< Rule > raises with it)
   template< typename R > inline constexpr bool is_mustsoft = std::is_base_of_v< mustsoft, R >;

   struct foreign_exn { int tag; };                       // a type unrelated to std::exception
   template< int Tag > struct typed_exn { };              // for try_catch_type_*

   template< template< typename... > class A > struct fam_id { static constexpr int value = -1; };
   template< template< typename... > class C > struct ctl_id { static constexpr int value = -1; };
   template< typename S > struct state_id { static constexpr int value = -1; };
   template< typename E > struct exn_filter { static std::string str() { return "unknownfilter"; } };
   template<> struct exn_filter< void > { static std::string str() { return "any"; } };
   template<> struct exn_filter< std::exception > { static std::string str() { return "std"; } };
   template<> struct exn_filter< parse_error_base > { static std::string str() { return "parse"; } };
   template<> struct exn_filter< foreign_exn > { static std::string str() { return "type:1"; } };
   template< typename A > struct inline_id { static constexpr int value = -1; };
   template< typename... As > std::string inline_ids() { std::string s; ( ( s += ' ', s += std::to_string( inline_id< As >::value ) ), ... ); return s; }

   // ------------------------------------------------------------------ describe<rule_t>
   template< typename T > struct describe { static std::string str() { return std::string( "unknown:" ) + std::string( demangle< T >() ); } };
   template<> struct describe< I::success > { static std::string str() { return "success"; } };
   template<> struct describe< I::failure > { static std::string str() { return "failure"; } };
   template<> struct describe< I::eof > { static std::string str() { return "eof"; } };
   template<> struct describe< I::eol > { static std::string str() { return "eol"; } };
   template<> struct describe< I::eolf > { static std::string str() { return "eolf"; } };
   template<> struct describe< I::bof > { static std::string str() { return "bof"; } };
   template<> struct describe< I::bol > { static std::string str() { return "bol"; } };
   template<> struct describe< I::discard > { static std::string str() { return "discard"; } };
   template< typename S > struct describe< I::everything< S > > { static std::string str() { return "everything"; } };
   template< typename P > struct describe< I::any< P > > { static std::string str() { return "any " + dpeek< P >::str(); } };
   template< I::result_on_found R, typename P, typename P::data_t... Cs > struct describe< I::one< R, P, Cs... > > {
      static std::string str() { return "one " + std::to_string( int( bool( R ) ) ) + " " + dpeek< P >::str() + pvs< typename P::data_t, Cs... >(); } };
   template< I::result_on_found R, typename P, typename P::data_t Lo, typename P::data_t Hi > struct describe< I::range< R, P, Lo, Hi > > {
      static std::string str() { return "range " + std::to_string( int( bool( R ) ) ) + " " + dpeek< P >::str() + pvs< typename P::data_t, Lo, Hi >(); } };
   template< typename P, typename P::data_t... Cs > struct describe< I::ranges< P, Cs... > > {
      static std::string str() { return "ranges " + dpeek< P >::str() + pvs< typename P::data_t, Cs... >(); } };
   template< char... Cs > struct describe< I::string< Cs... > > { static std::string str() { return "string" + pvs< unsigned char, static_cast< unsigned char >( Cs )... >(); } };
   template< char... Cs > struct describe< I::istring< Cs... > > { static std::string str() { return "istring" + pvs< unsigned char, static_cast< unsigned char >( Cs )... >(); } };
   template< unsigned N > struct describe< I::bytes< N > > { static std::string str() { return "bytes " + std::to_string( N ); } };
   template< unsigned N > struct describe< I::require< N > > { static std::string str() { return "require " + std::to_string( N ); } };
   template< typename... Rs > struct describe< I::seq< Rs... > > { static std::string str() { return "seq"; } };
   template< typename... Rs > struct describe< I::sor< Rs... > > { static std::string str() { return "sor"; } };
   template< typename... Rs > struct describe< I::star_partial< Rs... > > { static std::string str() { return "star_partial"; } };
   template< typename R > struct describe< I::star< R > > { static std::string str() { return "star_partial"; } };
   template< typename R > struct describe< I::plus< R > > { static std::string str() { return "plus"; } };
   template< typename... Rs > struct describe< I::partial< Rs... > > { static std::string str() { return "partial"; } };
   template< typename R > struct describe< I::opt< R > > { static std::string str() { return "partial"; } };
   template< typename R > struct describe< I::at< R > > { static std::string str() { return "at"; } };
   template< typename R > struct describe< I::not_at< R > > { static std::string str() { return "not_at"; } };
   template< typename C > struct describe< I::until< C > > { static std::string str() { return "until1"; } };
   template< typename C, typename R > struct describe< I::until< C, R > > { static std::string str() { return "until2"; } };
   template< unsigned N, typename R > struct describe< I::rep< N, R > > { static std::string str() { return "rep " + std::to_string( N ); } };
   template< unsigned A, unsigned B, typename R > struct describe< I::rep_min_max< A, B, R > > { static std::string str() { return "rep_min_max " + std::to_string( A ) + " " + std::to_string( B ); } };
   template< unsigned N, typename R > struct describe< I::rep_opt< N, R > > { static std::string str() { return "rep_opt " + std::to_string( N ); } };
   template< typename C, typename T, typename E > struct describe< I::if_then_else< C, T, E > > { static std::string str() { return "if_then_else"; } };
   template< bool D, typename C, typename... Rs > struct describe< I::if_must< D, C, Rs... > > { static std::string str() { return std::string( "if_must " ) + ( D ? "1" : "0" ); } };
   template< typename R > struct describe< I::must< R > > { static std::string str() { return "must"; } };
   template< typename T > struct describe< I::raise< T > > { static std::string str() { return "raise"; } };
   template< typename R, typename... Rs > struct describe< I::strict< R, Rs... > > { static std::string str() { return "strict"; } };
   template< typename R, typename... Rs > struct describe< I::star_strict< R, Rs... > > { static std::string str() { return "star_strict"; } };
   template< typename H, typename... Rs > struct describe< I::rematch< H, Rs... > > { static std::string str() { return "rematch"; } };
   template< typename E, typename R > struct describe< I::try_catch_return_false< E, R > > { static std::string str() { return "try_catch_false " + exn_filter< E >::str(); } };
   template< typename E, typename R > struct describe< I::try_catch_raise_nested< E, R > > { static std::string str() { return "try_catch_nested " + exn_filter< E >::str(); } };
   template< typename S, typename R > struct describe< I::state< S, R > > { static std::string str() { return "state " + std::to_string( state_id< S >::value ); } };
   template< template< typename... > class A, typename R > struct describe< I::action< A, R > > { static std::string str() { return "action " + std::to_string( fam_id< A >::value ); } };
   template< template< typename... > class C, typename R > struct describe< I::control< C, R > > { static std::string str() { return "control " + std::to_string( ctl_id< C >::value ); } };
   template< typename R > struct describe< I::enable< R > > { static std::string str() { return "enable"; } };
   template< typename R > struct describe< I::disable< R > > { static std::string str() { return "disable"; } };
   template< typename... As > struct describe< I::apply< As... > > { static std::string str() { return "apply" + inline_ids< As... >(); } };
   template< typename... As > struct describe< I::apply0< As... > > { static std::string str() { return "apply0" + inline_ids< As... >(); } };
   template< typename R, typename... As > struct describe< I::if_apply< R, As... > > { static std::string str() { return "if_apply" + inline_ids< As... >(); } };

   // ------------------------------------------------------------------ table
   struct Table
   {
      std::map< std::string, int > idx;
      std::vector< std::string > lines;
      std::vector< std::string > names;
      std::vector< std::string > msgs;
   };
   inline Table& table()
   {
      static Table t;
      return t;
   }
   inline std::string hex( const std::string& s )
   {
      static const char* d = "0123456789abcdef";
      std::string r;
      for( unsigned char c : s ) {
         r += d[ c >> 4 ];
         r += d[ c & 15 ];
      }
      return r.empty() ? "-" : r;
   }
   template< typename T, typename = void > inline constexpr bool is_rule = false;
   template< typename T > inline constexpr bool is_rule< T, std::void_t< typename T::rule_t, typename T::subs_t > > = true;

   inline std::vector< std::string >& rof_lines() { static std::vector< std::string > v; return v; }
   template< typename R > int dump();
   template< typename... Ts > std::vector< int > dump_subs( type_list< Ts... > ) { return { dump< Ts >()... }; }
   template< typename T > struct raise_target { using type = void; };
   template< typename T > struct raise_target< I::raise< T > > { using type = T; };

   template< typename R >
   int dump()
   {
      Table& t = table();
      const std::string key( demangle< R >() );
      auto it = t.idx.find( key );
      if( it != t.idx.end() ) {
         return it->second;
      }
      const int id = int( t.idx.size() );
      t.idx.emplace( key, id );
      t.lines.emplace_back();
      t.names.push_back( key );
      t.msgs.emplace_back();
      if constexpr( is_rule< R > ) {
         std::vector< int > subs = dump_subs( typename R::subs_t() );
         using target_t = typename raise_target< typename R::rule_t >::type;
         if constexpr( !std::is_same_v< target_t, void > ) {
            subs.push_back( dump< target_t >() );
         }
         std::ostringstream o;
         o << id << " " << int( I::enable_control< R > ) << " " << int( is_named< R > ) << " " << subs.size();
         for( int s : subs ) {
            o << ' ' << s;
         }
         o << " | " << describe< typename R::rule_t >::str();
         t.lines[ id ] = o.str();
         if constexpr( I::has_error_message< R > ) {
            t.msgs[ id ] = std::string( "M" ) + R::error_message;
         }
         if constexpr( is_mustif< R > ) {
            rof_lines().push_back( "ROF " + std::to_string( id ) );
         }
         if constexpr( is_mustsoft< R > ) {
            rof_lines().push_back( "ROFS " + std::to_string( id ) );
         }
      }
      else {
         t.lines[ id ] = std::to_string( id ) + " 0 0 0 | opaque";
      }
      return id;
   }
   template< typename R >
   int index_of()
   {
      static const int i = []() {
         auto& t = table();
         auto it = t.idx.find( std::string( demangle< R >() ) );
         return it == t.idx.end() ? -1 : it->second;
      }();
      return i;
   }
   inline std::vector< std::string >& act_lines();
   inline void print_table()
   {
      Table& t = table();
      for( std::size_t i = 0; i < t.lines.size(); ++i ) {
         std::printf( "NODE %s\n", t.lines[ i ].c_str() );
         std::printf( "NAME %zu %s %s\n", i, hex( t.names[ i ] ).c_str(), hex( t.msgs[ i ] ).c_str() );
      }
      for( const auto& l : act_lines() ) {
         std::printf( "%s\n", l.c_str() );
      }
      for( const auto& l : rof_lines() ) {
         std::printf( "%s\n", l.c_str() );
      }
   }

   // ------------------------------------------------------------------ log
   inline std::string& lg()
   {
      static std::string s;
      return s;
   }
   inline int& st_counter()
   {
      static int c = 0;
      return c;
   }
   inline void lpos( const position& p )
   {
      char b[ 80 ];
      std::snprintf( b, sizeof b, ",%zu,%zu,%zu", p.byte, p.line, p.column );
      lg() += b;
   }
   inline void ev_hook( char k, int ctl, int r, const position& p )
   {
      char b[ 48 ];
      std::snprintf( b, sizeof b, "%c%d,%d", k, ctl, r );
      lg() += b;
      lpos( p );
      lg() += ';';
   }

   // ------------------------------------------------------------------ state types
   struct st_base
   {
      int inst;
      st_base() : inst( ++st_counter() ) {}
   };
   inline int inst_of() { return 0; }
   template< typename S0, typename... S > int inst_of( S0& s, S&&... )
   {
      if constexpr( std::is_base_of_v< st_base, std::decay_t< S0 > > ) {
         return s.inst;
      }
      else {
         return 0;
      }
   }
   template< int Id >
   struct st : st_base
   {
      template< typename In, typename... S >
      explicit st( const In& in, S&&... s )
      {
         lg() += "N" + std::to_string( inst ) + "," + std::to_string( inst_of( s... ) );
         lpos( in.position() );
         lg() += ';';
      }
      st( const st& ) = delete;
      template< typename In, typename... S >
      void success( const In& in, S&&... s )
      {
         lg() += "Y" + std::to_string( inst ) + "," + std::to_string( inst_of( s... ) );
         lpos( in.position() );
         lg() += ';';
      }
      ~st() { lg() += "D" + std::to_string( inst ) + ";"; }
   };
   template< int Id > struct state_id< st< Id > > { static constexpr int value = Id; };

   // ------------------------------------------------------------------ deterministic behaviours (mirrored in driver/engine_driver.ml)
   inline bool veto_pred( int r, std::size_t b, std::size_t e ) { return ( ( unsigned( r ) * 7u + unsigned( b ) * 3u + unsigned( e ) * 5u ) % 4u ) != 0; }   // false = veto
   inline bool veto0_pred( int r ) { return ( unsigned( r ) % 3u ) != 0; }
   inline bool throw_pred( int r, std::size_t b, std::size_t e ) { return ( ( unsigned( r ) * 5u + unsigned( b ) * 7u + unsigned( e ) * 3u ) % 5u ) == 0; }

   template< typename AI, typename... S >
   void log_apply( int fam, int r, const AI& in, S&&... s )
   {
      lg() += "A" + std::to_string( fam ) + "," + std::to_string( r );
      lpos( in.position() );
      lpos( in.input().position() );
      lg() += "," + std::to_string( inst_of( s... ) ) + ";";
   }
   template< typename... S >
   void log_apply0( int fam, int r, S&&... s )
   {
      lg() += "Z" + std::to_string( fam ) + "," + std::to_string( r ) + "," + std::to_string( inst_of( s... ) ) + ";";
   }

   // ------------------------------------------------------------------ action behaviours (attachable to any rule)
   template< int Fam, typename R > struct b_apply_void { template< typename AI, typename... S > static void apply( const AI& in, S&&... s ) { log_apply( Fam, index_of< R >(), in, s... ); } };
   template< int Fam, typename R > struct b_apply0_void { template< typename... S > static void apply0( S&&... s ) { log_apply0( Fam, index_of< R >(), s... ); } };
   template< int Fam, typename R > struct b_apply_bool { template< typename AI, typename... S > static bool apply( const AI& in, S&&... s ) { log_apply( Fam, index_of< R >(), in, s... ); return veto_pred( index_of< R >(), in.position().byte, in.input().position().byte ); } };
   template< int Fam, typename R > struct b_apply0_bool { template< typename... S > static bool apply0( S&&... s ) { log_apply0( Fam, index_of< R >(), s... ); return veto0_pred( index_of< R >() ); } };
   template< int Fam, typename R > struct b_apply_throw_std { template< typename AI, typename... S > static void apply( const AI& in, S&&... s ) { log_apply( Fam, index_of< R >(), in, s... ); if( throw_pred( index_of< R >(), in.position().byte, in.input().position().byte ) ) throw std::runtime_error( "act" ); } };
   template< int Fam, typename R > struct b_apply_throw_foreign { template< typename AI, typename... S > static void apply( const AI& in, S&&... s ) { log_apply( Fam, index_of< R >(), in, s... ); if( throw_pred( index_of< R >(), in.position().byte, in.input().position().byte ) ) throw foreign_exn{ 1 }; } };

   // whole-grammar families
   template< typename R > struct act0 : nothing< R > {};
   template< typename R > struct act1 : b_apply_void< 1, R > {};
   template< typename R > struct act2 : b_apply0_void< 2, R > {};
   template< typename R > struct act3 : b_apply_bool< 3, R > {};
   template< typename R > struct act4 : b_apply0_bool< 4, R > {};
   template< typename R > struct act5 : b_apply_throw_std< 5, R > {};
   template< typename R > struct act6 : b_apply_throw_foreign< 6, R > {};
   // named-rules-only families (changes who is responsible for rewinding)
   template< typename R > struct act7 : std::conditional_t< is_named< R >, b_apply_void< 7, R >, nothing< R > > {};
   template< typename R > struct act8 : std::conditional_t< is_named< R >, b_apply_bool< 8, R >, nothing< R > > {};
   // custom families: generated translation units specialise these per rule (deriving from the b_* / m_* types)
   template< typename R > struct act9 : nothing< R > {};
   template< typename R > struct act10 : nothing< R > {};
   template<> struct fam_id< act0 > { static constexpr int value = 0; };
   template<> struct fam_id< act1 > { static constexpr int value = 1; };
   template<> struct fam_id< act2 > { static constexpr int value = 2; };
   template<> struct fam_id< act3 > { static constexpr int value = 3; };
   template<> struct fam_id< act4 > { static constexpr int value = 4; };
   template<> struct fam_id< act5 > { static constexpr int value = 5; };
   template<> struct fam_id< act6 > { static constexpr int value = 6; };
   template<> struct fam_id< act7 > { static constexpr int value = 7; };
   template<> struct fam_id< act8 > { static constexpr int value = 8; };
   template<> struct fam_id< act9 > { static constexpr int value = 9; };
   template<> struct fam_id< act10 > { static constexpr int value = 10; };

   // ------------------------------------------------------------------ inline actions for apply<> / apply0<> / if_apply<>
   inline bool ipred( std::size_t b, std::size_t e ) { return ( ( unsigned( b ) * 3u + unsigned( e ) * 5u ) % 3u ) != 0; }
   inline bool ithrow( std::size_t b, std::size_t e ) { return ( ( unsigned( b ) + unsigned( e ) ) % 4u ) == 3u; }
   inline bool ipred3( std::size_t b, std::size_t e ) { return ( ( unsigned( b ) + unsigned( e ) ) % 2u ) != 0; }   // ia< 3 >: vetoes every even-length match at an even offset
   template< int K > struct ia
   {
      template< typename AI, typename... S >
      static auto apply( const AI& in, S&&... ) -> std::conditional_t< ( K == 1 || K == 3 ), bool, void >
      {
         lg() += "I" + std::to_string( K );
         lpos( in.position() );
         lpos( in.input().position() );
         lg() += ';';
         if constexpr( K == 1 ) {
            return ipred( in.position().byte, in.input().position().byte );
         }
         if constexpr( K == 3 ) {
            return ipred3( in.position().byte, in.input().position().byte );
         }
         if constexpr( K == 2 ) {
            if( ithrow( in.position().byte, in.input().position().byte ) ) {
               throw std::runtime_error( "inline" );
            }
         }
      }
   };
   template< int K > struct ia0
   {
      template< typename... S >
      static auto apply0( S&&... ) -> std::conditional_t< ( K == 11 || K == 12 ), bool, void >
      {
         lg() += "J" + std::to_string( K ) + ";";
         if constexpr( K == 11 ) {
            return true;
         }
         if constexpr( K == 12 ) {
            return false;
         }
         if constexpr( K == 13 ) {
            throw std::runtime_error( "inline0" );
         }
      }
   };
   template< int K > struct inline_id< ia< K > > { static constexpr int value = K; };
   template< int K > struct inline_id< ia0< K > > { static constexpr int value = K; };

   // ------------------------------------------------------------------ control families
   inline void loop_enter( int rule, const char* cur, const char* end );
   inline void loop_exit( int rule );
   template< int Ctl, bool Unwind, typename R >
   struct obs_control : normal< R >
   {
      template< typename In, typename... S > static void start( const In& in, S&&... ) { loop_enter( index_of< R >(), in.current(), in.end() ); ev_hook( 'S', Ctl, index_of< R >(), in.position() ); }
      template< typename In, typename... S > static void success( const In& in, S&&... ) { loop_exit( index_of< R >() ); ev_hook( 'O', Ctl, index_of< R >(), in.position() ); }
      template< typename In, typename... S > static void failure( const In& in, S&&... ) { loop_exit( index_of< R >() ); ev_hook( 'F', Ctl, index_of< R >(), in.position() ); }
      template< typename In, typename... S > [[noreturn]] static void raise( const In& in, S&&... st )
      {
         ev_hook( 'R', Ctl, index_of< R >(), in.position() );
         normal< R >::raise( in, st... );
      }
      template< typename Am, typename... S > [[noreturn]] static void raise_nested( const Am& am, S&&... st )
      {
         ev_hook( 'G', Ctl, index_of< R >(), I::get_position( am ) );
         normal< R >::raise_nested( am, st... );
      }
      template< typename In, typename... S, bool V = Unwind > static auto unwind( const In& in, S&&... ) -> std::enable_if_t< V > { loop_exit( index_of< R >() ); ev_hook( 'U', Ctl, index_of< R >(), in.position() ); }
   };
   // families 2 and 3 additionally trace every Control< Rule >::match invocation (enabled or not):
   // rule, apply mode, rewind mode, position before; result and position after
   template< int Ctl, bool Unwind, typename R >
   struct trace_control : obs_control< Ctl, Unwind, R >
   {
      template< apply_mode A, rewind_mode M, template< typename... > class Action, template< typename... > class Control, typename In, typename... S >
      [[nodiscard]] static bool match( In& in, S&&... st )
      {
         const int r = index_of< R >();
         if( r < 0 ) {
            return normal< R >::template match< A, M, Action, Control >( in, st... );
         }
         {
            char b[ 64 ];
            std::snprintf( b, sizeof b, "B%d,%d,%d,%d", Ctl, r, int( A == apply_mode::action ), int( M == rewind_mode::required ) );
            lg() += b;
            lpos( in.position() );
            lg() += ';';
         }
         bool res;
         try {
            res = normal< R >::template match< A, M, Action, Control >( in, st... );
         }
         catch( ... ) {
            lg() += "E" + std::to_string( Ctl ) + "," + std::to_string( r ) + ",2";
            lpos( in.position() );
            lg() += ';';
            throw;
         }
         lg() += "E" + std::to_string( Ctl ) + "," + std::to_string( r ) + "," + std::to_string( int( res ) );
         lpos( in.position() );
         lg() += ';';
         return res;
      }
   };
   template< typename R > struct ctl2 : trace_control< 2, true, R > {};
   template< typename R > struct ctl3 : trace_control< 3, false, R > {};
   template< typename R > struct ctl0 : obs_control< 0, true, R > {};
   template< typename R > struct ctl1 : obs_control< 1, false, R > {};
   // families 4 and 5: must_if< errors >::control over the tracing observers.  errors has a message ("mustif") exactly for the
   // rules marked vh::mustif, so for those Control< Rule >::failure() raises (must_if.hpp) and must< Rule > raises with that
   // message.  The wrappers only add log records in the model's convention (F before the raise out of failure(), R before a
   // raise); everything else is must_if.hpp's own code.
   struct mi_errors
   {
      template< typename Rule >
      static constexpr const char* message = ( is_mustif< Rule > || is_mustsoft< Rule > ) ? "mustif" : nullptr;
      // the documented opt-out: a rule with a message whose local failure is NOT turned into a global one
      template< typename Rule >
      static constexpr bool raise_on_failure = is_mustif< Rule >;
   };
   template< typename R > struct mi_base4 : trace_control< 4, true, R > {};
   template< typename R > struct mi_base5 : trace_control< 5, false, R > {};
   template< int Ctl, template< typename... > class Base, typename R >
   struct mustif_control : must_if< mi_errors, Base, false >::template control< R >
   {
      using mi = typename must_if< mi_errors, Base, false >::template control< R >;
      template< typename In, typename... S > static void failure( const In& in, S&&... st )
      {
         if constexpr( is_mustif< R > ) {
            ev_hook( 'F', Ctl, index_of< R >(), in.position() );
         }
         mi::failure( in, st... );
      }
      template< typename In, typename... S > [[noreturn]] static void raise( const In& in, S&&... st )
      {
         if constexpr( is_mustif< R > || is_mustsoft< R > ) {
            ev_hook( 'R', Ctl, index_of< R >(), in.position() );
         }
         mi::raise( in, st... );
      }
   };
   template< typename R > struct ctl4 : mustif_control< 4, mi_base4, R > {};
   template< typename R > struct ctl5 : mustif_control< 5, mi_base5, R > {};
   template<> struct ctl_id< ctl4 > { static constexpr int value = 4; };
   template<> struct ctl_id< ctl5 > { static constexpr int value = 5; };
   template<> struct ctl_id< ctl0 > { static constexpr int value = 0; };
   template<> struct ctl_id< ctl1 > { static constexpr int value = 1; };
   template<> struct ctl_id< ctl2 > { static constexpr int value = 2; };
   template<> struct ctl_id< ctl3 > { static constexpr int value = 3; };

   // ------------------------------------------------------------------ match-level action markers for custom families
   struct m_change_state : change_state< st< 0 > > {};
   template< template< typename... > class A > struct m_change_action : change_action< A > {};
   template< template< typename... > class A > struct m_change_action_and_state : change_action_and_state< A, st< 0 > > {};
   template< template< typename... > class C > struct m_change_control : change_control< C > {};
   struct m_enable_action : enable_action {};
   struct m_disable_action : disable_action {};
   template< std::size_t N > struct m_limit_depth : limit_depth< N > {};
   template< std::size_t N > struct m_limit_bytes : limit_bytes< N > {};
   template< std::size_t N > struct m_check_bytes : check_bytes< N > {};

   template< typename A, typename R > struct akind { static std::string str() { return ""; } };   // "" = not a recognised behaviour
   template< typename T > struct akind_of_base { static std::string str() { return "?"; } };
   template< typename R > struct akind_of_base< nothing< R > > { static std::string str() { return "none"; } };
   template< int F, typename R > struct akind_of_base< b_apply_void< F, R > > { static std::string str() { return "apply void " + std::to_string( F ); } };
   template< int F, typename R > struct akind_of_base< b_apply0_void< F, R > > { static std::string str() { return "apply0 void " + std::to_string( F ); } };
   template< int F, typename R > struct akind_of_base< b_apply_bool< F, R > > { static std::string str() { return "apply bool " + std::to_string( F ); } };
   template< int F, typename R > struct akind_of_base< b_apply0_bool< F, R > > { static std::string str() { return "apply0 bool " + std::to_string( F ); } };
   template< int F, typename R > struct akind_of_base< b_apply_throw_std< F, R > > { static std::string str() { return "apply throwstd " + std::to_string( F ); } };
   template< int F, typename R > struct akind_of_base< b_apply_throw_foreign< F, R > > { static std::string str() { return "apply throwforeign " + std::to_string( F ); } };
   template<> struct akind_of_base< m_change_state > { static std::string str() { return "change_state"; } };
   template< template< typename... > class A > struct akind_of_base< m_change_action< A > > { static std::string str() { return "change_action " + std::to_string( fam_id< A >::value ); } };
   template< template< typename... > class A > struct akind_of_base< m_change_action_and_state< A > > { static std::string str() { return "change_action_and_state " + std::to_string( fam_id< A >::value ); } };
   template< template< typename... > class C > struct akind_of_base< m_change_control< C > > { static std::string str() { return "change_control " + std::to_string( ctl_id< C >::value ); } };
   template<> struct akind_of_base< m_enable_action > { static std::string str() { return "enable_action"; } };
   template<> struct akind_of_base< m_disable_action > { static std::string str() { return "disable_action"; } };
   template< std::size_t N > struct akind_of_base< m_limit_depth< N > > { static std::string str() { return "limit_depth " + std::to_string( N ); } };
   template< std::size_t N > struct akind_of_base< m_limit_bytes< N > > { static std::string str() { return "limit_bytes " + std::to_string( N ); } };
   template< std::size_t N > struct akind_of_base< m_check_bytes< N > > { static std::string str() { return "check_bytes " + std::to_string( N ); } };
   // custom-family specialisations declare:  using vbase = <one of the b_*/m_* types>;
   template< typename A, typename = void > struct vbase_of { using type = void; };
   template< typename A > struct vbase_of< A, std::void_t< typename A::vbase > > { using type = typename A::vbase; };

   inline std::vector< std::string >& act_lines() { static std::vector< std::string > v; return v; }
   template< template< typename... > class Act, typename R >
   void print_custom_act( int fam )
   {
      using vb = typename vbase_of< Act< R > >::type;
      if constexpr( !std::is_same_v< vb, void > ) {
         act_lines().push_back( "ACT " + std::to_string( fam ) + " " + std::to_string( index_of< R >() ) + " " + akind_of_base< vb >::str() );
      }
   }
   template< typename R > void dump_custom_acts();
   template< typename... Ts > void dump_custom_acts_list( type_list< Ts... > ) { ( dump_custom_acts< Ts >(), ... ); }
   inline std::map< int, bool >& acts_seen() { static std::map< int, bool > m; return m; }
   template< typename R >
   void dump_custom_acts()
   {
      const int id = index_of< R >();
      if( acts_seen()[ id ] ) {
         return;
      }
      acts_seen()[ id ] = true;
      print_custom_act< act9, R >( 9 );
      print_custom_act< act10, R >( 10 );
      if constexpr( is_rule< R > ) {
         dump_custom_acts_list( typename R::subs_t() );
      }
   }

   // ------------------------------------------------------------------ running

   inline std::string describe_exception( const std::exception_ptr& ep );
   inline std::string describe_parse_error( const parse_error& e )
   {
      const auto& p = e.position_object();
      std::string s = "P:" + hex( std::string( e.message() ) ) + ":" + std::to_string( p.byte ) + "," + std::to_string( p.line ) + "," + std::to_string( p.column );
      const std::string expect_what = p.source + ":" + std::to_string( p.line ) + ":" + std::to_string( p.column ) + ": " + std::string( e.message() );
      if( expect_what != e.what() ) {
         s += ":BADWHAT=" + hex( e.what() );
      }
      try {
         std::rethrow_if_nested( e );
      }
      catch( ... ) {
         s += ">" + describe_exception( std::current_exception() );
      }
      return s;
   }
   inline std::string describe_exception( const std::exception_ptr& ep )
   {
      try {
         std::rethrow_exception( ep );
      }
      catch( const parse_error& e ) {
         return describe_parse_error( e );
      }
      catch( const std::runtime_error& e ) {
         return std::string( "S:" ) + e.what();
      }
      catch( const std::exception& e ) {
         return std::string( "O:" ) + e.what();
      }
      catch( const foreign_exn& e ) {
         return "F:" + std::to_string( e.tag );
      }
      catch( ... ) {
         return "U";
      }
   }

   template< typename Eol > struct eol_name;
   template<> struct eol_name< eol::lf > { static constexpr const char* v = "lf"; };
   template<> struct eol_name< eol::cr > { static constexpr const char* v = "cr"; };
   template<> struct eol_name< eol::crlf > { static constexpr const char* v = "crlf"; };
   template<> struct eol_name< eol::lf_crlf > { static constexpr const char* v = "lf_crlf"; };
   template<> struct eol_name< eol::cr_crlf > { static constexpr const char* v = "cr_crlf"; };

   // ---------------------------------------------------------------- runaway protection (a changed library may loop)
   // A run is stopped as RUNAWAY only for a genuine cycle without progress, seen on the stack of open control-enabled
   // attempts: (a) the same rule is entered again at the same input position (and the same input end) while an attempt of
   // it at that position is still open - infinite recursion, or (b) one open attempt starts the same sub-rule at the same
   // position more than 1000 times - a repetition whose body succeeds without consuming.  A run that merely is expensive
   // (exponential backtracking) ends as BUDGET after VH_MAX_STEPS rule attempts (default 200000) and is not compared.
   struct runaway {};
   struct budget_exhausted {};
   inline long& steps() { static long n = 0; return n; }
   inline int& tripped() { static int t = 0; return t; }   // sticky (a catch( ... ) inside the grammar must not hide it): 1 = runaway, 2 = budget
   inline long max_steps()
   {
      static const long m = []() {
         const char* e = std::getenv( "VH_MAX_STEPS" );
         return ( e != nullptr ) ? std::atol( e ) : 200000L;
      }();
      return m;
   }
   struct lframe
   {
      int rule;
      const char* cur;
      const char* end;
      std::vector< std::pair< std::pair< int, const char* >, int > > kids;   // (sub-rule, position) -> number of starts
   };
   inline std::vector< lframe >& lstack() { static std::vector< lframe > v; return v; }
   inline void loop_enter( const int rule, const char* cur, const char* end )
   {
      if( tripped() == 1 ) {
         throw runaway{};
      }
      if( ( tripped() == 2 ) || ( ++steps() > max_steps() ) ) {
         tripped() = 2;
         throw budget_exhausted{};
      }
      auto& st = lstack();
      for( auto it = st.rbegin(); it != st.rend(); ++it ) {
         if( ( it->rule == rule ) && ( it->cur == cur ) && ( it->end == end ) ) {
            tripped() = 1;
            throw runaway{};
         }
      }
      if( !st.empty() ) {
         auto& kids = st.back().kids;
         bool found = false;
         for( auto& k : kids ) {
            if( ( k.first.first == rule ) && ( k.first.second == cur ) ) {
               found = true;
               if( ++k.second > 1000 ) {
                  tripped() = 1;
                  throw runaway{};
               }
               break;
            }
         }
         if( !found ) {
            kids.push_back( { { rule, cur }, 1 } );
         }
      }
      st.push_back( lframe{ rule, cur, end, {} } );
   }
   inline void loop_exit( const int rule )
   {
      // attempts above the closed one were abandoned by an exception without a closing hook (control without unwind())
      auto& st = lstack();
      for( std::size_t i = st.size(); i > 0; --i ) {
         if( st[ i - 1 ].rule == rule ) {
            st.resize( i - 1 );
            return;
         }
      }
   }

   // one configuration = one instantiation of parse<>
   using runfn = void ( * )( int gid, int root, const std::string& cfg, const std::string& input );
   struct Entry
   {
      int gid;
      int root;
      std::string cfg;
      runfn fn;
   };
   inline std::vector< Entry >& registry()
   {
      static std::vector< Entry > r;
      return r;
   }

   // Init = 1: the input is constructed with the non-default initial counters byte 7, line 3, column 5
   template< typename G, template< typename... > class Act, template< typename... > class Ctl, apply_mode A, rewind_mode M, typename Eol, tracking_mode TM = tracking_mode::eager, int Init = 0 >
   void run_one( const int gid, const int root, const std::string& cfg, const std::string& s )
   {
      lg().clear();
      st_counter() = 0;
      steps() = 0;
      tripped() = 0;
      lstack().clear();
      oob() = oob_record();
      // heap copy without terminator.  Default: the input is a window inside a larger buffer whose bytes BEHIND the
      // logical end are adversarial (letters, digits, line endings, UTF-8 continuation bytes, brackets), so that a read
      // through a raw pointer past the end changes the result instead of going unnoticed; with VH_NOTAIL (sanitizer
      // runs) the buffer has exactly the size of the input so that ASan sees the over-read itself.
      static const bool notail = std::getenv( "VH_NOTAIL" ) != nullptr;
      static const char tail[] = "a\nb\r\xbf" "0c]=\n\x80" "1ab";
      const std::size_t tl = notail ? 0 : ( sizeof( tail ) - 1 );
      char* buf = new char[ s.size() + tl + 1 ];
      std::memcpy( buf, s.data(), s.size() );
      std::memcpy( buf + s.size(), tail, tl );
      std::string res;
      std::string cur;
      {
         using in_t = input_with_depth< memory_input< TM, Eol > >;
         in_t in = Init ? in_t( buf, buf + s.size(), "s", 7, 3, 5 ) : in_t( buf, buf + s.size(), "s" );
         try {
            const bool r = parse< G, Act, Ctl, A, M >( in );
            res = r ? "T" : "F";
         }
         catch( const runaway& ) {
            res = "RUNAWAY";
         }
         catch( const budget_exhausted& ) {
            res = "BUDGET";
         }
         catch( ... ) {
            res = "X" + describe_exception( std::current_exception() );
         }
         if( tripped() != 0 ) {
            res = ( tripped() == 1 ) ? "RUNAWAY" : "BUDGET";
         }
         const auto p = in.position();
         cur = std::to_string( p.byte ) + "," + std::to_string( p.line ) + "," + std::to_string( p.column );
         if( in.current_depth() != 0 ) {
            cur += ",DEPTH=" + std::to_string( in.current_depth() );
         }
         if( in.end() != buf + s.size() ) {
            cur += ",ENDMOVED";
         }
      }
      delete[] buf;
      if( oob().count != 0 ) {
         cur += ",OOB=" + std::string( oob().what ) + ":" + std::to_string( oob().need ) + ":" + std::to_string( oob().have ) + "x" + std::to_string( oob().count );
      }
      if( res == "RUNAWAY" || res == "BUDGET" ) {
         lg() = "";
         cur = "";
      }
      std::printf( "RUN %d %d %s %s | %s | %s | %s\n", gid, root, cfg.c_str(), hex( s ).c_str(), res.c_str(), cur.c_str(), lg().c_str() );
   }

   template< typename G, template< typename... > class Act, template< typename... > class Ctl, apply_mode A, rewind_mode M, typename Eol = eol::lf_crlf, tracking_mode TM = tracking_mode::eager, int Init = 0 >
   void reg( const int gid )
   {
      const int root = dump< G >();
      dump_custom_acts< G >();
      char cfg[ 96 ];
      std::snprintf( cfg, sizeof cfg, "%d.%d.%d.%d.%s%s%s", fam_id< Act >::value, ctl_id< Ctl >::value, int( A == apply_mode::action ), int( M == rewind_mode::required ),
                     ( TM == tracking_mode::lazy ) ? "lazy-" : "", eol_name< Eol >::v, Init ? "@7-3-5" : "" );
      registry().push_back( Entry{ gid, root, cfg, &run_one< G, Act, Ctl, A, M, Eol, TM, Init > } );
   }
}  // namespace vh
