// c19_impl.cpp - C19 implementation side: the REAL memory_input<>::at / begin_of_line /
// end_of_line / line_at on positions obtained from real parsing runs.
//
//   c19_impl <cases>      one case per line:  <eager|lazy> <lf|cr|crlf|lf_crlf|cr_crlf> <byte0> <line0> <col0> <hexdata|->
//
// For every case and every k in 0..size the position after k consumed bytes is obtained in three
// ways: W=bump  in.bump( k ); in.position()
//       W=parse in.position() from an action fired DURING parse< seq< rep< k, any >, mark, must< failure > > >
//       W=error parse_error::position_object() of the exception raised by that must< failure >
//       W=notone / notrange / rematch  the K bytes consumed by negated sets resp. position seen by the second rule of a rematch
// and at / begin_of_line / end_of_line / line_at are evaluated on it.  One output line per
// (case, k, distinct result); W lists the ways that produced exactly this result.
//
// The data lives (exact size) inside one larger array with guard bytes on both sides, so every
// pointer the helpers return is printed as a signed offset relative to the data begin without
// ever leaving that array.  Nothing outside the data is dereferenced by this file; line_at's
// bytes are printed only when the view lies inside the data.
#include <tao/pegtl.hpp>

#include <cstdio>
#include <cstring>
#include <fstream>
#include <iostream>
#include <map>
#include <optional>
#include <string>
#include <utility>
#include <vector>

using namespace tao::pegtl;

namespace
{
   constexpr std::size_t GUARD = 512;
   constexpr std::size_t MAXK = 12;

   std::string unhex( const std::string& h )
   {
      if( h == "-" ) {
         return "";
      }
      std::string r;
      for( std::size_t i = 0; i + 1 < h.size(); i += 2 ) {
         r += char( std::stoi( h.substr( i, 2 ), nullptr, 16 ) );
      }
      return r;
   }

   std::string hex( const char* b, const std::size_t n )
   {
      static const char* d = "0123456789abcdef";
      if( n == 0 ) {
         return "-";
      }
      std::string r;
      for( std::size_t i = 0; i < n; ++i ) {
         const auto c = static_cast< unsigned char >( b[ i ] );
         r += d[ c >> 4 ];
         r += d[ c & 15 ];
      }
      return r;
   }

   // data of exact size inside a larger array; left guard 'L', right guard "\n\r\n\r..." so that
   // (a) a helper that wrongly peeks one byte past end() under a CRLF policy sees a '\n' and
   // answers differently, (b) end_of_line started past end() (the recorded finding) terminates
   // within two bytes under every policy instead of running off the array.
   struct arena
   {
      std::vector< char > buf;
      char* data;
      std::size_t size;

      explicit arena( const std::string& s )
         : buf( GUARD + s.size() + GUARD ),
           data( buf.data() + GUARD ),
           size( s.size() )
      {
         std::memset( buf.data(), 'L', GUARD );
         std::memcpy( data, s.data(), s.size() );
         for( std::size_t i = 0; i < GUARD; ++i ) {
            data[ size + i ] = ( i % 2 == 0 ) ? '\n' : '\r';
         }
      }
   };

   struct mark
      : success
   {};

   // matches (without consuming) exactly where g_left bytes are left: until< left_is > walks there byte by byte
   inline std::size_t g_left = 0;
   struct left_is
   {
      using rule_t = left_is;
      using subs_t = empty_list;
      template< typename ParseInput >
      [[nodiscard]] static bool match( ParseInput& in )
      {
         return in.size( g_left + 1 ) == g_left;
      }
   };

   struct seen
   {
      std::optional< position > pos;
   };

   template< typename Rule >
   struct act
      : nothing< Rule >
   {};

   template<>
   struct act< mark >
   {
      template< typename ActionInput >
      static void apply( const ActionInput& in, seen& s )
      {
         s.pos.emplace( in.position() );
      }
   };

   template< typename Input >
   std::string helpers( const Input& in, const arena& a, const position& p )
   {
      const long long n = static_cast< long long >( a.size );
      const long long at = in.at( p ) - a.data;
      const long long bol = in.begin_of_line( p ) - a.data;
      std::string r = " P=" + std::to_string( p.byte ) + "," + std::to_string( p.line ) + "," + std::to_string( p.column );
      r += " AT=" + std::to_string( at ) + " BOL=" + std::to_string( bol );
      // end_of_line reads from at( p ); only call it while that stays well inside the array
      if( ( at < 0 ) || ( at > n + static_cast< long long >( GUARD ) - 16 ) ) {
         return r + " EOL=SKIP LINE=SKIP";
      }
      const long long eol = in.end_of_line( p ) - a.data;
      r += " EOL=" + std::to_string( eol );
      const std::string_view sv = in.line_at( p );
      const long long sb = sv.data() - a.data;
      if( ( sb >= 0 ) && ( sb <= n ) && ( sv.size() <= static_cast< std::size_t >( n - sb ) ) ) {
         r += " LINE=" + hex( sv.data(), sv.size() );
      }
      else {
         r += " LINE=OUT(" + std::to_string( sb ) + "," + std::to_string( static_cast< long long >( sv.size() ) ) + ")";
      }
      return r;
   }

   struct kase
   {
      std::string mode, eol, hexdata, data;
      std::size_t b0, l0, c0;
   };

   using result_t = std::vector< std::pair< std::string, std::string > >;  // ( W, text )

   void add( result_t& r, const std::string& w, const std::string& text )
   {
      for( auto& e : r ) {
         if( e.second == text ) {
            e.first += "," + w;
            return;
         }
      }
      r.emplace_back( w, text );
   }

   template< tracking_mode M, typename Eol, std::size_t K >
   void run_k( const kase& c, const arena& a )
   {
      using input_t = memory_input< M, Eol, std::string >;
      result_t res;
      std::string byte_fn;
      {
         input_t in( a.data, a.data + a.size, "c19", c.b0, c.l0, c.c0 );
         in.bump( K );
         const position p = in.position();
         byte_fn = std::to_string( in.byte() );
         add( res, "bump", helpers( in, a, p ) );
      }
      {
         input_t in( a.data, a.data + a.size, "c19", c.b0, c.l0, c.c0 );
         seen s;
         try {
            const bool ok = parse< seq< rep< K, any >, mark, must< failure > >, act >( in, s );
            add( res, "error", std::string( " NOEXCEPTION result=" ) + ( ok ? "true" : "false" ) );
         }
         catch( const parse_error& e ) {
            add( res, "error", helpers( in, a, e.position_object() ) );
         }
         if( s.pos ) {
            add( res, "parse", helpers( in, a, *s.pos ) );
         }
         else {
            add( res, "parse", " NOACTION" );
         }
      }
      {
         // fourth way: the one-argument until< Cond > skips the K bytes (its own bump per skipped byte)
         input_t in( a.data, a.data + a.size, "c19", c.b0, c.l0, c.c0 );
         seen s;
         g_left = a.size - K;
         try {
            (void)parse< seq< until< left_is >, mark, must< failure > >, act >( in, s );
         }
         catch( const parse_error& ) {
         }
         if( s.pos ) {
            add( res, "until", helpers( in, a, *s.pos ) );
         }
         else {
            add( res, "until", " NOACTION" );
         }
      }
      {
         // further ways to consume the K bytes: negated character sets (their bump must treat a consumed line ending like
         // any other rule does), and the second rule of a rematch< Head, R1, R2 > whose head starts after J = ( K + 1 ) / 2
         // bytes (the inner input of every re-matched rule must carry the head's start position)
         constexpr std::size_t J = ( K + 1 ) / 2;
         {
            input_t in( a.data, a.data + a.size, "c19", c.b0, c.l0, c.c0 );
            seen s;
            try {
               (void)parse< seq< rep< K, not_one< '\1' > >, mark, must< failure > >, act >( in, s );
            }
            catch( const parse_error& ) {
            }
            add( res, "notone", s.pos ? helpers( in, a, *s.pos ) : std::string( " NOACTION" ) );
         }
         {
            input_t in( a.data, a.data + a.size, "c19", c.b0, c.l0, c.c0 );
            seen s;
            try {
               (void)parse< seq< rep< J, not_range< '\1', '\2' > >, rep< K - J, not_one< '\1', '\2' > >, mark, must< failure > >, act >( in, s );
            }
            catch( const parse_error& ) {
            }
            add( res, "notrange", s.pos ? helpers( in, a, *s.pos ) : std::string( " NOACTION" ) );
         }
         {
            input_t in( a.data, a.data + a.size, "c19", c.b0, c.l0, c.c0 );
            seen s;
            try {
               (void)parse< seq< rep< J, any >, rematch< rep< K - J, any >, success, seq< rep< K - J, any >, mark > >, must< failure > >, act >( in, s );
            }
            catch( const parse_error& ) {
            }
            add( res, "rematch", s.pos ? helpers( in, a, *s.pos ) : std::string( " NOACTION" ) );
         }
      }
      if( c.eol != "cr_crlf" ) {
         // line endings consumed by the eol rule itself (bump_to_next_line with the length of the ending).  Optional way: when
         // K lies between the CR and the LF of a CRLF the walk steps over it and reports nothing.  Not under cr_crlf, where
         // eager and lazy tracking disagree on the column after CR LF (recorded under C06, semantics undecided upstream).
         input_t in( a.data, a.data + a.size, "c19", c.b0, c.l0, c.c0 );
         seen s;
         g_left = a.size - K;
         try {
            (void)parse< seq< until< left_is, sor< eol, any > >, mark, must< failure > >, act >( in, s );
         }
         catch( const parse_error& ) {
         }
         if( s.pos ) {
            add( res, "eol", helpers( in, a, *s.pos ) );
         }
      }
      for( const auto& e : res ) {
         std::printf( "M=%s E=%s I=%zu,%zu,%zu D=%s K=%zu B=%s W=%s%s\n", c.mode.c_str(), c.eol.c_str(), c.b0, c.l0, c.c0, c.hexdata.c_str(), K, byte_fn.c_str(), e.first.c_str(), e.second.c_str() );
      }
   }

   template< tracking_mode M, typename Eol, std::size_t... Ks >
   void run_all_k( const kase& c, const arena& a, std::index_sequence< Ks... > /*unused*/ )
   {
      ( ( Ks <= a.size ? run_k< M, Eol, Ks >( c, a ) : void() ), ... );
   }

   template< tracking_mode M, typename Eol >
   void run_case( const kase& c )
   {
      const arena a( c.data );
      run_all_k< M, Eol >( c, a, std::make_index_sequence< MAXK + 1 >() );
   }

   template< tracking_mode M >
   bool run_mode( const kase& c )
   {
      if( c.eol == "lf" ) {
         run_case< M, eol::lf >( c );
      }
      else if( c.eol == "cr" ) {
         run_case< M, eol::cr >( c );
      }
      else if( c.eol == "crlf" ) {
         run_case< M, eol::crlf >( c );
      }
      else if( c.eol == "lf_crlf" ) {
         run_case< M, eol::lf_crlf >( c );
      }
      else if( c.eol == "cr_crlf" ) {
         run_case< M, eol::cr_crlf >( c );
      }
      else {
         return false;
      }
      return true;
   }

}  // namespace

int main( int argc, char** argv )
{
   if( argc < 2 ) {
      std::fprintf( stderr, "usage: c19_impl <cases>\n" );
      return 2;
   }
   std::ifstream f( argv[ 1 ] );
   kase c;
   while( f >> c.mode >> c.eol >> c.b0 >> c.l0 >> c.c0 >> c.hexdata ) {
      c.data = unhex( c.hexdata );
      if( c.data.size() > MAXK ) {
         std::printf( "ERROR input longer than MAXK\n" );
         continue;
      }
      bool ok = false;
      if( c.mode == "eager" ) {
         ok = run_mode< tracking_mode::eager >( c );
      }
      else if( c.mode == "lazy" ) {
         ok = run_mode< tracking_mode::lazy >( c );
      }
      if( !ok ) {
         std::printf( "ERROR bad case %s %s\n", c.mode.c_str(), c.eol.c_str() );
      }
   }
   return 0;
}
