// c11_contrib.cpp - C11, contrib side: rules whose analyze_traits live in contrib headers and that have no head in the
// engine model (raw_string with content rules, rep_one_min_max, predicates, the integer rules).  For every grammar:
// the REAL analyze< G >( -1 ) and a run of the REAL parser on every input under a control that counts rule attempts;
// "analysis reports 0 problems" together with a run that exceeds the attempt budget is a violation of C11.
// Output: "G <k> <analyze problems> <runaway 0/1> <hex of the first runaway input or -> <cases>".
#include <cstdio>
#include <string>
#include <vector>

#include <tao/pegtl.hpp>
#include <tao/pegtl/contrib/analyze.hpp>
#include <tao/pegtl/contrib/integer.hpp>
#include <tao/pegtl/contrib/predicates.hpp>
#include <tao/pegtl/contrib/raw_string.hpp>
#include <tao/pegtl/contrib/rep_one_min_max.hpp>

using namespace tao::pegtl;

struct runaway_t {};
static long g_steps = 0;
template< typename Rule >
struct counting : normal< Rule >
{
   template< typename In, typename... St >
   static void start( const In& /*unused*/, St&&... /*unused*/ )
   {
      if( ++g_steps > 100000 ) {
         throw runaway_t{};
      }
   }
};

// a user-defined rule registered the way doc/Grammar-Analysis.md describes: consumes by itself ( the ';' ) and has a sub-rule
template< typename R >
struct terminated
{
   using rule_t = terminated;
   using subs_t = type_list< R >;
   template< apply_mode A, rewind_mode M, template< typename... > class Action, template< typename... > class Control, typename In, typename... St >
   [[nodiscard]] static bool match( In& in, St&&... st )
   {
      return Control< seq< R, one< ';' > > >::template match< A, M, Action, Control >( in, st... );
   }
};
namespace tao::pegtl
{
   template< typename Name, typename R >
   struct analyze_traits< Name, terminated< R > > : analyze_any_traits< R > {};
}  // namespace tao::pegtl

using raw0 = raw_string< '[', '=', ']' >;
namespace g
{
   // content rules that can succeed without consuming: the content loop of raw_string never ends
   struct r1 : raw_string< '[', '=', ']', star< print > > {};
   struct r2 : raw_string< '[', '=', ']', opt< alpha >, opt< digit > > {};
   struct r3 : raw_string< '[', '=', ']', star< not_one< '\n' > >, eolf > {};
   struct r4 : seq< one< 'x' >, raw_string< '[', '=', ']', star< star< any > > > > {};
   // consuming content rules: fine
   struct r5 : raw_string< '[', '=', ']', plus< alpha > > {};
   struct r6 : raw_string< '[', '=', ']', sor< alpha, digit, one< '\t', ' ' > > > {};
   struct r7 : star< sor< raw0, any > > {};
   // left recursion through / around raw_string
   struct r8;
   struct r8 : sor< seq< r8, raw0 >, raw0 > {};
   struct r9;
   struct r9 : seq< opt< raw0 >, r9 > {};
   struct r10;
   struct r10 : seq< raw0, opt< r10 > > {};
   // rep_one_min_max: Min == 0 is nullable
   struct q1 : star< rep_one_min_max< 0, 2, 'a' > > {};
   struct q2 : star< rep_one_min_max< 1, 2, 'a' > > {};
   struct q3 : plus< sor< rep_one_min_max< 0, 0, 'a' >, one< 'b' > > > {};
   struct q4;
   struct q4 : seq< rep_one_min_max< 0, 3, 'a' >, q4 > {};
   struct q5;
   struct q5 : seq< rep_one_min_max< 2, 3, 'a' >, opt< q5 > > {};
   // predicates and integer rules always consume
   struct p1 : star< predicates_or< one< 'a' >, range< '0', '9' > > > {};
   struct p2;
   struct p2 : sor< seq< predicate_not< one< 'a' > >, p2 >, eof > {};
   struct p3;
   struct p3 : seq< opt< predicates_and< alpha, not_one< 'a' > > >, p3 > {};
   struct i1 : star< sor< unsigned_rule, one< 'a' > > > {};
   struct i2 : star< opt< signed_rule > > {};
   struct i3;
   struct i3 : seq< maximum_rule< std::uint8_t >, opt< one< '.' >, i3 > > {};
   struct i4;
   struct i4 : sor< seq< i4, one< '+' >, unsigned_rule >, unsigned_rule > {};
   // bounded integer rules with small maxima inside repetitions (always-consuming by their traits: a zero-length success would loop)
   struct i5 : star< maximum_rule< std::uint8_t, 5 >, opt< one< ',' > > > {};
   struct i6 : seq< plus< sor< maximum_rule< std::uint64_t, 0 >, one< ',' > > >, eof > {};
   struct i7 : star< sor< maximum_rule< std::uint16_t, 9 >, seq< digit, digit > > > {};
   // cycles that pass through a user-defined rule with analyze_any_traits< SubRule >
   struct e1;
   struct e1 : terminated< sor< seq< e1, one< '+' >, digit >, digit > > {};
   struct e2;
   struct e2 : seq< opt< digit >, terminated< star< e2 > > > {};
   struct e3 : star< terminated< opt< digit > > > {};     // fine: every iteration consumes the ';'
   // rule names that contain the delimiters of the compiler's pretty-function text ( ; = ] > , ' ): the analysis keys its
   // table by the demangled rule name, so two different rules must never share a key; in each grammar the first repetition
   // is fine and the second one (same text up to the literal) has a nullable body
   struct n1 : seq< star< opt< one< ';' > >, alpha >, star< opt< one< ';' > > > > {};
   struct n2 : seq< star< opt< one< ']' > >, alpha >, star< opt< one< ']' > > > > {};
   struct n3 : seq< star< opt< one< '=' > >, alpha >, star< opt< one< '=' > > > > {};
   struct n4 : seq< star< opt< one< '>' > >, alpha >, star< opt< one< '>' > > > > {};
   struct n5 : seq< star< opt< one< ',' > >, alpha >, star< opt< one< ',' > > > > {};
   struct n6 : seq< star< opt< one< '\'' > >, alpha >, star< opt< one< '\'' > > > > {};
   struct n7 : seq< star< opt< string< '[', ';', ' ', 's', 't', 'd', ':', ':' > >, alpha >, star< opt< string< '[', ';', ' ', 's', 't', 'd', ':', ':' > > > > {};
   struct n8 : seq< star< opt< one< ';' > >, alpha >, star< one< ';' > > > {};   // both fine
}  // namespace g

static std::string hex( const std::string& s )
{
   static const char* d = "0123456789abcdef";
   std::string r;
   for( unsigned char c : s ) {
      r += d[ c >> 4 ];
      r += d[ c & 15 ];
   }
   return r.empty() ? "-" : r;
}

static std::vector< std::string > inputs( const std::string& alphabet, const int maxlen, const std::vector< std::string >& extra )
{
   std::vector< std::string > all{ "" }, cur{ "" };
   for( int l = 0; l < maxlen; ++l ) {
      std::vector< std::string > nx;
      for( const auto& p : cur ) {
         for( char ch : alphabet ) {
            nx.push_back( p + ch );
         }
      }
      all.insert( all.end(), nx.begin(), nx.end() );
      cur = std::move( nx );
   }
   all.insert( all.end(), extra.begin(), extra.end() );
   return all;
}

template< typename G >
static void one_grammar( const int k, const std::string& alphabet, const int maxlen, const std::vector< std::string >& extra )
{
   const std::size_t problems = analyze< G >( -1 );
   int runaway = 0;
   std::string first = "-";
   std::size_t cases = 0;
   for( const auto& s : inputs( alphabet, maxlen, extra ) ) {
      ++cases;
      g_steps = 0;
      memory_input<> in( s.data(), s.data() + s.size(), "c11" );
      try {
         (void)parse< G, nothing, counting >( in );
      }
      catch( const runaway_t& ) {
         if( !runaway ) {
            first = hex( s );
         }
         runaway = 1;
      }
      catch( const std::exception& ) {
      }
   }
   std::printf( "G %d %zu %d %s %zu\n", k, problems, runaway, first.c_str(), cases );
}

int main( int argc, char** argv )
{
   const int ml = argc > 1 ? std::atoi( argv[ 1 ] ) : 4;
   const std::vector< std::string > raws{ "[[ab\tcd]]", "[=[ab\ncd", "[[a1-]]", "[[ab]]", "[==[a]=]b]==]", "x[[ab]]", "[[ a1\t]]", "[[]][[a]]" };
   one_grammar< g::r1 >( 1, "[]a\t", ml + 2, raws );
   one_grammar< g::r2 >( 2, "[]a1-", ml + 2, raws );
   one_grammar< g::r3 >( 3, "[]a\n", ml + 2, raws );
   one_grammar< g::r4 >( 4, "x[]a", ml + 2, raws );
   one_grammar< g::r5 >( 5, "[]a1", ml + 2, raws );
   one_grammar< g::r6 >( 6, "[]a1\t", ml + 2, raws );
   one_grammar< g::r7 >( 7, "[]=a", ml + 2, raws );
   one_grammar< g::r8 >( 8, "[]a", ml + 2, raws );
   one_grammar< g::r9 >( 9, "[]a", ml + 2, raws );
   one_grammar< g::r10 >( 10, "[]a", ml + 2, raws );
   one_grammar< g::q1 >( 11, "ab", ml + 1, {} );
   one_grammar< g::q2 >( 12, "ab", ml + 1, {} );
   one_grammar< g::q3 >( 13, "ab", ml + 1, {} );
   one_grammar< g::q4 >( 14, "ab", ml + 1, {} );
   one_grammar< g::q5 >( 15, "ab", ml + 2, {} );
   one_grammar< g::p1 >( 16, "a1b", ml + 1, {} );
   one_grammar< g::p2 >( 17, "ab", ml + 1, {} );
   one_grammar< g::p3 >( 18, "ab", ml + 1, {} );
   one_grammar< g::i1 >( 19, "a10", ml + 1, {} );
   one_grammar< g::i2 >( 20, "-1a", ml + 1, {} );
   one_grammar< g::i3 >( 21, "12.", ml + 2, {} );
   one_grammar< g::i4 >( 22, "1+", ml + 1, {} );
   one_grammar< g::i5 >( 31, "7,1", ml + 1, {} );
   one_grammar< g::i6 >( 32, "0,1", ml + 1, {} );
   one_grammar< g::i7 >( 33, "19", ml + 1, { "99", "909", "1000" } );
   one_grammar< g::e1 >( 34, "1;+", ml + 1, { "1;x", "1+2;" } );
   one_grammar< g::e2 >( 35, "1;", ml + 1, {} );
   one_grammar< g::e3 >( 36, "1;", ml + 1, {} );
   one_grammar< g::n1 >( 23, "a;", ml, {} );
   one_grammar< g::n2 >( 24, "a]", ml, {} );
   one_grammar< g::n3 >( 25, "a=", ml, {} );
   one_grammar< g::n4 >( 26, "a>", ml, {} );
   one_grammar< g::n5 >( 27, "a,", ml, {} );
   one_grammar< g::n6 >( 28, "a'", ml, {} );
   one_grammar< g::n7 >( 29, "a[", ml, { "[; std::a" } );
   one_grammar< g::n8 >( 30, "a;", ml, {} );
   return 0;
}
