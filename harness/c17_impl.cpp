// c17_impl.cpp - implementation side of the C17 correspondence (contrib/unescape.hpp).
// Reads one command per line from stdin and prints one canonical result line per command.
// Everything is computed by the REAL library code: the free functions are called directly, the
// actions are invoked by tao::pegtl::parse() through small grammars (as in
// src/example/pegtl/unescape.cpp and json_unescape.hpp).
//
//   AR <lo> <hi> <chunk>     utf8_append_utf32 on every value of [lo,hi): per chunk "AR <start> <crc32> <adler32>"
//                            of the concatenated "a ..." lines (hex numbers, no 0x)
//   a <cp>                   "a <cp:08x> <ret> <string afterwards>"   (string starts as "Z")
//   J|U|X <s0> <in>          action unescape_j / unescape_u / unescape_x applied to the matched bytes <in>
//                            with the string state initially <s0>:  "<cmd> <s0> <in> ok|throw <string>"
//   P <s0> <in>              append_all
//   C json|cex <s0> <in>     unescape_c of json_unescape.hpp / of the unescape.cpp example through
//                            seq< escaped_char, eof >:  "... ok <string>" or "... nomatch"
//   H 8|16|32|64|c <digits>  unhex_string< T >:  "H <w> <digits> <value as unsigned hex>"
//   T                        the Qs/Rs packs the compiler sees: "T json <qs> <rs>", "T cex <qs> <rs>"
//   GJ <in>                  parse seq< json::string, eof > with example::json_unescape:  "GJ <in> ok <out>|fail|error"
//   GC <in>                  parse the `padded` grammar of unescape.cpp with its actions:   "GC <in> ok <out>|fail|error"
// Byte strings are lower-case hex, "-" for the empty string; <digits> is raw ASCII ("-" if empty).

#include <cstdint>
#include <cstdio>
#include <cstring>
#include <iostream>
#include <memory>
#include <string>
#include <vector>

#include <tao/pegtl.hpp>
#include <tao/pegtl/contrib/json.hpp>
#include <tao/pegtl/contrib/unescape.hpp>

#include "json_unescape.hpp"  // the shipped example action (src/example/pegtl)

namespace pegtl = TAO_PEGTL_NAMESPACE;
using namespace TAO_PEGTL_NAMESPACE;  // NOLINT

namespace
{
   std::string hex( const std::string& s )
   {
      if( s.empty() ) {
         return "-";
      }
      static const char* d = "0123456789abcdef";
      std::string r;
      for( const char ch : s ) {
         const auto c = static_cast< unsigned char >( ch );
         r += d[ c >> 4 ];
         r += d[ c & 15 ];
      }
      return r;
   }

   std::string unhex( const std::string& h )
   {
      if( h == "-" ) {
         return "";
      }
      std::string r;
      for( std::size_t i = 0; i + 1 < h.size(); i += 2 ) {
         r += static_cast< char >( std::stoi( h.substr( i, 2 ), nullptr, 16 ) );
      }
      return r;
   }

   // exact-size heap copy without terminator, so that a read outside the matched bytes is visible to ASan
   struct exact
   {
      std::unique_ptr< char[] > p;
      std::size_t n;
      explicit exact( const std::string& s )
         : p( new char[ s.size() ? s.size() : 1 ] ),
           n( s.size() )
      {
         std::memcpy( p.get(), s.data(), s.size() );
      }
      [[nodiscard]] const char* begin() const
      {
         return p.get();
      }
      [[nodiscard]] const char* end() const
      {
         return p.get() + n;
      }
   };

   std::uint32_t crc_table[ 256 ];
   void crc_init()
   {
      for( std::uint32_t i = 0; i < 256; ++i ) {
         std::uint32_t c = i;
         for( int k = 0; k < 8; ++k ) {
            c = ( c & 1 ) ? ( 0xEDB88320u ^ ( c >> 1 ) ) : ( c >> 1 );
         }
         crc_table[ i ] = c;
      }
   }
   std::uint32_t crc32( const std::string& s )
   {
      std::uint32_t c = 0xFFFFFFFFu;
      for( const char ch : s ) {
         c = crc_table[ ( c ^ static_cast< unsigned char >( ch ) ) & 0xFF ] ^ ( c >> 8 );
      }
      return c ^ 0xFFFFFFFFu;
   }
   std::uint32_t adler32( const std::string& s )
   {
      std::uint32_t a = 1;
      std::uint32_t b = 0;
      for( const char ch : s ) {
         a = ( a + static_cast< unsigned char >( ch ) ) % 65521;
         b = ( b + a ) % 65521;
      }
      return ( b << 16 ) | a;
   }

   std::string append_line( const unsigned cp )
   {
      std::string s = "Z";
      const bool ok = unescape::utf8_append_utf32( s, cp );
      char buf[ 32 ];
      std::snprintf( buf, sizeof( buf ), "a %08x %d ", cp, ok ? 1 : 0 );
      return buf + hex( s );
   }

   // ---- the whole input is the matched range of the rule `all`; the action under test is attached to it
   struct all : until< eof > {};

   template< typename R > struct act_j : nothing< R > {};
   template<> struct act_j< all > : unescape::unescape_j {};
   template< typename R > struct act_u : nothing< R > {};
   template<> struct act_u< all > : unescape::unescape_u {};
   template< typename R > struct act_x : nothing< R > {};
   template<> struct act_x< all > : unescape::unescape_x {};
   template< typename R > struct act_p : nothing< R > {};
   template<> struct act_p< all > : unescape::append_all {};

   template< template< typename... > class Action >
   std::string run_all( const std::string& s0, const std::string& in )
   {
      std::string s = s0;
      const exact buf( in );
      memory_input<> mi( buf.begin(), buf.end(), "c17" );
      try {
         const bool r = parse< all, Action >( mi, s );
         return std::string( r ? "ok " : "false " ) + hex( s );
      }
      catch( const parse_error& ) {
         return "throw " + hex( s );
      }
   }

   // ---- unescape_c: JSON instance exactly as shipped, C instance exactly as in unescape.cpp
   template< typename R > struct act_cjson : example::json_unescape_action< R > {};

   namespace cex  // verbatim from src/example/pegtl/unescape.cpp
   {
      // clang-format off
      struct escaped_x : seq< one< 'x' >, rep< 2, xdigit > > {};
      struct escaped_u : seq< one< 'u' >, rep< 4,  xdigit > > {};
      struct escaped_U : seq< one< 'U' >, rep< 8,  xdigit > > {};
      struct escaped_c : one< '\'', '"', '?', '\\', 'a', 'b', 'f', 'n', 'r', 't', 'v' > {};

      struct escaped : sor< escaped_x,
                            escaped_u,
                            escaped_U,
                            escaped_c > {};

      struct character : if_then_else< one< '\\' >, escaped, utf8::range< 0x20, 0x10FFFF > > {};
      struct literal : seq< one< '"' >, until< one< '"' >, character > > {};

      struct padded : seq< pad< literal, blank >, eof > {};

      template< typename Rule > struct action {};

      template<> struct action< utf8::range< 0x20, 0x10FFFF > > : unescape::append_all {};
      template<> struct action< escaped_x > : unescape::unescape_x {};
      template<> struct action< escaped_u > : unescape::unescape_u {};
      template<> struct action< escaped_U > : unescape::unescape_u {};
      template<> struct action< escaped_c > : unescape::unescape_c< escaped_c, '\'', '"', '?', '\\', '\a', '\b', '\f', '\n', '\r', '\t', '\v' > {};
      // clang-format on
   }  // namespace cex

   template< typename Rule, template< typename... > class Action >
   std::string run_c( const std::string& s0, const std::string& in )
   {
      std::string s = s0;
      const exact buf( in );
      memory_input<> mi( buf.begin(), buf.end(), "c17" );
      try {
         if( parse< seq< Rule, eof >, Action >( mi, s ) ) {
            return "ok " + hex( s );
         }
         return "nomatch";
      }
      catch( const parse_error& ) {
         return "throw " + hex( s );
      }
   }

   // ---- the packs as the compiler sees them
   template< char... Qs >
   std::string qs_of( const one< Qs... >* /*unused*/ )
   {
      return hex( std::string{ Qs... } );
   }
   template< typename T, char... Rs >
   std::string rs_of( const unescape::unescape_c< T, Rs... >* /*unused*/ )
   {
      return hex( std::string{ Rs... } );
   }

   // ---- whole-literal runs
   template< typename R > struct gj_action : nothing< R > {};
   template<> struct gj_action< json::string::content > : example::json_unescape
   {
      template< typename ParseInput >
      static void success( const ParseInput& /*unused*/, std::string& s, std::string& out )
      {
         out = std::move( s );
      }
   };

   template< typename Rule, template< typename... > class Action >
   std::string run_g( const std::string& in )
   {
      std::string out;
      const exact buf( in );
      memory_input<> mi( buf.begin(), buf.end(), "c17" );
      try {
         if( parse< Rule, Action >( mi, out ) ) {
            return "ok " + hex( out );
         }
         return "fail";
      }
      catch( const parse_error& ) {
         return "error";
      }
   }

   template< typename T >
   std::string run_h( const std::string& digits )
   {
      const exact buf( digits );
      const T v = unescape::unhex_string< T >( buf.begin(), buf.end() );
      using U = std::make_unsigned_t< T >;
      char b[ 32 ];
      std::snprintf( b, sizeof( b ), "%llx", static_cast< unsigned long long >( static_cast< U >( v ) ) );
      return b;
   }

}  // namespace

int main()
{
   crc_init();
   std::ios::sync_with_stdio( false );
   std::string line;
   std::string out;
   while( std::getline( std::cin, line ) ) {
      if( line.empty() ) {
         continue;
      }
      std::vector< std::string > t;
      {
         std::size_t i = 0;
         while( i < line.size() ) {
            const std::size_t j = line.find( ' ', i );
            if( j == std::string::npos ) {
               t.push_back( line.substr( i ) );
               break;
            }
            if( j > i ) {
               t.push_back( line.substr( i, j - i ) );
            }
            i = j + 1;
         }
      }
      const std::string& c = t[ 0 ];
      if( c == "AR" && t.size() == 4 ) {
         const unsigned long long lo = std::stoull( t[ 1 ], nullptr, 16 );
         const unsigned long long hi = std::stoull( t[ 2 ], nullptr, 16 );
         const unsigned long long ch = std::stoull( t[ 3 ], nullptr, 16 );
         for( unsigned long long s = lo; s < hi; s += ch ) {
            std::string text;
            for( unsigned long long v = s; v < s + ch && v < hi; ++v ) {
               text += append_line( static_cast< unsigned >( v ) );
               text += '\n';
            }
            char buf[ 64 ];
            std::snprintf( buf, sizeof( buf ), "AR %08llx %08x %08x\n", s, crc32( text ), adler32( text ) );
            out += buf;
         }
      }
      else if( c == "a" && t.size() == 2 ) {
         out += append_line( static_cast< unsigned >( std::stoull( t[ 1 ], nullptr, 16 ) ) ) + "\n";
      }
      else if( ( c == "J" || c == "U" || c == "X" || c == "P" ) && t.size() == 3 ) {
         const std::string s0 = unhex( t[ 1 ] );
         const std::string in = unhex( t[ 2 ] );
         std::string r;
         if( c == "J" ) {
            r = run_all< act_j >( s0, in );
         }
         else if( c == "U" ) {
            r = run_all< act_u >( s0, in );
         }
         else if( c == "X" ) {
            r = run_all< act_x >( s0, in );
         }
         else {
            r = run_all< act_p >( s0, in );
         }
         out += c + " " + t[ 1 ] + " " + t[ 2 ] + " " + r + "\n";
      }
      else if( c == "C" && t.size() == 4 ) {
         const std::string s0 = unhex( t[ 2 ] );
         const std::string in = unhex( t[ 3 ] );
         const std::string r = ( t[ 1 ] == "json" ) ? run_c< json::escaped_char, act_cjson >( s0, in ) : run_c< cex::escaped_c, cex::action >( s0, in );
         out += "C " + t[ 1 ] + " " + t[ 2 ] + " " + t[ 3 ] + " " + r + "\n";
      }
      else if( c == "H" && t.size() == 3 ) {
         const std::string digits = ( t[ 2 ] == "-" ) ? "" : t[ 2 ];
         std::string r;
         if( t[ 1 ] == "8" ) {
            r = run_h< unsigned char >( digits );
         }
         else if( t[ 1 ] == "16" ) {
            r = run_h< unsigned short >( digits );
         }
         else if( t[ 1 ] == "32" ) {
            r = run_h< unsigned >( digits );
         }
         else if( t[ 1 ] == "64" ) {
            r = run_h< unsigned long long >( digits );
         }
         else {
            r = run_h< char >( digits );
         }
         out += "H " + t[ 1 ] + " " + t[ 2 ] + " " + r + "\n";
      }
      else if( c == "T" ) {
         out += "T json " + qs_of( static_cast< const json::escaped_char* >( nullptr ) ) + " " + rs_of( static_cast< const example::json_unescape_action< json::escaped_char >* >( nullptr ) ) + "\n";
         out += "T cex " + qs_of( static_cast< const cex::escaped_c* >( nullptr ) ) + " " + rs_of( static_cast< const cex::action< cex::escaped_c >* >( nullptr ) ) + "\n";
      }
      else if( c == "GJ" && t.size() == 2 ) {
         out += "GJ " + t[ 1 ] + " " + run_g< seq< json::string, eof >, gj_action >( unhex( t[ 1 ] ) ) + "\n";
      }
      else if( c == "GC" && t.size() == 2 ) {
         out += "GC " + t[ 1 ] + " " + run_g< cex::padded, cex::action >( unhex( t[ 1 ] ) ) + "\n";
      }
      else {
         out += "? " + line + "\n";
      }
      if( out.size() > ( 1U << 16 ) ) {
         std::fwrite( out.data(), 1, out.size(), stdout );
         out.clear();
      }
   }
   std::fwrite( out.data(), 1, out.size(), stdout );
   return 0;
}
