// c07_nul.cpp - C07, data with embedded NUL bytes (the grammar-level corpus uses C-string alphabets): the same bytes through
// every input class that takes a length - memory_input( pointer, size ), memory_input( begin, end ), memory_input( const
// std::string& ), memory_input( std::string_view ), string_input, buffer_input with a one-byte reader, istream_input, and
// read_input / mmap_input over a file - must give the same result, consumed length and action trace; and memory inputs constructed with an explicit start
// position must report the same positions under eager and lazy tracking.
// Prints "BAD ..." lines and "DONE <cases> <bad>".
#include <cstdio>
#include <fstream>
#include <sstream>
#include <string>
#include <string_view>
#include <vector>

#include <unistd.h>

#include <tao/pegtl.hpp>
#include <tao/pegtl/buffer_input.hpp>
#include <tao/pegtl/istream_input.hpp>
#include <tao/pegtl/mmap_input.hpp>
#include <tao/pegtl/read_input.hpp>

using namespace tao::pegtl;

struct rec : seq< plus< not_one< ';' > >, one< ';' > > {};
struct G : seq< star< sor< rec, one< 0 >, any > >, eof > {};
struct H : seq< one< 'a' >, one< 0 >, one< 'b' >, eof > {};

static std::string g_log;
template< typename R > struct act : nothing< R > {};
template<> struct act< rec >
{
   template< typename AI > static void apply( const AI& in ) { g_log += "r[" + std::to_string( in.position().byte ) + "+" + std::to_string( in.size() ) + "]"; }
};

struct byte_reader
{
   const char* p;
   const char* e;
   byte_reader( const char* b, const char* en ) : p( b ), e( en ) {}
   std::size_t operator()( char* buffer, const std::size_t length )
   {
      if( ( p == e ) || ( length == 0 ) ) {
         return 0;
      }
      buffer[ 0 ] = *p++;
      return 1;
   }
};

template< typename Rule, typename In >
static std::string run( In&& in )
{
   g_log.clear();
   std::string r;
   try {
      r = parse< Rule, act >( in ) ? "T" : "F";
   }
   catch( const std::exception& e ) {
      r = std::string( "X:" ) + e.what();
   }
   return r + "@" + std::to_string( in.byte() ) + " " + g_log;
}

static int n_cases = 0, n_bad = 0;

template< typename Rule >
static void one_case( const char* rule, const std::string& data, const std::string& path )
{
   ++n_cases;
   const std::string ref = run< Rule >( memory_input<>( data.data(), data.size(), "s" ) );
   std::vector< std::pair< const char*, std::string > > got;
   got.emplace_back( "memory_input( begin, end )", run< Rule >( memory_input<>( data.data(), data.data() + data.size(), "s" ) ) );
   got.emplace_back( "memory_input( const std::string& )", run< Rule >( memory_input<>( data, "s" ) ) );
   got.emplace_back( "memory_input( std::string_view )", run< Rule >( memory_input<>( std::string_view( data ), "s" ) ) );
   got.emplace_back( "memory_input< lazy >( const std::string& )", run< Rule >( memory_input< tracking_mode::lazy >( data, "s" ) ) );
   got.emplace_back( "string_input", run< Rule >( string_input<>( data, "s" ) ) );
   got.emplace_back( "buffer_input", run< Rule >( buffer_input< byte_reader, eol::lf_crlf, std::string, 1 >( "s", 64, data.data(), data.data() + data.size() ) ) );
   {
      std::istringstream is( data );
      got.emplace_back( "istream_input", run< Rule >( istream_input<>( is, 64, "s" ) ) );
   }
   {
      std::ofstream( path, std::ios::binary ).write( data.data(), std::streamsize( data.size() ) );
      got.emplace_back( "read_input", run< Rule >( read_input<>( path ) ) );
      if( !data.empty() ) {
         got.emplace_back( "mmap_input", run< Rule >( mmap_input<>( path ) ) );
      }
   }
   for( const auto& g : got ) {
      if( g.second != ref ) {
         ++n_bad;
         std::string hex;
         static const char* d = "0123456789abcdef";
         for( unsigned char c : data ) {
            hex += d[ c >> 4 ];
            hex += d[ c & 15 ];
         }
         std::printf( "BAD %s on %s data %s: '%s' instead of '%s' (memory_input( pointer, size ))\n", g.first, rule, hex.c_str(), g.second.c_str(), ref.c_str() );
      }
   }
}

// memory inputs constructed with an explicit start position ( byte, line, column ): eager and lazy tracking must report
// the same positions to actions, in errors and at the end
struct pitem : seq< plus< not_one< ';', '!' > >, one< ';' > > {};
struct P : seq< star< sor< pitem, one< '\n' > > >, must< eof > > {};
static std::string p_log;
template< typename R > struct pact : nothing< R > {};
template<> struct pact< pitem >
{
   template< typename AI > static void apply( const AI& in )
   {
      const auto p = in.position();
      p_log += "i[" + std::to_string( p.byte ) + ":" + std::to_string( p.line ) + ":" + std::to_string( p.column ) + "+" + std::to_string( in.size() ) + "]";
   }
};

template< typename In >
static std::string prun( In&& in )
{
   p_log.clear();
   std::string r;
   try {
      r = parse< P, pact >( in ) ? "T" : "F";
   }
   catch( const parse_error& e ) {
      const auto& p = e.position_object();
      r = "E{" + std::to_string( p.byte ) + ":" + std::to_string( p.line ) + ":" + std::to_string( p.column ) + "}";
   }
   const auto p = in.position();
   return r + "@" + std::to_string( in.byte() ) + "=" + std::to_string( p.byte ) + ":" + std::to_string( p.line ) + ":" + std::to_string( p.column ) + " " + p_log;
}

static void start_cases()
{
   const std::vector< std::string > datas = { "", "ab;", "ab;\ncd;\n", "a\nb;c;", "ab;\n!x", "\n\nq;!" };
   const std::size_t starts[][ 3 ] = { { 0, 1, 1 }, { 100, 7, 5 }, { 3, 1, 4 }, { 0, 9, 1 }, { 17, 1, 1 } };
   for( const auto& d : datas ) {
      for( const auto& st : starts ) {
         ++n_cases;
         const char* b = d.data();
         const char* e = d.data() + d.size();
         const std::string eager = prun( memory_input< tracking_mode::eager >( b, e, "s", st[ 0 ], st[ 1 ], st[ 2 ] ) );
         const std::string lazy = prun( memory_input< tracking_mode::lazy >( b, e, "s", st[ 0 ], st[ 1 ], st[ 2 ] ) );
         if( eager != lazy ) {
            ++n_bad;
            std::printf( "BAD memory_input< lazy >( begin, end, source, byte, line, column ) on P start %zu:%zu:%zu data of %zu bytes: '%s' instead of '%s' (memory_input< eager >, same constructor)\n", st[ 0 ], st[ 1 ], st[ 2 ], d.size(), lazy.c_str(), eager.c_str() );
         }
         // the default start must agree with the plain constructor
         if( st[ 0 ] == 0 && st[ 1 ] == 1 && st[ 2 ] == 1 ) {
            const std::string plain = prun( memory_input<>( b, e, "s" ) );
            if( plain != eager ) {
               ++n_bad;
               std::printf( "BAD memory_input( begin, end, source, 0, 1, 1 ) on P data of %zu bytes: '%s' instead of '%s' (memory_input( begin, end, source ))\n", d.size(), eager.c_str(), plain.c_str() );
            }
         }
      }
   }
}

// every eol policy: a memory_input over a window of a larger array (the bytes behind the window complete a line ending)
// against a string_input holding a copy of exactly the window's bytes
struct E : seq< star< sor< eol, not_one< '\r', '\n' >, any > >, eof > {};
static std::string e_log;
template< typename R > struct eact : nothing< R > {};
template<> struct eact< eol >
{
   template< typename AI > static void apply( const AI& in ) { e_log += "e[" + std::to_string( in.position().byte ) + "+" + std::to_string( in.size() ) + "]"; }
};

template< typename In >
static std::string erun( In&& in )
{
   e_log.clear();
   std::string r;
   try {
      r = parse< E, eact >( in ) ? "T" : "F";
   }
   catch( const std::exception& e ) {
      r = "X";
   }
   const auto p = in.position();
   return r + "@" + std::to_string( p.byte ) + ":" + std::to_string( p.line ) + ":" + std::to_string( p.column ) + " " + e_log;
}

template< typename Eol >
static void eol_policy( const char* name )
{
   const std::string alphabet = "a\r\n";
   std::vector< std::string > cur{ "" }, all{ "" };
   for( int l = 0; l < 4; ++l ) {
      std::vector< std::string > nx;
      for( const auto& p : cur ) {
         for( const char c : alphabet ) {
            nx.push_back( p + c );
         }
      }
      all.insert( all.end(), nx.begin(), nx.end() );
      cur = std::move( nx );
   }
   for( const auto& d : all ) {
      for( const char* tail : { "\n\r\n", "\r\n", "a" } ) {
         ++n_cases;
         const std::string arena = d + tail;
         const std::string ref = erun( string_input< tracking_mode::eager, Eol >( std::string( d ), "s" ) );
         const std::string eager = erun( memory_input< tracking_mode::eager, Eol >( arena.data(), arena.data() + d.size(), "s" ) );
         const std::string lazy = erun( memory_input< tracking_mode::lazy, Eol >( arena.data(), arena.data() + d.size(), "s" ) );
         for( const auto& g : { std::make_pair( "eager", eager ), std::make_pair( "lazy", lazy ) } ) {
            // cr_crlf: eager and lazy tracking disagree on the column after CR LF (recorded under C06); compare result, byte and actions only
            const bool crcrlf = std::string( name ) == "cr_crlf";
            const auto cut = []( const std::string& s ) { const auto a = s.find( ':' ); const auto b = s.find( ' ' ); return s.substr( 0, a ) + s.substr( b ); };
            if( crcrlf ? ( cut( g.second ) != cut( ref ) ) : ( g.second != ref ) ) {
               ++n_bad;
               std::printf( "BAD memory_input< %s, eol::%s > over a window on E data of %zu bytes followed by %zu more: '%s' instead of '%s' (string_input with a copy of the window)\n", g.first, name, d.size(), std::string( tail ).size(), g.second.c_str(), ref.c_str() );
            }
         }
      }
   }
}

int main()
{
   start_cases();
   eol_policy< eol::lf >( "lf" );
   eol_policy< eol::cr >( "cr" );
   eol_policy< eol::crlf >( "crlf" );
   eol_policy< eol::lf_crlf >( "lf_crlf" );
   eol_policy< eol::cr_crlf >( "cr_crlf" );
   const std::string path = "/tmp/c07_nul_" + std::to_string( getpid() ) + ".bin";
   const std::string alphabet( "a\0b;", 4 );
   std::vector< std::string > cur{ "" }, all{ "" };
   for( int l = 0; l < 5; ++l ) {
      std::vector< std::string > nx;
      for( const auto& p : cur ) {
         for( const char c : alphabet ) {
            nx.push_back( p + c );
         }
      }
      all.insert( all.end(), nx.begin(), nx.end() );
      cur = std::move( nx );
   }
   all.push_back( std::string( "ab\0cd;ef;\0\0gh;", 15 ) );
   for( const auto& s : all ) {
      one_case< G >( "G", s, path );
      if( s.size() == 3 ) {
         one_case< H >( "H", s, path );
      }
   }
   std::remove( path.c_str() );
   std::printf( "DONE %d %d\n", n_cases, n_bad );
   return 0;
}
