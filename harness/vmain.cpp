// vmain.cpp - entry point of a corpus binary:  <bin> dump            -> NODE/NAME/ACT/REG lines
//                                             <bin> run <cases>     -> one RUN line per case "gid cfg hexinput"
#include "vharness.hpp"
#include <tao/pegtl/buffer_input.hpp>
#include <string_view>
#include <cstdlib>
#include <fstream>
#include <iostream>
void register_all();
static std::string unhex( const std::string& h )
{
   if( h == "-" ) {
      return "";
   }
   std::string r;
   for( std::size_t i = 0; i + 1 < h.size(); i += 2 ) {
      r += char( std::stoi( h.substr( i, 2 ), nullptr, 16 ) );
   }
   return r;
}
// Input-class sanity of the tree under test, printed with the table dump (the corpus itself always constructs its inputs from
// a pointer pair): the length-taking memory_input constructors must agree on data with embedded NUL bytes, and a buffer_input
// fed by a reader that delivers one byte per call must satisfy require( n ).
struct selftest_reader
{
   const char* p;
   const char* e;
   selftest_reader( const char* b, const char* en ) : p( b ), e( en ) {}
   std::size_t operator()( char* buffer, const std::size_t length )
   {
      if( ( p == e ) || ( length == 0 ) ) {
         return 0;
      }
      buffer[ 0 ] = *p++;
      return 1;
   }
};
static void input_selftest()
{
   using namespace tao::pegtl;
   const std::string d( "ab\0cd\0", 6 );
   std::string bad;
   {
      const memory_input<> a( d.data(), d.size(), "s" );
      const memory_input<> b( d, "s" );
      const memory_input<> c( std::string_view( d ), "s" );
      const memory_input< tracking_mode::lazy > l( d, "s" );
      const string_input<> si( d, "s" );
      if( a.size( 0 ) != 6 || b.size( 0 ) != 6 || c.size( 0 ) != 6 || l.size( 0 ) != 6 || si.size( 0 ) != 6 ) {
         bad += " memory_input/string_input constructors disagree on the length of data with embedded NUL bytes;";
      }
   }
   {
      buffer_input< selftest_reader, eol::lf_crlf, std::string, 1 > in( "s", 16, d.data(), d.data() + d.size() );
      if( in.size( 4 ) < 4 || in.peek_char( 3 ) != 'c' ) {
         bad += " buffer_input::size( 4 ) does not make 4 bytes available when the reader delivers one byte per call;";
      }
   }
   std::printf( "SELFTEST %s\n", bad.empty() ? "ok" : ( "BAD" + bad ).c_str() );
}

int main( int argc, char** argv )
{
   register_all();
   const std::string mode = argc > 1 ? argv[ 1 ] : "dump";
   if( mode == "dump" ) {
      input_selftest();
      vh::print_table();
      for( const auto& e : vh::registry() ) {
         std::printf( "REG %d %d %s\n", e.gid, e.root, e.cfg.c_str() );
      }
      return 0;
   }
   std::map< std::pair< int, std::string >, const vh::Entry* > m;
   for( const auto& e : vh::registry() ) {
      m[ { e.gid, e.cfg } ] = &e;
   }
   const bool echo = std::getenv( "VH_ECHO" ) != nullptr;
   std::ifstream f( argv[ 2 ] );
   int gid;
   std::string cfg, h;
   while( f >> gid >> cfg >> h ) {
      const auto it = m.find( { gid, cfg } );
      if( it == m.end() ) {
         continue;
      }
      if( echo ) {
         std::fprintf( stderr, "CASE %d %s %s\n", gid, cfg.c_str(), h.c_str() );
      }
      it->second->fn( gid, it->second->root, cfg, unhex( h ) );
   }
   return 0;
}
