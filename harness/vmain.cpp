#include "vharness.hpp"
std::vector< std::string > vh::inputs;
namespace vh
{
   void gen_inputs( const std::string& alphabet, const int maxlen )
   {
      inputs.clear();
      inputs.push_back( "" );
      std::vector< std::string > cur{ "" };
      for( int l = 1; l <= maxlen; ++l ) {
         std::vector< std::string > nx;
         for( const auto& p : cur ) {
            for( const char c : alphabet ) {
               nx.push_back( p + c );
            }
         }
         for( const auto& x : nx ) {
            inputs.push_back( x );
         }
         cur = nx;
      }
   }
}  // namespace vh
void run_all();
int main()
{
   run_all();
   vh::print_table();
   return 0;
}
