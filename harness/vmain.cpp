// vmain.cpp - entry point of a corpus binary:  <bin> dump            -> NODE/NAME/ACT/REG lines
//                                             <bin> run <cases>     -> one RUN line per case "gid cfg hexinput"
#include "vharness.hpp"
#include <cstdlib>
#include <fstream>
#include <iostream>
void register_all();
static std::string unhex( const std::string& h )
{
   if( h == "-" ) {
      return "";
   }
   std::string r;
   for( std::size_t i = 0; i + 1 < h.size(); i += 2 ) {
      r += char( std::stoi( h.substr( i, 2 ), nullptr, 16 ) );
   }
   return r;
}
int main( int argc, char** argv )
{
   register_all();
   const std::string mode = argc > 1 ? argv[ 1 ] : "dump";
   if( mode == "dump" ) {
      vh::print_table();
      for( const auto& e : vh::registry() ) {
         std::printf( "REG %d %d %s\n", e.gid, e.root, e.cfg.c_str() );
      }
      return 0;
   }
   std::map< std::pair< int, std::string >, const vh::Entry* > m;
   for( const auto& e : vh::registry() ) {
      m[ { e.gid, e.cfg } ] = &e;
   }
   const bool echo = std::getenv( "VH_ECHO" ) != nullptr;
   std::ifstream f( argv[ 2 ] );
   int gid;
   std::string cfg, h;
   while( f >> gid >> cfg >> h ) {
      const auto it = m.find( { gid, cfg } );
      if( it == m.end() ) {
         continue;
      }
      if( echo ) {
         std::fprintf( stderr, "CASE %d %s %s\n", gid, cfg.c_str(), h.c_str() );
      }
      it->second->fn( gid, it->second->root, cfg, unhex( h ) );
   }
   return 0;
}
