// c13_single.cpp - C13, the singular switches change_state< S > and change_action_and_state< A, S > with BOTH kinds of
// state type the library distinguishes (constructible from ( input, outer states... ) and default-constructible only), and
// the state< S > rule: success() exactly once iff the rule matched and (for the action-based variants) actions are enabled;
// constructions == destructions.  Scenarios: enabled, inside disable<>, inside at<> / not_at<>, a first attempt that matches
// the switch rule and then backtracks, an attempt that fails locally, an attempt that raises.
// Prints "BAD ..." lines and "DONE <cases> <bad>".
#include <cstdio>
#include <string>

#include <tao/pegtl.hpp>

using namespace tao::pegtl;

static int n_cases = 0, n_bad = 0;
struct counts
{
   int made = 0, gone = 0, success = 0, inner = 0;
};
static counts g_c;

struct D   // default-constructible only
{
   D() { ++g_c.made; }
   D( const D& ) = delete;
   ~D() { ++g_c.gone; }
   template< typename In, typename... St > void success( const In& /*unused*/, St&&... /*unused*/ ) { ++g_c.success; }
};
struct C   // constructible from ( input, outer states... ) only
{
   template< typename In, typename... St > explicit C( const In& /*unused*/, St&&... /*unused*/ ) { ++g_c.made; }
   C( const C& ) = delete;
   ~C() { ++g_c.gone; }
   template< typename In, typename... St > void success( const In& /*unused*/, St&&... /*unused*/ ) { ++g_c.success; }
};

struct I : one< 'i' > {};
struct W : seq< one< '[' >, plus< I >, opt< one< ']' > > > {};
struct Q : seq< one< '[' >, plus< I >, must< one< ']' > > > {};
template< typename R > struct g_plain : seq< R, eof > {};
template< typename R > struct g_dis : seq< disable< R >, eof > {};
template< typename R > struct g_at : seq< at< R >, R, eof > {};
template< typename R > struct g_notat : seq< not_at< R, one< '!' > >, R, eof > {};
template< typename R > struct g_back : seq< sor< seq< R, one< '!' > >, R >, eof > {};

template< typename R > struct inner : nothing< R > {};
template<> struct inner< I > { static void apply0( D& /*unused*/ ) { ++g_c.inner; } static void apply0( C& /*unused*/ ) { ++g_c.inner; } };

template< typename S > struct f_cs { template< typename R > struct act : nothing< R > {}; };
template<> template<> struct f_cs< D >::act< W > : change_state< D > {};
template<> template<> struct f_cs< D >::act< Q > : change_state< D > {};
template<> template<> struct f_cs< C >::act< W > : change_state< C > {};
template<> template<> struct f_cs< C >::act< Q > : change_state< C > {};
template< typename S > struct f_cas { template< typename R > struct act : nothing< R > {}; };
template<> template<> struct f_cas< D >::act< W > : change_action_and_state< inner, D > {};
template<> template<> struct f_cas< D >::act< Q > : change_action_and_state< inner, D > {};
template<> template<> struct f_cas< C >::act< W > : change_action_and_state< inner, C > {};
template<> template<> struct f_cas< C >::act< Q > : change_action_and_state< inner, C > {};

template< typename G, template< typename... > class A >
static void run( const char* what, const std::string& data, const int want_success, const int want_made )
{
   ++n_cases;
   g_c = counts();
   char res = '?';
   try {
      memory_input<> in( data, "s" );
      res = parse< G, A >( in ) ? 'T' : 'F';
   }
   catch( const parse_error& ) {
      res = 'X';
   }
   if( g_c.success != want_success || g_c.made != want_made || g_c.made != g_c.gone ) {
      ++n_bad;
      std::printf( "BAD %s on input '%s' (result %c): success() called %d times (expected %d), states constructed %d (expected %d), destroyed %d\n", what, data.c_str(), res, g_c.success, want_success, g_c.made, want_made, g_c.gone );
   }
}

// state< S, R > rule: success iff R matched, regardless of the apply mode
template< typename S > struct sW : state< S, seq< one< '[' >, plus< I >, opt< one< ']' > > > > {};
template< typename S > struct sQ : state< S, seq< one< '[' >, plus< I >, must< one< ']' > > > > {};

template< typename S, template< typename... > class A >
static void family( const std::string& name, const bool is_rule )
{
   const std::string n = name;
   if( !is_rule ) {
      run< g_plain< W >, A >( ( n + " enabled" ).c_str(), "[ii]", 1, 1 );
      run< g_plain< W >, A >( ( n + " enabled, local failure" ).c_str(), "[x", 0, 1 );
      run< g_plain< Q >, A >( ( n + " enabled, raise" ).c_str(), "[ii", 0, 1 );
      run< g_dis< W >, A >( ( n + " inside disable<>" ).c_str(), "[ii]", 0, 1 );
      run< g_at< W >, A >( ( n + " inside at<> then enabled" ).c_str(), "[ii]", 1, 2 );
      run< g_notat< W >, A >( ( n + " inside not_at<> then enabled" ).c_str(), "[i]", 1, 2 );
      run< g_back< W >, A >( ( n + " matched, then backtracked over, then matched" ).c_str(), "[ii]", 2, 2 );
   }
   else {
      run< g_plain< sW< S > >, A >( ( n + " enabled" ).c_str(), "[ii]", 1, 1 );
      run< g_plain< sW< S > >, A >( ( n + " local failure" ).c_str(), "[x", 0, 1 );
      run< g_plain< sQ< S > >, A >( ( n + " raise" ).c_str(), "[ii", 0, 1 );
      run< g_dis< sW< S > >, A >( ( n + " inside disable<>" ).c_str(), "[ii]", 1, 1 );
      run< g_at< sW< S > >, A >( ( n + " inside at<> then enabled" ).c_str(), "[ii]", 2, 2 );
      run< g_back< sW< S > >, A >( ( n + " matched, then backtracked over, then matched" ).c_str(), "[ii]", 2, 2 );
   }
}

int main()
{
   family< D, f_cs< D >::act >( "change_state< default-constructible state >", false );
   family< C, f_cs< C >::act >( "change_state< state constructible from the input >", false );
   family< D, f_cas< D >::act >( "change_action_and_state< A, default-constructible state >", false );
   family< C, f_cas< C >::act >( "change_action_and_state< A, state constructible from the input >", false );
   family< D, nothing >( "state< default-constructible state, R >", true );
   family< C, nothing >( "state< state constructible from the input, R >", true );
   std::printf( "DONE %d %d\n", n_cases, n_bad );
   return 0;
}
