// c12_harness.hpp — implementation side of the C12 (parse tree) check.
// For one (grammar, selector, action family, input) it runs
//   (1) the real parse_tree::parse< G, parse_tree::node, Selector, Action, Control > with an observer
//       control INSIDE parse_tree's own control, printing the returned tree canonically and the hook
//       events of that very run (the implementation's own log),
//   (2) the plain parse< G, Action, Control > (tree iff plain success),
//   (3) the plain parse with EVERY rule control-enabled (hidden internal rules visible): the complete
//       call tree of the same deterministic match, for the specification side.
// Uses only public customisation points; compiled against /repo/include on every run.
#pragma once
#include "vharness.hpp"
#include <tao/pegtl/contrib/parse_tree.hpp>
#include <tao/pegtl/must_if.hpp>
#include <set>

namespace c12
{
   using namespace tao::pegtl;
   namespace pt = tao::pegtl::parse_tree;

   // ------------------------------------------------------------------ selectors
   template< typename R > using sel_all = pt::internal::store_all< R >;
   template< typename R > using sel_named = std::bool_constant< vh::is_named< R > >;

   template< int K > struct pick { using type = std::false_type; };
   template<> struct pick< 1 > { using type = pt::store_content; };
   template<> struct pick< 2 > { using type = pt::remove_content; };
   template<> struct pick< 3 > { using type = pt::fold_one; };
   template<> struct pick< 4 > { using type = pt::discard_empty; };

   constexpr unsigned fnv( const std::string_view s ) noexcept
   {
      unsigned h = 2166136261u;
      for( const char c : s ) {
         h = ( h ^ static_cast< unsigned char >( c ) ) * 16777619u;
      }
      return h;
   }
   // pseudo-random choice per rule TYPE (compile time): salt K, distribution D over {none, store, remove, fold_one, discard_empty}
   template< int K, typename R >
   constexpr int hkind() noexcept
   {
      unsigned h = fnv( demangle< R >() ) + unsigned( K ) * 2654435761u;
      h ^= h >> 15;
      h *= 2246822519u;
      h ^= h >> 13;
      constexpr int d0[ 8 ] = { 0, 0, 0, 1, 1, 1, 1, 1 };   // subset, store only
      constexpr int d1[ 8 ] = { 0, 0, 0, 1, 1, 2, 3, 4 };   // subset with all transformers
      constexpr int d2[ 8 ] = { 0, 0, 0, 0, 0, 0, 1, 3 };   // sparse: deep unselected chains
      constexpr int d3[ 8 ] = { 1, 2, 3, 4, 3, 4, 1, 2 };   // everything selected, transformers mixed
      const unsigned i = ( h >> 7 ) % 8u;
      return ( K % 4 == 0 ) ? d0[ i ] : ( K % 4 == 1 ) ? d1[ i ] : ( K % 4 == 2 ) ? d2[ i ] : d3[ i ];
   }
   template< typename R > using selh0 = typename pick< hkind< 0, R >() >::type;
   template< typename R > using selh1 = typename pick< hkind< 1, R >() >::type;
   template< typename R > using selh2 = typename pick< hkind< 2, R >() >::type;
   template< typename R > using selh3 = typename pick< hkind< 3, R >() >::type;
   template< typename R > using selh4 = typename pick< hkind< 4, R >() >::type;
   template< typename R > using selh5 = typename pick< hkind< 5, R >() >::type;
   template< typename R > using selh6 = typename pick< hkind< 6, R >() >::type;
   template< typename R > using selh7 = typename pick< hkind< 7, R >() >::type;

   template< typename S >
   constexpr int sel_kind() noexcept
   {
      if constexpr( !S::value ) {
         return 0;
      }
      else if constexpr( std::is_base_of_v< pt::remove_content, S > ) {
         return 2;
      }
      else if constexpr( std::is_base_of_v< pt::fold_one, S > ) {
         return 3;
      }
      else if constexpr( std::is_base_of_v< pt::discard_empty, S > ) {
         return 4;
      }
      else {
         return 1;
      }
   }

   inline std::vector< std::string >& sel_lines()
   {
      static std::vector< std::string > v;
      return v;
   }
   template< template< typename... > class Sel, typename R >
   void walk_sel( std::set< int >& seen, const int gid, const char* name );
   template< template< typename... > class Sel, typename... Ts >
   void walk_sel_list( type_list< Ts... > /*unused*/, std::set< int >& seen, const int gid, const char* name )
   {
      ( walk_sel< Sel, Ts >( seen, gid, name ), ... );
   }
   template< template< typename... > class Sel, typename R >
   void walk_sel( std::set< int >& seen, const int gid, const char* name )
   {
      if constexpr( vh::is_rule< R > ) {
         const int id = vh::index_of< R >();
         if( !seen.insert( id ).second ) {
            return;
         }
         sel_lines().push_back( "SEL " + std::to_string( gid ) + " " + name + " " + std::to_string( id ) + " " + std::to_string( sel_kind< Sel< R > >() ) );
         walk_sel_list< Sel >( typename R::subs_t(), seen, gid, name );
      }
   }

   // ------------------------------------------------------------------ controls
   template< typename R > struct ctl_in : vh::obs_control< 0, true, R > {};     // inside parse_tree's control / plain parse
   template< typename R >
   struct ctl_all : vh::obs_control< 9, true, R >                               // every rule visible
   {
      static constexpr bool enable = true;
   };
   // a control with effects: failure of a named rule that has an error message raises (must_if)
   struct with_msg {};      // marker: this rule always has a message in the must_if error table
   struct errs
   {
      template< typename R > static constexpr const char* message = ( std::is_base_of_v< with_msg, R > || ( vh::is_named< R > && ( fnv( demangle< R >() ) % 3u == 0 ) ) ) ? "c12 named rule failed" : nullptr;
   };
   template< typename R >
   struct ctl_mi : must_if< errs, ctl_in, false >::control< R >
   {
      // must_if::failure raises without calling Base::failure: log the failure hook ourselves first
      template< typename In, typename... S >
      static void failure( const In& in, S&&... st )
      {
         if constexpr( errs::message< R > != nullptr ) {
            vh::ev_hook( 'F', 0, vh::index_of< R >(), in.position() );
         }
         must_if< errs, ctl_in, false >::control< R >::failure( in, st... );
      }
   };

   // an action family that throws std::runtime_error exactly on the rules tagged c12::thrower ("t")
   struct thrower {};
   template< typename R >
   struct act_tag_void
   {
      template< typename AI, typename... S >
      static void apply( const AI& /*unused*/, S&&... /*unused*/ )
      {
         throw std::runtime_error( "c12 thrower" );
      }
   };
   template< typename R > struct act_t : std::conditional_t< std::is_base_of_v< thrower, R >, act_tag_void< R >, nothing< R > > {};
   // family "5": std::runtime_error by predicate on (rule, begin, end), on every rule that is control-enabled in the
   // grammar itself; rules hidden from the control (internal::seq ...) carry no action, as in user code
   // family "v": bool apply vetoing by vh::veto_pred( rule, begin, end ) on every NAMED rule of the grammar
   //             except on the grammar's root (a veto there would turn every run into "no tree")
   inline int& cur_root() { static int r = -1; return r; }
   template< typename R >
   struct b_apply_bool_nr
   {
      template< typename AI, typename... S >
      static bool apply( const AI& in, S&&... s )
      {
         vh::log_apply( 3, vh::index_of< R >(), in, s... );
         if( vh::index_of< R >() == cur_root() ) {
            return true;
         }
         return vh::veto_pred( vh::index_of< R >(), in.position().byte, in.input().position().byte );
      }
   };
   template< typename R > struct act_v : std::conditional_t< vh::is_named< R >, b_apply_bool_nr< R >, nothing< R > > {};
   template< typename R > struct act_5 : std::conditional_t< TAO_PEGTL_NAMESPACE::internal::enable_control< R >, vh::b_apply_throw_std< 5, R >, nothing< R > > {};

   template< typename R >
   struct ctl_mi_all : must_if< errs, ctl_all, false >::control< R >
   {
      template< typename In, typename... S >
      static void failure( const In& in, S&&... st )
      {
         if constexpr( errs::message< R > != nullptr ) {
            vh::ev_hook( 'F', 9, vh::index_of< R >(), in.position() );
         }
         must_if< errs, ctl_all, false >::control< R >::failure( in, st... );
      }
   };

   // ------------------------------------------------------------------ canonical tree
   inline void ppos( std::string& o, const internal::inputerator& p )
   {
      o += std::to_string( p.byte ) + "." + std::to_string( p.line ) + "." + std::to_string( p.column );
   }
   inline std::map< std::string, int >& type_index()
   {
      static std::map< std::string, int > m;   // demangled name -> table index (vh::table().idx)
      return m;
   }
   inline void ptree( std::string& o, const pt::node& n )
   {
      if( n.is_root() ) {
         o += "root";
      }
      else {
         const auto it = vh::table().idx.find( std::string( n.type ) );
         o += ( it == vh::table().idx.end() ) ? std::string( "?" ) : std::to_string( it->second );
         o += ":";
         ppos( o, n.m_begin );
         o += ":";
         if( n.has_content() ) {
            ppos( o, n.m_end );
         }
         else {
            o += "-";
         }
      }
      o += "[";
      for( const auto& c : n.children ) {
         if( c ) {
            ptree( o, *c );
         }
         else {
            o += "NULLCHILD";
         }
      }
      o += "]";
   }

   // positions visible in the tree are nested and ordered (ParseTreeSpec.tree_ok): every node inside
   // [lo, hi], children inside their parent, each sibling at or after the last known position of its elder
   inline bool contained( const pt::node& n, const std::size_t lo, const std::size_t hi )
   {
      std::size_t b = lo;
      std::size_t up = hi;
      if( !n.is_root() ) {
         b = n.m_begin.byte;
         up = n.has_content() ? n.m_end.byte : hi;
         if( !( ( lo <= b ) && ( b <= up ) && ( up <= hi ) ) ) {
            return false;
         }
      }
      std::size_t cur = b;
      for( const auto& c : n.children ) {
         if( !c || !contained( *c, cur, up ) ) {
            return false;
         }
         cur = c->has_content() ? c->m_end.byte : c->m_begin.byte;
      }
      return true;
   }

   // ------------------------------------------------------------------ one case
   using runfn = void ( * )( int gid, int root, const std::string& sel, const std::string& act, const std::string& input );
   struct Entry
   {
      int gid;
      int root;
      std::string sel;
      std::string act;
      runfn fn;
   };
   inline std::vector< Entry >& registry()
   {
      static std::vector< Entry > r;
      return r;
   }

   template< typename F >
   std::string guarded( std::string& log, F&& f )
   {
      vh::lg().clear();
      vh::steps() = 0;
      vh::tripped() = 0;
      vh::lstack().clear();
      std::string res;
      try {
         res = f();
      }
      catch( const vh::runaway& ) {
         res = "RUNAWAY";
      }
      catch( const vh::budget_exhausted& ) {
         res = "RUNAWAY";
      }
      catch( ... ) {
         res = "X" + vh::describe_exception( std::current_exception() );
      }
      if( vh::tripped() != 0 ) {
         res = "RUNAWAY";      // a catch( ... ) inside the grammar may have swallowed the signal
      }
      log = vh::lg();
      return res;
   }

   // (1) the real parse_tree::parse with the observer control inside
   template< typename G, template< typename... > class Sel, template< typename... > class Act, template< typename... > class Ctl >
   void run_one( const int gid, const int root, const std::string& sel, const std::string& act, const std::string& s )
   {
      char* buf = new char[ s.size() ? s.size() : 1 ];   // exact-size heap copy, no terminator
      std::memcpy( buf, s.data(), s.size() );
      std::string tree = "-";
      std::string log1;
      int within = 1;
      cur_root() = root;
      const std::string r1 = guarded( log1, [ & ]() {
         memory_input<> in( buf, buf + s.size(), "s" );
         const auto t = pt::parse< G, pt::node, Sel, Act, Ctl >( in );
         if( !t ) {
            return std::string( "N" );
         }
         tree.clear();
         ptree( tree, *t );
         within = contained( *t, 0, s.size() ) ? 1 : 0;
         return std::string( "T" );
      } );
      std::string r1x = r1;
      if constexpr( std::is_same_v< Ctl< G >, ctl_mi< G > > ) {
         // the same run with the library's must_if control over `normal` (no observer in between: success() is noexcept, failure()
         // throws): result and tree must be the same as with the observing control
         std::string tree2 = "-";
         std::string log2;
         const std::string r2 = guarded( log2, [ & ]() {
            memory_input<> in( buf, buf + s.size(), "s" );
            const auto t = pt::parse< G, pt::node, Sel, Act, must_if< errs, normal, false >::template control >( in );
            if( !t ) {
               return std::string( "N" );
            }
            tree2.clear();
            ptree( tree2, *t );
            return std::string( "T" );
         } );
         if( ( r2.substr( 0, 1 ) != r1.substr( 0, 1 ) ) || ( tree2 != tree ) ) {
            r1x += "!PLAIN-MUST_IF-CONTROL-DIFFERS:" + r2.substr( 0, 1 ) + ":" + tree2;
         }
      }
      delete[] buf;
      std::printf( "PT %d %d %s %s %s %d | %s | %s | %s\n", gid, root, sel.c_str(), act.c_str(), vh::hex( s ).c_str(), within, r1x.c_str(), tree.c_str(), log1.c_str() );
   }
   // (2) the plain parse, (3) the plain parse with every rule control-enabled; sel = "-"
   template< typename G, template< typename... > class Act, template< typename... > class Ctl, template< typename... > class CtlAll >
   void run_plain( const int gid, const int root, const std::string& /*sel*/, const std::string& act, const std::string& s )
   {
      cur_root() = root;
      char* buf = new char[ s.size() ? s.size() : 1 ];
      std::memcpy( buf, s.data(), s.size() );
      std::string log2, log3;
      const std::string r2 = guarded( log2, [ & ]() {
         memory_input<> in( buf, buf + s.size(), "s" );
         return std::string( parse< G, Act, Ctl >( in ) ? "T" : "F" );
      } );
      const std::string r3 = guarded( log3, [ & ]() {
         memory_input<> in( buf, buf + s.size(), "s" );
         return std::string( parse< G, Act, CtlAll >( in ) ? "T" : "F" );
      } );
      delete[] buf;
      std::printf( "PL %d %s %s | %s | %s | %s\n", gid, act.c_str(), vh::hex( s ).c_str(), r2.c_str(), r3.c_str(), log3.c_str() );
   }

   template< typename G, template< typename... > class Sel, template< typename... > class Act, template< typename... > class Ctl >
   void reg( const int gid, const char* sel, const char* act )
   {
      const int root = vh::dump< G >();
      std::set< int > seen;
      walk_sel< Sel, G >( seen, gid, sel );
      registry().push_back( Entry{ gid, root, sel, act, &run_one< G, Sel, Act, Ctl > } );
   }
   template< typename G, template< typename... > class Act, template< typename... > class Ctl, template< typename... > class CtlAll >
   void reg_plain( const int gid, const char* act )
   {
      const int root = vh::dump< G >();
      registry().push_back( Entry{ gid, root, "-", act, &run_plain< G, Act, Ctl, CtlAll > } );
   }
   // without actions Control< Rule >::enable has no influence on the match: (3) alone gives result and call tree
   template< typename G, template< typename... > class Act >
   void run_plain_all( const int gid, const int /*root*/, const std::string& /*sel*/, const std::string& act, const std::string& s )
   {
      char* buf = new char[ s.size() ? s.size() : 1 ];
      std::memcpy( buf, s.data(), s.size() );
      std::string log3;
      const std::string r3 = guarded( log3, [ & ]() {
         memory_input<> in( buf, buf + s.size(), "s" );
         return std::string( parse< G, Act, ctl_all >( in ) ? "T" : "F" );
      } );
      delete[] buf;
      std::printf( "PL %d %s %s | %s | %s | %s\n", gid, act.c_str(), vh::hex( s ).c_str(), r3.c_str(), r3.c_str(), log3.c_str() );
   }
   template< typename G, template< typename... > class Act >
   void reg_plain_all( const int gid, const char* act )
   {
      const int root = vh::dump< G >();
      registry().push_back( Entry{ gid, root, "-", act, &run_plain_all< G, Act > } );
   }
   // the must_if control: which rules raise on failure
   template< typename R >
   void walk_rof( std::set< int >& seen, const int gid );
   template< typename... Ts >
   void walk_rof_list( type_list< Ts... > /*unused*/, std::set< int >& seen, const int gid )
   {
      ( walk_rof< Ts >( seen, gid ), ... );
   }
   template< typename R >
   void walk_rof( std::set< int >& seen, const int gid )
   {
      if constexpr( vh::is_rule< R > ) {
         const int id = vh::index_of< R >();
         if( !seen.insert( id ).second ) {
            return;
         }
         if( errs::message< R > != nullptr ) {
            sel_lines().push_back( "ROF " + std::to_string( gid ) + " " + std::to_string( id ) );
         }
         if( std::is_base_of_v< thrower, R > ) {
            sel_lines().push_back( "THR " + std::to_string( gid ) + " " + std::to_string( id ) );
         }
         walk_rof_list( typename R::subs_t(), seen, gid );
      }
   }
   template< typename G >
   void reg_rof( const int gid )
   {
      (void)vh::dump< G >();
      std::set< int > seen;
      walk_rof< G >( seen, gid );
   }
}  // namespace c12
