// describe_contrib.hpp — extra describe<> specialisations for contrib rule classes with their own
// match() that harness/vharness.hpp does not know.  Included AFTER vharness.hpp and the contrib
// header (lib/gentables.py puts the `includes` list after vharness.hpp).
//
// tao::pegtl::maximum_rule< std::uint8_t > (uri::dec_octet derives from it; rule_t = the class
// itself, subs_t = empty_list) is hand-written code (contrib/integer.hpp,
// match_and_convert_unsigned_with_maximum_nothrow) and has no Engine.head constructor.  It is
// dumped as the leaf token `opaque`; checks/C20.py also dumps uri::dec_octet as an extra root so
// that the node index is known, and coq/UriModel.v splices the PEG sub-table `dec_octet_table`
// into exactly that node (uri_table_full).  UriProof.v proves that the engine on the sub-table
// and the C15 model Integer.maximum_rule 8 255 agree on every input (verdict and cursor), and the
// C20 correspondence runs the engine on uri_table_full against the real library.
//
// Only Maximum == 255 is described: any other instantiation (e.g. maximum_rule< uint8_t, 199 >)
// stays `unknown:...`, i.e. the translator reports an untranslatable rule and the tie is broken.
#pragma once
#include "vharness.hpp"
#include <cstdint>
#include <tao/pegtl/contrib/integer.hpp>

namespace vh
{
   template<> struct describe< tao::pegtl::maximum_rule< std::uint8_t > > { static std::string str() { return "opaque"; } };
}  // namespace vh
