// c11_harness.hpp - C11: what the real grammar analysis says about a grammar, and whether the real
// parser terminates on it.  Included by generated translation units after vharness.hpp.
//   AENT gid <hexname> <type 0..3 = any opt seq sor> <nsubs> <hexsub>... | <problems found from this root> <consumes>
//   ATOT gid <analyze< G >( -1 )>
//   IRUN gid <one letter per input: T F X (exception) R (runaway)>
#pragma once
#include "vharness.hpp"
#include <tao/pegtl/contrib/analyze.hpp>
#include <functional>

namespace c11
{
   using namespace tao::pegtl;

   // ---------------------------------------------------------------- termination observer
   // Control< Rule >::match is entered for EVERY rule (also those with enable_control = false), so
   // every iteration of every loop and every level of every recursion passes through here.
   struct budget
   {
      long steps = 0;
      long depth = 0;
      bool tripped = false;
   };
   inline budget& bud()
   {
      static budget b;
      return b;
   }
   constexpr long max_steps = 20000;   // same bound as vh::step
   constexpr long max_depth = 1500;
   struct depth_guard
   {
      depth_guard()
      {
         budget& b = bud();
         ++b.depth;
         if( b.tripped || ( ++b.steps > max_steps ) || ( b.depth > max_depth ) ) {
            b.tripped = true;
            --b.depth;
            throw vh::runaway{};
         }
      }
      ~depth_guard() { --bud().depth; }
      depth_guard( const depth_guard& ) = delete;
   };
   template< typename Rule >
   struct ctl : normal< Rule >
   {
      template< apply_mode A, rewind_mode M, template< typename... > class Action, template< typename... > class Control, typename In, typename... St >
      [[nodiscard]] static bool match( In& in, St&&... st )
      {
         const depth_guard g;
         return normal< Rule >::template match< A, M, Action, Control >( in, st... );
      }
   };

   // ---------------------------------------------------------------- the real analysis, entry by entry
   template< typename G >
   struct probe : internal::analyze_cycles< G >
   {
      probe() : internal::analyze_cycles< G >( -1 ) {}
      void print( const int gid )
      {
         for( auto& i : this->m_entries ) {
            std::printf( "AENT %d %s %d %zu", gid, vh::hex( std::string( i.first ) ).c_str(), int( i.second.type ), i.second.subs.size() );
            for( const auto& s : i.second.subs ) {
               std::printf( " %s", vh::hex( std::string( s ) ).c_str() );
            }
            const std::size_t before = this->m_problems;
            const bool r = this->work( i, false );
            std::printf( " | %zu %d\n", this->m_problems - before, int( r ) );
         }
      }
   };

   struct item
   {
      int gid;
      int root;
      std::function< void() > analysis;
      std::function< char( const std::string& ) > run;
   };
   inline std::vector< item >& items()
   {
      static std::vector< item > v;
      return v;
   }

   template< typename G >
   char run_one( const std::string& s )
   {
      bud() = budget();
      vh::steps() = 0;      // control< vh::ctl1, ... > inside a grammar replaces our observer by vh::obs_control, which counts rule starts
      vh::lg().clear();
      vh::st_counter() = 0;
      char* buf = new char[ s.size() ? s.size() : 1 ];
      std::memcpy( buf, s.data(), s.size() );
      char res;
      {
         memory_input< tracking_mode::eager, eol::lf_crlf > in( buf, buf + s.size(), "s" );
         try {
            res = parse< G, nothing, ctl >( in ) ? 'T' : 'F';
         }
         catch( const vh::runaway& ) {
            res = 'R';
         }
         catch( ... ) {
            res = 'X';
         }
      }
      delete[] buf;
      if( bud().tripped || ( vh::steps() > max_steps ) ) {
         res = 'R';   // a catch( ... ) inside the grammar may have swallowed the signal
      }
      return res;
   }

   template< typename G >
   void reg( const int gid )
   {
      const int root = vh::dump< G >();
      items().push_back( { gid, root,
                           [ gid ]() {
                              probe< G >().print( gid );
                              std::printf( "ATOT %d %zu\n", gid, analyze< G >( -1 ) );
                           },
                           []( const std::string& s ) { return run_one< G >( s ); } } );
   }
}  // namespace c11
