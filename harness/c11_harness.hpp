// c11_harness.hpp - C11: what the real grammar analysis says about a grammar, and whether the real
// parser terminates on it.  Included by generated translation units after vharness.hpp.
//   AENT gid <hexname> <type 0..3 = any opt seq sor> <nsubs> <hexsub>... | <problems found from this root> <consumes>
//   ATOT gid <analyze< G >( -1 )>
//   IRUN gid <one letter per input: T F X (exception) R (runaway)>
#pragma once
#include "vharness.hpp"
#include <tao/pegtl/contrib/analyze.hpp>
#include <functional>

namespace c11
{
   using namespace tao::pegtl;

   // ---------------------------------------------------------------- termination observer
   // Control< Rule >::match is entered for EVERY rule (also those with enable_control = false), so
   // every iteration of every loop and every level of every recursion passes through here.
   // A run counts as RUNAWAY ('R') only for a genuine cycle without progress: the same rule entered again at the same input
   // position (and input end) while an invocation of it at that position is still open (unbounded recursion), or one open
   // invocation starting the same sub-rule at the same position more than 1000 times (a loop whose body succeeds without
   // consuming).  A run that merely is expensive (exponential backtracking) ends as 'B' after max_steps invocations and is
   // not judged.  Sticky flags: a catch( ... ) inside the grammar cannot hide either.
   struct frame
   {
      int rule;
      const char* cur;
      const char* end;
      std::vector< std::pair< std::pair< int, const char* >, int > > kids;
   };
   struct budget
   {
      long steps = 0;
      int tripped = 0;      // 1 = runaway, 2 = budget
      std::vector< frame > stack;
   };
   inline budget& bud()
   {
      static budget b;
      return b;
   }
   constexpr long max_steps = 300000;
   struct frame_guard
   {
      frame_guard( const int rule, const char* cur, const char* end )
      {
         budget& b = bud();
         if( b.tripped == 1 ) {
            throw vh::runaway{};
         }
         if( ( b.tripped == 2 ) || ( ++b.steps > max_steps ) ) {
            b.tripped = 2;
            throw vh::budget_exhausted{};
         }
         for( auto it = b.stack.rbegin(); it != b.stack.rend(); ++it ) {
            if( ( it->rule == rule ) && ( it->cur == cur ) && ( it->end == end ) ) {
               b.tripped = 1;
               throw vh::runaway{};
            }
         }
         if( !b.stack.empty() ) {
            auto& kids = b.stack.back().kids;
            bool found = false;
            for( auto& k : kids ) {
               if( ( k.first.first == rule ) && ( k.first.second == cur ) ) {
                  found = true;
                  if( ++k.second > 1000 ) {
                     b.tripped = 1;
                     throw vh::runaway{};
                  }
                  break;
               }
            }
            if( !found ) {
               kids.push_back( { { rule, cur }, 1 } );
            }
         }
         b.stack.push_back( frame{ rule, cur, end, {} } );
         pushed = true;
      }
      ~frame_guard()
      {
         if( pushed ) {
            bud().stack.pop_back();
         }
      }
      frame_guard( const frame_guard& ) = delete;
      bool pushed = false;
   };
   template< typename Rule >
   struct ctl : normal< Rule >
   {
      template< apply_mode A, rewind_mode M, template< typename... > class Action, template< typename... > class Control, typename In, typename... St >
      [[nodiscard]] static bool match( In& in, St&&... st )
      {
         const frame_guard g( vh::index_of< Rule >(), in.current(), in.end() );
         return normal< Rule >::template match< A, M, Action, Control >( in, st... );
      }
   };

   // ---------------------------------------------------------------- the real analysis, entry by entry
   template< typename G >
   struct probe : internal::analyze_cycles< G >
   {
      probe() : internal::analyze_cycles< G >( -1 ) {}
      void print( const int gid )
      {
         for( auto& i : this->m_entries ) {
            std::printf( "AENT %d %s %d %zu", gid, vh::hex( std::string( i.first ) ).c_str(), int( i.second.type ), i.second.subs.size() );
            for( const auto& s : i.second.subs ) {
               std::printf( " %s", vh::hex( std::string( s ) ).c_str() );
            }
            const std::size_t before = this->m_problems;
            const bool r = this->work( i, false );
            std::printf( " | %zu %d\n", this->m_problems - before, int( r ) );
         }
      }
   };

   struct item
   {
      int gid;
      int root;
      std::function< void() > analysis;
      std::function< char( const std::string& ) > run;
   };
   inline std::vector< item >& items()
   {
      static std::vector< item > v;
      return v;
   }

   template< typename G >
   char run_one( const std::string& s )
   {
      bud() = budget();
      vh::steps() = 0;      // control< vh::ctl1, ... > inside a grammar replaces our observer by vh::obs_control, which has its own detector
      vh::tripped() = 0;
      vh::lstack().clear();
      vh::lg().clear();
      vh::st_counter() = 0;
      char* buf = new char[ s.size() ? s.size() : 1 ];
      std::memcpy( buf, s.data(), s.size() );
      char res;
      {
         memory_input< tracking_mode::eager, eol::lf_crlf > in( buf, buf + s.size(), "s" );
         try {
            res = parse< G, nothing, ctl >( in ) ? 'T' : 'F';
         }
         catch( const vh::runaway& ) {
            res = 'R';
         }
         catch( ... ) {
            res = 'X';
         }
      }
      delete[] buf;
      // a catch( ... ) inside the grammar may have swallowed the signal: the sticky flags decide
      if( ( bud().tripped == 1 ) || ( vh::tripped() == 1 ) ) {
         res = 'R';
      }
      else if( ( bud().tripped == 2 ) || ( vh::tripped() == 2 ) ) {
         res = 'B';   // budget exhausted: terminating-but-expensive or undetermined, not judged
      }
      return res;
   }

   template< typename G >
   void reg( const int gid )
   {
      const int root = vh::dump< G >();
      items().push_back( { gid, root,
                           [ gid ]() {
                              probe< G >().print( gid );
                              std::printf( "ATOT %d %zu\n", gid, analyze< G >( -1 ) );
                           },
                           []( const std::string& s ) { return run_one< G >( s ); } } );
   }
}  // namespace c11
