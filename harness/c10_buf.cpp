// c10_buf.cpp - C10, "complete well-formed unit" when the unit arrives in pieces: every multi-byte unit rule (UTF-8, UTF-16,
// UTF-32, uintN, masked uintN, string, istring) is run on the same bytes through memory_input and through buffer_input with
// readers that deliver 1, 2, 3 or 5 bytes per call; match result and consumed byte count must be equal (the exhaustive part
// of the check ties the memory_input answers to the RFC oracle and to the model).
// Prints "BAD ..." lines and "DONE <cases> <bad>".
#include "buf_twin.hpp"

#include <tao/pegtl/contrib/uint16.hpp>
#include <tao/pegtl/contrib/uint32.hpp>
#include <tao/pegtl/contrib/uint64.hpp>
#include <tao/pegtl/contrib/uint8.hpp>
#include <tao/pegtl/contrib/utf16.hpp>
#include <tao/pegtl/contrib/utf32.hpp>

static std::string u8( const std::uint32_t c )
{
   std::string s;
   if( c < 0x80 ) {
      s += char( c );
   }
   else if( c < 0x800 ) {
      s += char( 0xC0 | ( c >> 6 ) );
      s += char( 0x80 | ( c & 0x3F ) );
   }
   else if( c < 0x10000 ) {
      s += char( 0xE0 | ( c >> 12 ) );
      s += char( 0x80 | ( ( c >> 6 ) & 0x3F ) );
      s += char( 0x80 | ( c & 0x3F ) );
   }
   else {
      s += char( 0xF0 | ( c >> 18 ) );
      s += char( 0x80 | ( ( c >> 12 ) & 0x3F ) );
      s += char( 0x80 | ( ( c >> 6 ) & 0x3F ) );
      s += char( 0x80 | ( c & 0x3F ) );
   }
   return s;
}

static std::string be( const std::uint64_t v, const int w )
{
   std::string s;
   for( int i = w - 1; i >= 0; --i ) {
      s += char( ( v >> ( 8 * i ) ) & 0xFF );
   }
   return s;
}

static std::string le( const std::uint64_t v, const int w )
{
   std::string s;
   for( int i = 0; i < w; ++i ) {
      s += char( ( v >> ( 8 * i ) ) & 0xFF );
   }
   return s;
}

// every unit, every proper prefix of it, and the unit followed by one and by two more bytes
static void with_context( std::vector< std::string >& out, const std::string& unit )
{
   for( std::size_t n = 0; n <= unit.size(); ++n ) {
      out.push_back( unit.substr( 0, n ) );
   }
   out.push_back( unit + "x" );
   out.push_back( unit + unit );
}

int main()
{
   const std::uint32_t cps[] = { 0x00, 0x41, 0x7F, 0x80, 0x7FF, 0x800, 0x20AC, 0xD7FF, 0xD800, 0xDBFF, 0xDC00, 0xDFFF, 0xE000, 0xFEFF, 0xFFFF, 0x10000, 0x1F600, 0x2D800, 0xFFFFF, 0x100000, 0x10FFFF, 0x110000 };
   std::vector< std::string > v8, v16b, v16l, v32b, v32l;
   for( const std::uint32_t c : cps ) {
      if( c < 0x110000 ) {
         with_context( v8, u8( c ) );
      }
      with_context( v32b, be( c, 4 ) );
      with_context( v32l, le( c, 4 ) );
      if( c < 0x10000 ) {
         with_context( v16b, be( c, 2 ) );
         with_context( v16l, le( c, 2 ) );
      }
      else if( c < 0x110000 ) {
         const std::uint32_t h = 0xD800 + ( ( c - 0x10000 ) >> 10 ), l = 0xDC00 + ( ( c - 0x10000 ) & 0x3FF );
         with_context( v16b, be( h, 2 ) + be( l, 2 ) );
         with_context( v16l, le( h, 2 ) + le( l, 2 ) );
      }
   }
   // surrogate grid: every combination of boundary high / low / non-surrogate second units
   const std::uint32_t units[] = { 0xD800, 0xD83D, 0xDBFF, 0xDC00, 0xDE00, 0xDFFF, 0x0041, 0xD7FF, 0xE000 };
   for( const std::uint32_t a : units ) {
      for( const std::uint32_t b : units ) {
         v16b.push_back( be( a, 2 ) + be( b, 2 ) );
         v16l.push_back( le( a, 2 ) + le( b, 2 ) );
         v16b.push_back( be( a, 2 ) + be( b, 2 ).substr( 0, 1 ) );
         v16l.push_back( le( a, 2 ) + le( b, 2 ).substr( 0, 1 ) );
      }
   }
   // ill-formed UTF-8: overlong, surrogate, too large, stray continuation, truncated lead bytes with a wrong tail
   for( const char* s : { "\xc0\x80", "\xc1\xbf", "\xe0\x80\x80", "\xe0\x9f\xbf", "\xed\xa0\x80", "\xed\xbf\xbf", "\xf0\x80\x80\x80", "\xf0\x8f\xbf\xbf", "\xf4\x90\x80\x80", "\xf5\x80\x80\x80", "\x80", "\xbf", "\xc3\x41", "\xe2\x82\x41", "\xf0\x9f\x98\x41", "\xff" } ) {
      with_context( v8, s );
   }
   std::vector< std::string > vint;
   for( const std::uint64_t x : { std::uint64_t( 0 ), std::uint64_t( 0x1200 ), std::uint64_t( 0x1234 ), std::uint64_t( 0x01020304 ), std::uint64_t( 0x0102030405060708 ), ~std::uint64_t( 0 ) } ) {
      for( const int w : { 2, 4, 8 } ) {
         with_context( vint, be( x, w ) );
         with_context( vint, le( x, w ) );
      }
   }
   std::vector< std::string > vstr;
   for( const char* s : { "abc", "ABC", "aBc", "abd", "ab", "a", "", "abcabc", "xabc" } ) {
      with_context( vstr, s );
   }

   one_rule< pegtl::utf8::any >( "utf8::any", v8 );
   one_rule< pegtl::utf8::range< 0x80, 0x10FFFF > >( "utf8::range< 0x80, 0x10FFFF >", v8 );
   one_rule< pegtl::utf8::one< 0x20AC, 0x1F600 > >( "utf8::one< 0x20AC, 0x1F600 >", v8 );
   one_rule< pegtl::utf8::not_one< 0x41 > >( "utf8::not_one< 0x41 >", v8 );
   one_rule< pegtl::utf8::bom >( "utf8::bom", v8 );
   one_rule< pegtl::utf16_be::any >( "utf16_be::any", v16b );
   one_rule< pegtl::utf16_le::any >( "utf16_le::any", v16l );
   one_rule< pegtl::utf16_be::range< 0x10000, 0x10FFFF > >( "utf16_be::range< 0x10000, 0x10FFFF >", v16b );
   one_rule< pegtl::utf16_le::not_one< 0x41 > >( "utf16_le::not_one< 0x41 >", v16l );
   one_rule< pegtl::utf32_be::any >( "utf32_be::any", v32b );
   one_rule< pegtl::utf32_le::any >( "utf32_le::any", v32l );
   one_rule< pegtl::utf32_le::range< 0x10000, 0x10FFFF > >( "utf32_le::range< 0x10000, 0x10FFFF >", v32l );
   one_rule< pegtl::uint16_be::any >( "uint16_be::any", vint );
   one_rule< pegtl::uint16_le::one< 0x1234 > >( "uint16_le::one< 0x1234 >", vint );
   one_rule< pegtl::uint16_be::mask_one< 0xFF00, 0x1200 > >( "uint16_be::mask_one< 0xFF00, 0x1200 >", vint );
   one_rule< pegtl::uint32_be::any >( "uint32_be::any", vint );
   one_rule< pegtl::uint32_le::one< 0x01020304 > >( "uint32_le::one< 0x01020304 >", vint );
   one_rule< pegtl::uint32_be::mask_range< 0x00FFFF00, 0x00020300, 0x00020300 > >( "uint32_be::mask_range< 0x00FFFF00, 0x00020300, 0x00020300 >", vint );
   one_rule< pegtl::uint64_be::any >( "uint64_be::any", vint );
   one_rule< pegtl::uint64_le::one< 0x0102030405060708 > >( "uint64_le::one< 0x0102030405060708 >", vint );
   one_rule< pegtl::uint8::any >( "uint8::any", vint );
   one_rule< pegtl::string< 'a', 'b', 'c' > >( "string< 'a', 'b', 'c' >", vstr );
   one_rule< pegtl::istring< 'a', 'b', 'c' > >( "istring< 'a', 'b', 'c' >", vstr );
   one_rule< pegtl::two< 'a' > >( "two< 'a' >", vstr );
   std::printf( "DONE %ld %ld\n", n_cases, n_bad );
   return 0;
}
