// c20_impl.cpp — implementation side of the C20 correspondence and oracle check.
// Runs the REAL  parse< seq< uri::X, eof > >( memory_input )  of /repo/include for
// X = URI, URI_reference, absolute_URI, IPv4address, IPv6address on exact-size heap buffers
// (no terminator) and prints, per input, one line
//      <hex of the input, "-" when empty> <c1><c2><c3><c4><c5>
// with c = 1 parse returned true, 0 returned false, 2 threw tao::pegtl::parse_error,
// 3 threw anything else.
//
//   c20_impl cases <file>                       inputs = the lines of <file> (hex, "-" = empty)
//   c20_impl exh <alphabet-hex> <maxlen> <prefix-hex|->
//                                               inputs = prefix ++ w for all w over the alphabet with
//                                               |prefix ++ w| <= maxlen, depth first (prefix itself first)
#include <cstdio>
#include <cstdlib>
#include <cstring>
#include <exception>
#include <fstream>
#include <iostream>
#include <memory>
#include <string>
#include <vector>

#include <tao/pegtl.hpp>
#include <tao/pegtl/contrib/uri.hpp>

namespace pegtl = tao::pegtl;

template< typename Rule >
static char run_one( const std::string& s )
{
   const std::size_t n = s.size();
   std::unique_ptr< char[] > buf( new char[ n ] );   // exact size, no terminator
   if( n != 0 ) {
      std::memcpy( buf.get(), s.data(), n );
   }
   try {
      pegtl::memory_input<> in( buf.get(), buf.get() + n, "c20" );
      return pegtl::parse< pegtl::seq< Rule, pegtl::eof > >( in ) ? '1' : '0';
   }
   catch( const pegtl::parse_error& ) {
      return '2';
   }
   catch( ... ) {
      return '3';
   }
}

static const char* hexd = "0123456789abcdef";

static void emit( const std::string& s, std::string& out )
{
   if( s.empty() ) {
      out += '-';
   }
   else {
      for( unsigned char ch : s ) {
         out += hexd[ ch >> 4 ];
         out += hexd[ ch & 15 ];
      }
   }
   out += ' ';
   out += run_one< pegtl::uri::URI >( s );
   out += run_one< pegtl::uri::URI_reference >( s );
   out += run_one< pegtl::uri::absolute_URI >( s );
   out += run_one< pegtl::uri::IPv4address >( s );
   out += run_one< pegtl::uri::IPv6address >( s );
   out += '\n';
   if( out.size() > ( 1u << 16 ) ) {
      std::fwrite( out.data(), 1, out.size(), stdout );
      out.clear();
   }
}

static std::string unhex( const std::string& h )
{
   std::string r;
   if( h == "-" ) {
      return r;
   }
   for( std::size_t i = 0; i + 1 < h.size(); i += 2 ) {
      r += static_cast< char >( std::stoi( h.substr( i, 2 ), nullptr, 16 ) );
   }
   return r;
}

static void dfs( std::string& cur, const std::string& alpha, const std::size_t maxlen, std::string& out )
{
   emit( cur, out );
   if( cur.size() >= maxlen ) {
      return;
   }
   for( char ch : alpha ) {
      cur.push_back( ch );
      dfs( cur, alpha, maxlen, out );
      cur.pop_back();
   }
}

int main( int argc, char** argv )
{
   std::string out;
   if( argc == 3 && std::string( argv[ 1 ] ) == "cases" ) {
      std::ifstream f( argv[ 2 ] );
      std::string line;
      while( std::getline( f, line ) ) {
         if( !line.empty() ) {
            emit( unhex( line ), out );
         }
      }
   }
   else if( argc == 5 && std::string( argv[ 1 ] ) == "exh" ) {
      const std::string alpha = unhex( argv[ 2 ] );
      const std::size_t maxlen = static_cast< std::size_t >( std::atoi( argv[ 3 ] ) );
      std::string cur = unhex( argv[ 4 ] );
      if( cur.size() <= maxlen ) {
         dfs( cur, alpha, maxlen, out );
      }
   }
   else {
      std::fprintf( stderr, "usage: c20_impl cases <file> | exh <alphabet-hex> <maxlen> <prefix-hex|->\n" );
      return 2;
   }
   std::fwrite( out.data(), 1, out.size(), stdout );
   return 0;
}
