// c13_states.cpp - C13, the multi-state switches that the shared harness / engine model do not cover: change_states< S... >
// and change_action_and_states< Action, S... > with 1 or 2 new states under 0..3 outer states.  Implementation-side oracle:
// every action logs WHICH states it is handed (types and instance numbers); the expected log is computed from the grammar:
//   - actions inside the attached rule see exactly the new states (fresh instances), in declaration order;
//   - actions before / after it see exactly the outer states;
//   - success( in, new..., outer... ) is called exactly once, after the match, with the cursor behind the match, iff the rule
//     matched and actions are enabled; never on local failure or when an exception passes through;
//   - the new states are constructed for the attempt and destroyed when it ends (constructions == destructions);
//   - a switch does not reach the following sibling.
// Prints "BAD ..." lines and "DONE <cases> <bad>".
#include <cstdio>
#include <string>
#include <vector>

#include <tao/pegtl.hpp>

using namespace tao::pegtl;

static std::string g_log;
static int g_live = 0, g_made = 0;

template< int K > static int& made_of() { static int n = 0; return n; }
template< int K >
struct S
{
   int inst;      // numbered per type: the construction order of `NewStates()...` as function arguments is unspecified
   S() : inst( ++made_of< K >() ) { ++g_live; ++g_made; }
   S( const S& ) = delete;
   ~S() { --g_live; }
};
template< int K >
struct O
{
   int v = K;
};
template< typename T > struct tg;
template< int K > struct tg< S< K > > { static std::string s( const S< K >& x ) { return "S" + std::to_string( K ) + "#" + std::to_string( x.inst ); } };
template< int K > struct tg< O< K > > { static std::string s( const O< K >& ) { return "O" + std::to_string( K ); } };
template< typename... Ts >
static std::string sig( const Ts&... ts )
{
   std::string r;
   ( ( r += tg< Ts >::s( ts ), r += ' ' ), ... );
   return r;
}

// grammar:  G = seq< X, R, X, eof >   X = one<'x'>   R = seq< one<'['>, plus< I >, one<']'> >   I = one<'i'>
struct X : one< 'x' > {};
struct I : one< 'i' > {};
struct R : seq< one< '[' >, plus< I >, opt< one< ']' > > > {};                     // the closing bracket is optional
struct Q : seq< one< '[' >, plus< I >, must< one< ']' > > > {};            // raises when ']' is missing
template< typename Rr > struct G : seq< X, Rr, X, eof > {};
template< typename Rr > struct GD : seq< X, disable< Rr >, X, eof > {};    // actions off around the switch
template< typename Rr > struct GA : seq< X, sor< seq< Rr, one< '!' > >, Rr >, X, eof > {};   // first attempt matches the switch rule, then fails: backtracking

// inner action family (used through change_action_and_states) and the generic logging behaviour
struct logging
{
   template< typename In, typename... Ts >
   static void apply( const In& in, Ts&&... ts )
   {
      g_log += "a(" + std::string( in.string_view() ) + ":" + sig( ts... ) + ")";
   }
};
template< typename Rule > struct inner : nothing< Rule > {};
template<> struct inner< I > : logging {};

template< typename Sw, typename Rr >
struct outer_t
{
   template< typename Rule > struct act : nothing< Rule > {};
};
// the switching actions under test: success logs what it is handed and where the cursor is
template< typename Base >
struct with_success : Base
{
   template< typename In, typename... Ts >
   static void success( const In& in, Ts&&... ts )
   {
      g_log += "Y(@" + std::to_string( in.byte() ) + ":" + sig( ts... ) + ")";
   }
};
template< int NNew > struct sw_states;
template<> struct sw_states< 1 > : with_success< change_states< S< 1 > > > {};
template<> struct sw_states< 2 > : with_success< change_states< S< 1 >, S< 2 > > > {};
template< int NNew > struct sw_action_states;
template<> struct sw_action_states< 1 > : with_success< change_action_and_states< inner, S< 1 > > > {};
template<> struct sw_action_states< 2 > : with_success< change_action_and_states< inner, S< 1 >, S< 2 > > > {};

// action family A1: change_states on R / Q, logging on I and X
template< int NNew > struct fam_states { template< typename Rule > struct act : nothing< Rule > {}; };
#define FAM_STATES( N )                                                                 \
   template<> template<> struct fam_states< N >::act< R > : sw_states< N > {};          \
   template<> template<> struct fam_states< N >::act< Q > : sw_states< N > {};          \
   template<> template<> struct fam_states< N >::act< I > : logging {};                 \
   template<> template<> struct fam_states< N >::act< X > : logging {};
FAM_STATES( 1 )
FAM_STATES( 2 )
// action family A2: change_action_and_states on R / Q (inner family logs on I), logging on X; I has NO action in the outer family
template< int NNew > struct fam_action_states { template< typename Rule > struct act : nothing< Rule > {}; };
#define FAM_ASTATES( N )                                                                      \
   template<> template<> struct fam_action_states< N >::act< R > : sw_action_states< N > {};  \
   template<> template<> struct fam_action_states< N >::act< Q > : sw_action_states< N > {};  \
   template<> template<> struct fam_action_states< N >::act< X > : logging {};
FAM_ASTATES( 1 )
FAM_ASTATES( 2 )

static int n_cases = 0, n_bad = 0;
static void bad( const std::string& what, const std::string& ctx )
{
   if( ++n_bad <= 40 ) {
      std::printf( "BAD %s | %s\n", what.c_str(), ctx.c_str() );
   }
}

static std::string news( const int nnew, const int first_inst )
{
   std::string r;
   for( int k = 1; k <= nnew; ++k ) {
      r += "S" + std::to_string( k ) + "#" + std::to_string( first_inst ) + " ";
   }
   return r;
}
static std::string outs( const int nout )
{
   std::string r;
   for( int k = 1; k <= nout; ++k ) {
      r += "O" + std::to_string( k ) + " ";
   }
   return r;
}

// expected log of  x [ i^n ] x  under grammar shape `shape` (0 = G, 1 = GD disabled around, 2 = GA backtracking), actions on
static std::string expected( const int shape, const int nnew, const int nout, const int ni, const bool closed, const bool raising, bool& ok, bool& throws )
{
   std::string e = "a(x:" + outs( nout ) + ")";
   ok = true;
   throws = false;
   int inst = 1;
   const int attempts = ( shape == 2 ) ? 2 : 1;     // GA: seq< R, '!' > fails after R matched, then R again
   for( int a = 0; a < attempts; ++a ) {
      if( shape == 1 ) {
         // disabled: no inner action, no success, states still constructed
      }
      else {
         for( int k = 0; k < ni; ++k ) {
            e += "a(i:" + news( nnew, inst ) + ")";
         }
      }
      if( raising && !closed ) {
         throws = true;      // must< ']' > raises inside the scope: no success
         ok = false;
         return e;
      }
      if( shape != 1 ) {
         e += "Y(@" + std::to_string( 1 + 1 + ni + ( closed ? 1 : 0 ) ) + ":" + news( nnew, inst ) + outs( nout ) + ")";
      }
      inst += 1;
   }
   e += "a(x:" + outs( nout ) + ")";
   return e;
}

template< template< typename... > class Act, typename Gr, typename... Outer >
static void run_case( const std::string& what, const std::string& input, const std::string& want, const bool want_ok, const bool want_throw, Outer&... outer )
{
   ++n_cases;
   g_log.clear();
   g_live = 0;
   g_made = 0;
   made_of< 1 >() = 0;
   made_of< 2 >() = 0;
   bool ok = false, threw = false;
   {
      memory_input<> in( input, "c13" );
      try {
         ok = parse< Gr, Act >( in, outer... );
      }
      catch( const parse_error& ) {
         threw = true;
      }
   }
   const std::string ctx = what + " input '" + input + "' log " + g_log;
   if( threw != want_throw || ( !threw && ok != want_ok ) ) {
      bad( "result", ctx );
   }
   if( g_log != want ) {
      bad( "states / actions / success differ from the scoping rule: expected " + want, ctx );
   }
   if( g_live != 0 ) {
      bad( "a state introduced by the switch outlives the rule's attempt (" + std::to_string( g_live ) + " alive)", ctx );
   }
}

template< template< typename... > class Act, int NNew, typename... Outer >
static void family( const std::string& fam, Outer&... outer )
{
   constexpr int nout = int( sizeof...( Outer ) );
   for( int ni = 1; ni <= 3; ++ni ) {
      const std::string body = "[" + std::string( std::size_t( ni ), 'i' );
      bool ok, th;
      // matched, closed
      {
         const std::string w = expected( 0, NNew, nout, ni, true, false, ok, th );
         run_case< Act, G< R > >( fam + " G<R>", "x" + body + "]x", w, true, false, outer... );
      }
      {
         const std::string w = expected( 0, NNew, nout, ni, false, false, ok, th );
         run_case< Act, G< R > >( fam + " G<R> open", "x" + body + "x", w, true, false, outer... );
      }
      {
         const std::string w = expected( 1, NNew, nout, ni, true, false, ok, th );
         run_case< Act, GD< R > >( fam + " GD<R>", "x" + body + "]x", "a(x:" + outs( nout ) + ")" + std::string() + "a(x:" + outs( nout ) + ")", true, false, outer... );
         (void)w;
      }
      {
         const std::string w = expected( 2, NNew, nout, ni, true, false, ok, th );
         run_case< Act, GA< R > >( fam + " GA<R>", "x" + body + "]x", w, true, false, outer... );
      }
      {
         const std::string w = expected( 0, NNew, nout, ni, false, true, ok, th );
         run_case< Act, G< Q > >( fam + " G<Q> raising", "x" + body + "x", w, false, true, outer... );
      }
      {
         const std::string w = expected( 0, NNew, nout, ni, true, true, ok, th );
         run_case< Act, G< Q > >( fam + " G<Q>", "x" + body + "]x", w, true, false, outer... );
      }
   }
   // local failure of the attached rule: nothing inside matched, no success; the outer x action ran once
   run_case< Act, G< R > >( fam + " G<R> fails", "x]x", "a(x:" + outs( nout ) + ")", false, false, outer... );
}

template< int NNew >
static void all_outer()
{
   O< 1 > o1;
   O< 2 > o2;
   O< 3 > o3;
   family< fam_states< NNew >::template act, NNew >( "change_states<" + std::to_string( NNew ) + "> outer 0" );
   family< fam_states< NNew >::template act, NNew >( "change_states<" + std::to_string( NNew ) + "> outer 1", o1 );
   family< fam_states< NNew >::template act, NNew >( "change_states<" + std::to_string( NNew ) + "> outer 2", o1, o2 );
   family< fam_states< NNew >::template act, NNew >( "change_states<" + std::to_string( NNew ) + "> outer 3", o1, o2, o3 );
   family< fam_action_states< NNew >::template act, NNew >( "change_action_and_states<" + std::to_string( NNew ) + "> outer 0" );
   family< fam_action_states< NNew >::template act, NNew >( "change_action_and_states<" + std::to_string( NNew ) + "> outer 1", o1 );
   family< fam_action_states< NNew >::template act, NNew >( "change_action_and_states<" + std::to_string( NNew ) + "> outer 2", o1, o2 );
   family< fam_action_states< NNew >::template act, NNew >( "change_action_and_states<" + std::to_string( NNew ) + "> outer 3", o1, o2, o3 );
}

int main()
{
   all_outer< 1 >();
   all_outer< 2 >();
   std::printf( "DONE %d %d\n", n_cases, n_bad );
   return 0;
}
