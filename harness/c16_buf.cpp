// c16_buf.cpp - C16, raw_string when the literal arrives in pieces: the same bytes through memory_input and through
// buffer_input (Chunk 4, maximum 96) with readers that deliver 1, 2, 3 or 5 bytes per call, and through istream_input
// (Chunk 64) with literals whose brackets straddle the 64-byte boundary; match result, consumed count and the content
// handed to the action must be equal.  The exhaustive part of the check ties the memory_input answers to the long-bracket
// specification and to the model.
#define BUF_TWIN_MAXIMUM 96
#include "buf_twin.hpp"

#include <sstream>

#include <tao/pegtl/contrib/raw_string.hpp>
#include <tao/pegtl/istream_input.hpp>

using rs = pegtl::raw_string< '[', '=', ']' >;
using rsc = pegtl::raw_string< '[', '=', ']', pegtl::not_one< 'x' > >;
using rsq = pegtl::raw_string< '|', '=', '|' >;
struct G1 : pegtl::seq< pegtl::star< pegtl::one< 'a' > >, rs, pegtl::star< pegtl::any > > {};
struct G2 : pegtl::seq< pegtl::star< pegtl::one< 'a' > >, rsc, pegtl::star< pegtl::any > > {};
struct G3 : pegtl::seq< pegtl::star< pegtl::one< 'a' > >, rsq, pegtl::star< pegtl::any > > {};

static std::string g_content;
template< typename R > struct cact : pegtl::nothing< R > {};
template<> struct cact< rs::content > { template< typename AI, typename... S > static void apply( const AI& in, S&&... ) { g_content += "<" + in.string() + ">"; } };
template<> struct cact< rsc::content > { template< typename AI, typename... S > static void apply( const AI& in, S&&... ) { g_content += "<" + in.string() + ">"; } };
template<> struct cact< rsq::content > { template< typename AI, typename... S > static void apply( const AI& in, S&&... ) { g_content += "<" + in.string() + ">"; } };

template< typename Rule, typename In >
static std::string crun( In&& in )
{
   g_content.clear();
   std::string r;
   try {
      r = pegtl::parse< Rule, cact >( in ) ? "T" : "F";
   }
   catch( const std::exception& ) {
      r = "X";
   }
   return r + "@" + std::to_string( in.byte() ) + " " + g_content;
}

template< typename Rule >
static void content_rule( const char* text, const std::vector< std::string >& inputs )
{
   int reported = 0;
   for( const std::string& d : inputs ) {
      const std::string ref = crun< Rule >( pegtl::memory_input<>( d.data(), d.size(), "m" ) );
      for( const std::size_t k : { std::size_t( 1 ), std::size_t( 2 ), std::size_t( 3 ), std::size_t( 5 ), std::size_t( 7 ) } ) {
         ++n_cases;
         const std::string got = crun< Rule >( pegtl::buffer_input< stride_reader, pegtl::eol::lf_crlf, std::string, 4 >( "b", BUF_TWIN_MAXIMUM, d.data(), d.data() + d.size(), k ) );
         if( got != ref && reported++ < 2 ) {
            ++n_bad;
            std::printf( "BAD %s on %s through buffer_input with a reader delivering %zu byte(s) per call: '%s' instead of '%s' (memory_input)\n", text, hex( d ).c_str(), k, hex( got ).c_str(), hex( ref ).c_str() );
         }
      }
      {
         ++n_cases;
         std::istringstream is( d );
         const std::string got = crun< Rule >( pegtl::istream_input<>( is, 200, "i" ) );
         if( got != ref && reported++ < 2 ) {
            ++n_bad;
            std::printf( "BAD %s on %s through istream_input: '%s' instead of '%s' (memory_input)\n", text, hex( d ).c_str(), hex( got ).c_str(), hex( ref ).c_str() );
         }
      }
   }
}

int main()
{
   std::vector< std::string > lits;
   for( const char* body : { "", "a", "a]", "]", "]]", "a]=]", "a]==", "\n", "\r\n", "\nq", "t[i]", "x", "ax]", "]=", "[[", "[=[" } ) {
      for( int level = 0; level <= 3; ++level ) {
         const std::string m( std::size_t( level ), '=' );
         lits.push_back( "[" + m + "[" + body + "]" + m + "]" );
         lits.push_back( "[" + m + "[" + body + "]" + m + "]tail" );
         lits.push_back( "[" + m + "[" + body + "]" + m );       // unterminated
         lits.push_back( "[" + m + "[" + body );
         std::string q = "|" + m + "|" + body + "|" + m + "|";
         lits.push_back( q );
      }
   }
   std::vector< std::string > inputs;
   for( const auto& l : lits ) {
      for( const std::size_t pad : { std::size_t( 0 ), std::size_t( 1 ), std::size_t( 3 ) } ) {
         inputs.push_back( std::string( pad, 'a' ) + l );
      }
   }
   // brackets straddling the 64-byte chunk of istream_input and every boundary of the small buffers
   for( std::size_t pad = 50; pad <= 66; ++pad ) {
      for( const char* l : { "[[b]]", "[=[b]=]", "[==[b]]=]==]c", "[[\nb]]" } ) {
         inputs.push_back( std::string( pad, 'a' ) + l );
         inputs.push_back( std::string( "[[" ) + std::string( pad, 'b' ) + "]]" );
         inputs.push_back( std::string( "[=[" ) + std::string( pad, 'b' ) + "]=]z" );
      }
   }
   content_rule< G1 >( "raw_string< '[', '=', ']' >", inputs );
   content_rule< G2 >( "raw_string< '[', '=', ']', not_one< 'x' > >", inputs );
   content_rule< G3 >( "raw_string< '|', '=', '|' >", inputs );
   std::printf( "DONE %ld %ld\n", n_cases, n_bad );
   return 0;
}
