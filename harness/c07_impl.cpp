// c07_impl.cpp - implementation side of property C07 (results do not depend on the input
// class, buffering or chunking).  Compiled against the real headers in <repo>/include.
//
//   c07_impl api  < cases        API-level: every case (bytes, reader schedule, maximum, Chunk,
//                                operation sequence) is run on the REAL buffer_input< programmable
//                                reader, Eol, std::string, Chunk > and on the REAL memory_input;
//                                one canonical line per case, format of driver/c07_driver.ml.
//   c07_impl gram <tier> <seed>  grammar-level differential on the real library only: fixed set
//                                of buffering-sensitive grammars x inputs x input classes, every
//                                class compared with memory_input (eager) in-process; prints
//                                MISMATCH / SUMMARY lines.  Only the grammars with
//                                index % C07_NPARTS == C07_PART are compiled into this binary.
//   c07_impl one <grammar> <class> <maximum> <chunk> <schedule,csv|-> <hexbytes|->   single replay
//   c07_impl list                grammar names of this part
//   c07_impl probe               observation about internal::everything on buffer_input (not judged)
//
// Nothing here re-implements buffer_input: the harness only guards operations that would be
// undefined behaviour (peek/bump outside the window, restore of a stale inputerator) by looking
// at buffer_occupied() / pointer movement of the real object, exactly the situations the Coq
// model reports as Err.
#include <cstddef>

// bounds callback of the guarded hook in memory_input.hpp / buffer_input.hpp (-DTAO_PEGTL_VERIF):
// set when a rule peeks or bumps outside [ current, end ) of the input it runs on
static bool c07_oob = false;
template< typename N, typename H >
inline void c07_access( const char* /*unused*/, const N need, const H have ) noexcept
{
   const auto h = static_cast< std::ptrdiff_t >( have );
   if( ( h < 0 ) || ( static_cast< std::size_t >( need ) > static_cast< std::size_t >( h ) ) ) {
      c07_oob = true;
   }
}
#define TAO_PEGTL_VERIF_ACCESS( what, need, have ) c07_access( what, need, have )

#include <tao/pegtl.hpp>
#include <tao/pegtl/contrib/integer.hpp>
#include <tao/pegtl/contrib/raw_string.hpp>
#include <tao/pegtl/contrib/uint32.hpp>
#include <tao/pegtl/contrib/uri.hpp>
#include <tao/pegtl/contrib/utf16.hpp>
#include <tao/pegtl/contrib/utf32.hpp>

#include <algorithm>
#include <array>
#include <csignal>
#include <cstdio>
#include <cstdlib>
#include <cstring>
#include <fstream>
#include <iostream>
#include <sstream>
#include <stdexcept>
#include <string>
#include <vector>

#include <unistd.h>

#ifndef C07_PART
#define C07_PART 0
#endif
#ifndef C07_NPARTS
#define C07_NPARTS 1
#endif

namespace pegtl = tao::pegtl;

// ------------------------------------------------------------------------- programmable reader

struct reader_state
{
   const char* data = nullptr;
   std::size_t size = 0;
   std::size_t pos = 0;
   const std::size_t* sched = nullptr;
   std::size_t nsched = 0;
   std::size_t si = 0;
   const char* base = nullptr;  // start of the allocation of the buffer_input under test
   std::size_t capacity = 0;    // maximum + Chunk
   bool corrupt = false;        // the buffer handed out a region outside its allocation / of length 0
   std::vector< std::array< std::size_t, 3 > >* calls = nullptr;
};

// follows the schedule: call i delivers min( request, max( 1, sched[ i ] ), remaining ) bytes,
// full reads once the schedule is exhausted; zero only at the end of the stream
struct prog_reader
{
   reader_state* st;
   explicit prog_reader( reader_state* s ) noexcept
      : st( s )
   {}
   std::size_t operator()( char* buffer, const std::size_t length )
   {
      std::size_t want = length;
      if( st->si < st->nsched ) {
         want = ( std::max )( std::size_t( 1 ), st->sched[ st->si ] );
      }
      ++st->si;
      std::size_t k = ( std::min )( length, ( std::min )( want, st->size - st->pos ) );
      std::size_t off = 0;
      if( st->base != nullptr ) {
         off = static_cast< std::size_t >( buffer - st->base );
         if( ( length == 0 ) || ( buffer < st->base ) || ( off + length > st->capacity ) ) {
            st->corrupt = true;
            // do not really scribble outside the allocation
            k = ( buffer < st->base || off >= st->capacity ) ? 0 : ( std::min )( k, st->capacity - off );
         }
      }
      std::memcpy( buffer, st->data + st->pos, k );
      st->pos += k;
      if( st->calls != nullptr ) {
         st->calls->push_back( { off, length, k } );
      }
      return k;
   }
};

// ------------------------------------------------------------------------- helpers

static std::string unhex( const std::string& h )
{
   std::string r;
   if( h == "-" ) {
      return r;
   }
   for( std::size_t i = 0; i + 1 < h.size(); i += 2 ) {
      r += static_cast< char >( std::stoi( h.substr( i, 2 ), nullptr, 16 ) );
   }
   return r;
}

static std::string hex( const std::string& s )
{
   static const char* d = "0123456789abcdef";
   if( s.empty() ) {
      return "-";
   }
   std::string r;
   for( const unsigned char c : s ) {
      r += d[ c >> 4 ];
      r += d[ c & 15 ];
   }
   return r;
}

static std::vector< std::size_t > csv( const std::string& s )
{
   std::vector< std::size_t > r;
   if( s == "-" ) {
      return r;
   }
   std::stringstream ss( s );
   std::string t;
   while( std::getline( ss, t, ',' ) ) {
      r.push_back( std::stoul( t ) );
   }
   return r;
}

static std::string csv_out( const std::vector< std::size_t >& v )
{
   if( v.empty() ) {
      return "-";
   }
   std::string r;
   for( std::size_t i = 0; i < v.size(); ++i ) {
      r += ( i ? "," : "" ) + std::to_string( v[ i ] );
   }
   return r;
}

// ========================================================================= API level

struct api_case
{
   std::string id;
   std::size_t maximum = 0;
   std::size_t chunk = 0;
   int eol = 10;
   std::string bytes;
   std::vector< std::size_t > sched;
   std::vector< std::string > ops;
};

static std::string pos_str( const std::size_t b, const std::size_t l, const std::size_t c )
{
   return "@" + std::to_string( b ) + "," + std::to_string( l ) + "," + std::to_string( c );
}

template< std::size_t Chunk, typename Eol >
std::string api_buf( const api_case& c )
{
   using input_t = pegtl::buffer_input< prog_reader, Eol, std::string, Chunk >;
   reader_state rs;
   std::vector< std::array< std::size_t, 3 > > calls;
   rs.data = c.bytes.data();
   rs.size = c.bytes.size();
   rs.sched = c.sched.data();
   rs.nsched = c.sched.size();
   rs.calls = &calls;
   input_t in( "api", c.maximum, &rs );
   rs.base = in.current() - in.buffer_free_before_current();
   rs.capacity = in.buffer_capacity();

   struct slot
   {
      typename input_t::inputerator_t it;
      std::size_t epoch;
   };
   std::vector< slot > slots;
   std::size_t epoch = 0;
   std::string out;
   std::string stop = "done";
   for( const std::string& t : c.ops ) {
      calls.clear();
      const std::size_t n = ( t.size() > 1 ) ? std::stoul( t.substr( 1 ) ) : 0;
      std::string a = "-";
      try {
         switch( t[ 0 ] ) {
            case 'Z':
               a = std::to_string( in.size( n ) );
               break;
            case 'E': {
               const char* e = in.end( n );
               a = std::to_string( static_cast< std::size_t >( e - in.current() ) );
               break;
            }
            case 'Q':
               in.require( n );
               break;
            case 'M':
               a = in.empty() ? "1" : "0";
               break;
            case 'P':
               if( n >= in.buffer_occupied() ) {
                  stop = "err:peek";
               }
               else {
                  a = std::to_string( static_cast< unsigned >( in.peek_uint8( n ) ) );
               }
               break;
            case 'B':
            case 'L':
            case 'N':
               if( n > in.buffer_occupied() ) {
                  stop = "err:bump";
               }
               else if( t[ 0 ] == 'B' ) {
                  in.bump( n );
               }
               else if( t[ 0 ] == 'L' ) {
                  in.bump_in_this_line( n );
               }
               else {
                  in.bump_to_next_line( n );
               }
               break;
            case 'D': {
               const char* before = in.current();
               in.discard();
               const bool moved = ( in.current() != before );
               if( moved ) {
                  ++epoch;
               }
               a = moved ? "m" : "k";
               break;
            }
            case 'S':
               slots.push_back( { in.rewind_save(), epoch } );
               break;
            case 'R':
               if( n >= slots.size() ) {
                  stop = "err:slot";
               }
               else if( slots[ n ].epoch != epoch ) {
                  stop = "err:stale";
               }
               else {
                  in.rewind_restore( slots[ n ].it );
               }
               break;
            default:
               stop = "err:op";
         }
      }
      catch( const std::overflow_error& ) {
         stop = "overflow";
      }
      if( stop != "done" ) {
         break;
      }
      out += " " + t + "=" + a + "[";
      for( std::size_t i = 0; i < calls.size(); ++i ) {
         out += ( i ? "/" : "" ) + std::to_string( calls[ i ][ 0 ] ) + "," + std::to_string( calls[ i ][ 1 ] ) + "," + std::to_string( calls[ i ][ 2 ] );
      }
      out += "]" + pos_str( in.byte(), in.line(), in.column() );
      // offsets stay ordered and inside the allocation
      if( ( in.buffer_free_before_current() + in.buffer_occupied() + in.buffer_free_after_end() != in.buffer_capacity() ) || ( in.buffer_occupied() > in.buffer_capacity() ) ) {
         rs.corrupt = true;
      }
   }
   out += " ;" + stop;
   if( rs.corrupt ) {
      out += "!corrupt";
   }
   return out;
}

template< typename Eol >
std::string api_mem( const api_case& c )
{
   using input_t = pegtl::memory_input< pegtl::tracking_mode::eager, Eol >;
   input_t in( c.bytes.data(), c.bytes.size(), "api" );
   std::vector< typename input_t::inputerator_t > slots;
   std::string out;
   std::string stop = "done";
   for( const std::string& t : c.ops ) {
      const std::size_t n = ( t.size() > 1 ) ? std::stoul( t.substr( 1 ) ) : 0;
      std::string a = "-";
      switch( t[ 0 ] ) {
         case 'Z':
            a = std::to_string( in.size( n ) );
            break;
         case 'E':
            a = std::to_string( static_cast< std::size_t >( in.end( n ) - in.current() ) );
            break;
         case 'Q':
            in.require( n );
            break;
         case 'M':
            a = in.empty() ? "1" : "0";
            break;
         case 'P':
            if( n >= in.size( 0 ) ) {
               stop = "err:peek";
            }
            else {
               a = std::to_string( static_cast< unsigned >( in.peek_uint8( n ) ) );
            }
            break;
         case 'B':
         case 'L':
         case 'N':
            if( n > in.size( 0 ) ) {
               stop = "err:bump";
            }
            else if( t[ 0 ] == 'B' ) {
               in.bump( n );
            }
            else if( t[ 0 ] == 'L' ) {
               in.bump_in_this_line( n );
            }
            else {
               in.bump_to_next_line( n );
            }
            break;
         case 'D':
            in.discard();
            break;
         case 'S':
            slots.push_back( in.rewind_save() );
            break;
         case 'R':
            if( n >= slots.size() ) {
               stop = "err:slot";
            }
            else {
               in.rewind_restore( slots[ n ] );
            }
            break;
         default:
            stop = "err:op";
      }
      if( stop != "done" ) {
         break;
      }
      out += " " + t + "=" + a + pos_str( in.byte(), in.line(), in.column() );
   }
   out += " ;" + stop;
   return out;
}

template< typename Eol >
std::string api_buf_chunk( const api_case& c )
{
   switch( c.chunk ) {
      case 1:
         return api_buf< 1, Eol >( c );
      case 2:
         return api_buf< 2, Eol >( c );
      case 3:
         return api_buf< 3, Eol >( c );
      case 8:
         return api_buf< 8, Eol >( c );
      case 64:
         return api_buf< 64, Eol >( c );
      default:
         return " ;err:chunk";
   }
}

static int main_api()
{
   std::string line;
   while( std::getline( std::cin, line ) ) {
      std::stringstream ss( line );
      api_case c;
      std::string h;
      std::string s;
      if( !( ss >> c.id >> c.maximum >> c.chunk >> c.eol >> h >> s ) ) {
         continue;
      }
      c.bytes = unhex( h );
      c.sched = csv( s );
      std::string t;
      while( ss >> t ) {
         c.ops.push_back( t );
      }
      std::string b;
      std::string m;
      if( c.eol == 13 ) {
         b = api_buf_chunk< pegtl::eol::cr >( c );
         m = api_mem< pegtl::eol::cr >( c );
      }
      else {
         b = api_buf_chunk< pegtl::eol::lf_crlf >( c );
         m = api_mem< pegtl::eol::lf_crlf >( c );
      }
      std::cout << c.id << " |B|" << b << " |M|" << m << "\n";
   }
   return 0;
}

// ========================================================================= grammar level

struct ev
{
   int rule;
   std::size_t b, l, c;
   std::string text;
   bool operator==( const ev& o ) const
   {
      return rule == o.rule && b == o.b && l == o.l && c == o.c && text == o.text;
   }
};

struct trace
{
   std::vector< ev > evs;
   std::size_t limit = 100000;  // a longer action trace means the parse does not terminate
};

static std::size_t trace_limit = 100000;

struct result
{
   char kind = '?';  // T true, F false, P parse_error, O std::overflow_error, X other exception
   std::size_t b = 0, l = 0, c = 0;     // final position of the input
   std::string msg;                     // parse_error message / what()
   std::size_t eb = 0, el = 0, ec = 0;  // parse_error position
   std::vector< ev > evs;
   bool corrupt = false;  // reader handed a region outside the allocation / buffer offsets inconsistent
   bool oob = false;      // a rule peeked or bumped outside [ current, end ) (bounds hook)

   bool operator==( const result& o ) const
   {
      return kind == o.kind && b == o.b && l == o.l && c == o.c && msg == o.msg && eb == o.eb && el == o.el && ec == o.ec && evs == o.evs;
   }
   std::string str() const
   {
      std::string s( 1, kind );
      if( kind == 'P' || kind == 'X' ) {
         s += "{" + msg + pos_str( eb, el, ec ) + "}";
      }
      if( kind != 'O' ) {
         s += pos_str( b, l, c );
      }
      s += " [";
      for( const ev& e : evs ) {
         s += " " + std::to_string( e.rule ) + pos_str( e.b, e.l, e.c ) + ":" + hex( e.text );
      }
      s += " ]";
      if( corrupt ) {
         s += " CORRUPT";
      }
      if( oob ) {
         s += " OUT-OF-WINDOW";
      }
      return s;
   }
};

template< int Id >
struct rec
{
   template< typename ActionInput >
   static void apply( const ActionInput& in, trace& t )
   {
      if( t.evs.size() > t.limit ) {
         throw std::length_error( "action trace too long (non-terminating parse?)" );
      }
      const auto p = in.position();
      t.evs.push_back( { Id, p.byte, p.line, p.column, in.string() } );
   }
};

// recording + discard after a successful match (doc: "It is safe to implement apply() here")
template< int Id >
struct rec_discard_on_success
   : pegtl::discard_input_on_success
{
   template< typename ActionInput >
   static void apply( const ActionInput& in, trace& t )
   {
      rec< Id >::apply( in, t );
   }
};

// recording + discard after every match attempt
template< int Id >
struct rec_discard_always
   : pegtl::discard_input
{
   template< typename ActionInput >
   static void apply( const ActionInput& in, trace& t )
   {
      rec< Id >::apply( in, t );
   }
};

namespace g
{
   using namespace tao::pegtl;  // NOLINT
   // clang-format off
   // tokens with span-recording actions
   struct abc  : string< 'a', 'b', 'c' > {};
   struct ab   : string< 'a', 'b' > {};
   struct a    : one< 'a' > {};
   struct b    : one< 'b' > {};
   struct c    : one< 'c' > {};
   struct x    : any {};
   struct iabc : istring< 'a', 'b', 'c' > {};
   struct u    : utf8::any {};
   struct ur   : utf8::range< 0x80, 0x10FFFF > {};
   struct nl   : eol {};
   struct nlf  : eolf {};
   struct line : until< eolf > {};
   struct five : rep< 5, any > {};
   struct la4  : at< string< 'a', 'b', 'a', 'b' > > {};
   struct s7   : string< 'a', 'b', 'c', 'a', 'b', 'c', 'a' > {};
   struct s6   : string< 'a', 'b', 'c', 'a', 'b', 'b' > {};
   struct s4   : string< 'a', 'b', 'c', 'a' > {};
   struct as   : plus< a > {};
   struct abc3 : seq< a, b, c > {};
   struct ababc : seq< a, b, a, b, c > {};
   struct aba  : seq< a, b, a > {};
   struct abcd : string< 'a', 'b', 'c' > {};   // action discards on success
   struct abd  : string< 'a', 'b' > {};        // action discards after every attempt
   struct ud   : utf8::any {};                 // action discards on success
   struct nonl : not_one< '\r', '\n' > {};
   // rule classes beyond the core set: negated sets that may consume the line ending, multi-byte
   // units of the contrib encodings, contrib rules with their own size()/peek loops
   struct nsemi : not_one< ';' > {};
   struct semi : one< ';' > {};
   struct u16  : utf16_be::any {};
   struct u32  : utf32_le::any {};
   struct w32  : uint32_be::any {};
   struct rac  : range< 'a', 'c' > {};
   struct nrz  : not_range< 'a', 'z' > {};
   struct oct  : uri::dec_octet {};
   struct raw  : raw_string< '[', '=', ']' > {};
   struct unum : unsigned_rule {};
   struct word : plus< range< 'a', 'b' > > {};
   struct wmk  : minus< word, string< 'a', 'b' > > {};
   struct wrm  : rematch< word, seq< one< 'a' >, star< any > >, seq< any, one< 'b' >, star< any > > > {};

   // grammars; `discard` only at documented-safe points: after a complete token at the top of a
   // star<> iteration, outside every rule that has an apply() action, and where no enclosing
   // rule can rewind to before it (parse<> runs with rewind_mode::optional)
   struct G00 : seq< plus< abc >, eof > {};
   struct G01 : seq< star< abc, discard >, eof > {};
   struct G02 : seq< star< iabc >, eof > {};
   struct G03 : seq< star< u >, eof > {};
   struct G04 : seq< star< u, discard >, eof > {};
   struct G05 : seq< star< sor< ur, a > >, eof > {};
   struct G06 : seq< star< u >, opt< x >, eof > {};
   struct G07 : seq< plus< abc3 >, star< a >, opt< b >, eof > {};
   struct G08 : star< not_at< eof >, line > {};
   struct G09 : star< not_at< eof >, line, discard > {};
   struct G10 : seq< five, opt< x >, eof > {};
   struct G11 : seq< star< sor< seq< la4, ab >, x > >, eof > {};
   struct G12 : star< sor< seq< not_at< string< 'a', 'b', 'c' > >, x >, abc > > {};
   struct G13 : seq< sor< s7, s6, s4, abc, ab >, star< x > > {};
   struct G14 : seq< star< sor< nl, a > >, eof > {};
   struct G15 : seq< star< sor< nl, nonl > >, nlf > {};
   struct G16 : star< sor< seq< at< ab >, must< abc > >, x > > {};
   struct G17 : seq< star< if_must< a, b > >, eof > {};
   struct G18 : seq< until< string< 'c', 'c' >, x >, eof > {};
   struct G19 : seq< star< as, opt< one< ',' > >, discard >, eof > {};
   struct G20 : seq< rep_min_max< 1, 3, ab >, star< x > > {};
   struct G21 : seq< bytes< 3 >, star< a >, eof > {};
   struct G22 : seq< star< sor< two< 'a' >, x > >, eof > {};
   struct G23 : seq< list< ab, one< ',' > >, eof > {};
   struct G24 : seq< opt< abc >, ab, eof > {};
   struct G25 : seq< star< abcd >, eof > {};
   struct G26 : seq< star< sor< abd, x > >, eof > {};
   struct G27 : seq< star< ud >, eof > {};
   struct G28 : seq< star< sor< ababc, aba, x > >, eof > {};
   struct G29 : seq< star< nonl >, nlf, star< x > > {};
   // known finding (see known_findings.json): everything asks for size( size_t( -1 ) )
   struct G30 : everything {};
   struct G31 : seq< a, everything > {};
   struct G32 : seq< star< sor< nsemi, semi > >, eof > {};
   struct G33 : seq< star< u16 >, star< x > > {};
   struct G34 : seq< star< u32 >, star< x > > {};
   struct G35 : seq< star< w32 >, star< x > > {};
   struct G36 : seq< star< sor< rac, nrz > >, star< x > > {};
   struct G37 : seq< list< oct, one< '.' > >, eof > {};
   struct G38 : seq< star< sor< raw, x > >, eof > {};
   struct G39 : seq< star< sor< unum, x > >, eof > {};
   struct G40 : seq< star< c >, star< sor< wmk, seq< word, c >, x > >, eof > {};
   struct G41 : seq< star< c >, opt< wrm >, star< x > > {};
   // clang-format on
}  // namespace g

template< typename Rule > struct act : pegtl::nothing< Rule > {};
// clang-format off
template<> struct act< g::abc > : rec< 1 > {};
template<> struct act< g::ab > : rec< 2 > {};
template<> struct act< g::a > : rec< 3 > {};
template<> struct act< g::b > : rec< 4 > {};
template<> struct act< g::c > : rec< 5 > {};
template<> struct act< g::x > : rec< 6 > {};
template<> struct act< g::iabc > : rec< 7 > {};
template<> struct act< g::u > : rec< 8 > {};
template<> struct act< g::ur > : rec< 9 > {};
template<> struct act< g::nl > : rec< 10 > {};
template<> struct act< g::nlf > : rec< 11 > {};
template<> struct act< g::line > : rec< 12 > {};
template<> struct act< g::five > : rec< 13 > {};
template<> struct act< g::la4 > : rec< 14 > {};
template<> struct act< g::s7 > : rec< 15 > {};
template<> struct act< g::s6 > : rec< 16 > {};
template<> struct act< g::s4 > : rec< 17 > {};
template<> struct act< g::as > : rec< 18 > {};
template<> struct act< g::abc3 > : rec< 19 > {};
template<> struct act< g::ababc > : rec< 20 > {};
template<> struct act< g::aba > : rec< 21 > {};
template<> struct act< g::abcd > : rec_discard_on_success< 22 > {};
template<> struct act< g::abd > : rec_discard_always< 23 > {};
template<> struct act< g::ud > : rec_discard_on_success< 24 > {};
template<> struct act< g::nonl > : rec< 25 > {};
template<> struct act< g::nsemi > : rec< 26 > {};
template<> struct act< g::semi > : rec< 27 > {};
template<> struct act< g::u16 > : rec< 28 > {};
template<> struct act< g::u32 > : rec< 29 > {};
template<> struct act< g::w32 > : rec< 30 > {};
template<> struct act< g::rac > : rec< 31 > {};
template<> struct act< g::nrz > : rec< 32 > {};
template<> struct act< g::oct > : rec< 33 > {};
template<> struct act< g::raw > : rec< 34 > {};
template<> struct act< g::unum > : rec< 35 > {};
template<> struct act< g::wmk > : rec< 36 > {};
template<> struct act< g::wrm > : rec< 37 > {};
// clang-format on

template< typename Rule, typename Input >
result run_parse( Input& in )
{
   result r;
   trace t;
   t.limit = trace_limit;
   c07_oob = false;
   try {
      r.kind = pegtl::parse< Rule, act >( in, t ) ? 'T' : 'F';
   }
   catch( const pegtl::parse_error& e ) {
      r.kind = 'P';
      r.msg = std::string( e.message() );
      const auto& p = e.position_object();
      r.eb = p.byte;
      r.el = p.line;
      r.ec = p.column;
   }
   catch( const std::overflow_error& ) {
      r.kind = 'O';
   }
   catch( const std::exception& e ) {
      r.kind = 'X';
      r.msg = e.what();
   }
   if( r.kind != 'O' ) {
      const auto p = in.position();
      r.b = p.byte;
      r.l = p.line;
      r.c = p.column;
   }
   r.evs = std::move( t.evs );
   r.oob = c07_oob;
   return r;
}

// scratch files for the file-based input classes
struct scratch
{
   std::string dir;
   std::string path;
   scratch()
   {
      char tmpl[] = "/tmp/c07_impl_XXXXXX";
      const char* d = ::mkdtemp( tmpl );
      if( d == nullptr ) {
         std::perror( "mkdtemp" );
         std::exit( 3 );
      }
      dir = d;
      path = dir + "/input.bin";
   }
   ~scratch()
   {
      std::remove( path.c_str() );
      ::rmdir( dir.c_str() );
   }
   void write( const std::string& data ) const
   {
      std::FILE* f = std::fopen( path.c_str(), "wb" );
      if( f == nullptr ) {
         std::perror( "fopen" );
         std::exit( 3 );
      }
      if( !data.empty() && std::fwrite( data.data(), data.size(), 1, f ) != 1 ) {
         std::perror( "fwrite" );
         std::exit( 3 );
      }
      std::fclose( f );
   }
};

enum class cls
{
   mem_eager,
   mem_lazy,
   string_eager,
   string_lazy,
   argv_eager,
   buf,       // buffer_input< prog_reader, lf_crlf, std::string, Chunk >( maximum ) with a schedule
   istream,   // istream_input over std::istringstream( maximum ), Chunk 64
   cstream,   // cstream_input over fmemopen / tmpfile ( maximum ), Chunk 64
   // the following need the bytes in the scratch file
   read_path,
   read_file,
   read_lazy,
   mmap_eager,
   mmap_lazy,
   file_eager,
   cstream_file,
   istream_file
};

static const char* cls_name( const cls k )
{
   switch( k ) {
      case cls::mem_eager: return "memory_input<eager>";
      case cls::mem_lazy: return "memory_input<lazy>";
      case cls::string_eager: return "string_input<eager>";
      case cls::string_lazy: return "string_input<lazy>";
      case cls::argv_eager: return "argv_input";
      case cls::buf: return "buffer_input<programmable reader>";
      case cls::istream: return "istream_input(istringstream)";
      case cls::cstream: return "cstream_input(fmemopen)";
      case cls::read_path: return "read_input(path)";
      case cls::read_file: return "read_input(FILE*)";
      case cls::read_lazy: return "read_input<lazy>";
      case cls::mmap_eager: return "mmap_input<eager>";
      case cls::mmap_lazy: return "mmap_input<lazy>";
      case cls::file_eager: return "file_input";
      case cls::cstream_file: return "cstream_input(fopen)";
      case cls::istream_file: return "istream_input(ifstream)";
   }
   return "?";
}

static bool cls_from_name( const std::string& n, cls& k )
{
   for( int i = 0; i <= static_cast< int >( cls::istream_file ); ++i ) {
      if( n == cls_name( static_cast< cls >( i ) ) ) {
         k = static_cast< cls >( i );
         return true;
      }
   }
   return false;
}

struct spec
{
   cls k = cls::mem_eager;
   std::size_t maximum = 0;
   std::size_t chunk = 0;
   const std::vector< std::size_t >* sched = nullptr;
};

template< typename Rule, std::size_t Chunk >
result run_buf( const spec& s, const std::string& data )
{
   reader_state rs;
   rs.data = data.data();
   rs.size = data.size();
   if( s.sched != nullptr ) {
      rs.sched = s.sched->data();
      rs.nsched = s.sched->size();
   }
   pegtl::buffer_input< prog_reader, pegtl::eol::lf_crlf, std::string, Chunk > in( "src", s.maximum, &rs );
   rs.base = in.current() - in.buffer_free_before_current();
   rs.capacity = in.buffer_capacity();
   result r = run_parse< Rule >( in );
   r.corrupt = rs.corrupt || ( in.buffer_free_before_current() + in.buffer_occupied() + in.buffer_free_after_end() != in.buffer_capacity() ) || ( in.buffer_occupied() > in.buffer_capacity() );
   return r;
}

template< typename Rule >
result run_class( const spec& s, const std::string& data, const scratch& sc )
{
   using tm = pegtl::tracking_mode;
   switch( s.k ) {
      case cls::mem_eager: {
         // exact-size heap copy without terminator
         std::unique_ptr< char[] > p( new char[ data.size() + 1 ] );
         std::memcpy( p.get(), data.data(), data.size() );
         pegtl::memory_input< tm::eager > in( p.get(), data.size(), "src" );
         return run_parse< Rule >( in );
      }
      case cls::mem_lazy: {
         pegtl::memory_input< tm::lazy > in( data.data(), data.data() + data.size(), "src" );
         return run_parse< Rule >( in );
      }
      case cls::string_eager: {
         pegtl::string_input< tm::eager > in( data, "src" );
         return run_parse< Rule >( in );
      }
      case cls::string_lazy: {
         pegtl::string_input< tm::lazy > in( std::string( data ), "src" );
         return run_parse< Rule >( in );
      }
      case cls::argv_eager: {
         std::string copy = data;
         char arg0[] = "prog";
         char* argv[] = { arg0, copy.data(), nullptr };
         pegtl::argv_input<> in( argv, 1 );
         return run_parse< Rule >( in );
      }
      case cls::buf:
         switch( s.chunk ) {
            case 1: return run_buf< Rule, 1 >( s, data );
            case 2: return run_buf< Rule, 2 >( s, data );
            case 3: return run_buf< Rule, 3 >( s, data );
            case 8: return run_buf< Rule, 8 >( s, data );
            default: return run_buf< Rule, 64 >( s, data );
         }
      case cls::istream: {
         std::istringstream is( data );
         pegtl::istream_input<> in( is, s.maximum, "src" );
         return run_parse< Rule >( in );
      }
      case cls::cstream: {
         std::FILE* f = nullptr;
         std::string copy = data;
         if( copy.empty() ) {
            f = std::tmpfile();
         }
         else {
            f = ::fmemopen( copy.data(), copy.size(), "rb" );
         }
         if( f == nullptr ) {
            std::perror( "fmemopen/tmpfile" );
            std::exit( 3 );
         }
         result r;
         {
            pegtl::cstream_input<> in( f, s.maximum, "src" );
            r = run_parse< Rule >( in );
         }
         std::fclose( f );
         return r;
      }
      case cls::read_path: {
         pegtl::read_input<> in( sc.path );
         return run_parse< Rule >( in );
      }
      case cls::read_file: {
         std::FILE* f = std::fopen( sc.path.c_str(), "rb" );
         pegtl::read_input<> in( f, sc.path );  // takes ownership of f
         return run_parse< Rule >( in );
      }
      case cls::read_lazy: {
         pegtl::read_input< tm::lazy > in( sc.path, "src" );
         return run_parse< Rule >( in );
      }
      case cls::mmap_eager: {
         pegtl::mmap_input<> in( sc.path );
         return run_parse< Rule >( in );
      }
      case cls::mmap_lazy: {
         pegtl::mmap_input< tm::lazy > in( sc.path, "src" );
         return run_parse< Rule >( in );
      }
      case cls::file_eager: {
         pegtl::file_input<> in( sc.path );
         return run_parse< Rule >( in );
      }
      case cls::cstream_file: {
         std::FILE* f = std::fopen( sc.path.c_str(), "rb" );
         result r;
         {
            pegtl::cstream_input<> in( f, s.maximum, "src" );
            r = run_parse< Rule >( in );
         }
         std::fclose( f );
         return r;
      }
      case cls::istream_file: {
         std::ifstream is( sc.path, std::ios::binary );
         pegtl::istream_input<> in( is, s.maximum, "src" );
         return run_parse< Rule >( in );
      }
   }
   return result();
}

struct gram
{
   int index;
   const char* name;   // C++ text of the top-level rule
   std::string alphabet;
   std::size_t lookahead;    // upper bound of every amount the grammar passes to size()/require()
   std::size_t discard_max;  // 0: none; else: with maximum >= discard_max an overflow_error is not permitted
                             // (the grammar discards at least that often - doc "Buffer Size")
   std::vector< std::string > tokens;  // building blocks of the longer seeded inputs
   result ( *run )( const spec&, const std::string&, const scratch& );
};

// look-ahead annotation of the grammars that contain `everything` (amount size_t( -1 )): an
// overflow_error would always be justified; it also marks the grammar for the known-finding class
static constexpr std::size_t WRAP_LOOKAHEAD = std::size_t( 1 ) << 40;

// only the grammars of this part are instantiated (if constexpr inside a template)
template< int I, typename R >
void reg( std::vector< gram >& v, const char* text, const std::string& alphabet, const std::size_t la, const std::size_t dm, std::vector< std::string > tokens )
{
   if constexpr( ( I % C07_NPARTS ) == C07_PART ) {
      v.push_back( gram{ I, text, alphabet, la, dm, std::move( tokens ), &run_class< R > } );
   }
}

#define C07_G( I, R, TEXT, ALPH, LA, DM, ... ) reg< I, g::R >( v, TEXT, ALPH, LA, DM, { __VA_ARGS__ } )

static std::vector< gram > grammars()
{
   std::vector< gram > v;
   C07_G( 0, G00, "seq< plus< string<'a','b','c'> >, eof >", "abc", 3, 0, "abc", "abc", "ab", "c" );
   C07_G( 1, G01, "seq< star< string<'a','b','c'>, discard >, eof >", "abc", 3, 3, "abc", "abc", "abc", "ab" );
   C07_G( 2, G02, "seq< star< istring<'a','b','c'> >, eof >", "aBc", 3, 0, "abc", "ABC", "aBc", "ab" );
   C07_G( 3, G03, "seq< star< utf8::any >, eof >", "a\xc3\xa9", 4, 0, "a", "\xc3\xa9", "\xe2\x82\xac", "\xf0\x9f\x98\x80", "\xc3" );
   C07_G( 4, G04, "seq< star< utf8::any, discard >, eof >", "a\xc3\xa9", 4, 4, "a", "\xc3\xa9", "\xe2\x82\xac", "\xf0\x9f\x98\x80" );
   C07_G( 5, G05, "seq< star< sor< utf8::range<0x80,0x10FFFF>, one<'a'> > >, eof >", "\xe2\x82\xac", 4, 0, "a", "\xe2\x82\xac", "\xc3\xa9", "\xe2\x82" );
   C07_G( 6, G06, "seq< star< utf8::any >, opt< any >, eof >", "\xf0\x9f\x98\x80", 4, 0, "\xf0\x9f\x98\x80", "\xf0\x9f\x98", "a" );
   C07_G( 7, G07, "seq< plus< seq< a, b, c > >, star< a >, opt< b >, eof >", "abc", 1, 0, "abc", "ab", "a", "b" );
   C07_G( 8, G08, "star< not_at< eof >, until< eolf > >", "a\r\n", 2, 0, "a", "aa\n", "a\r\n", "\r", "\n" );
   C07_G( 9, G09, "star< not_at< eof >, until< eolf >, discard >", "a\r\n", 2, 0, "a", "aa\n", "a\r\n", "\r", "\n" );
   C07_G( 10, G10, "seq< rep< 5, any >, opt< any >, eof >", "ab\n", 1, 0, "ab", "\n" );
   C07_G( 11, G11, "seq< star< sor< seq< at< string<'a','b','a','b'> >, string<'a','b'> >, any > >, eof >", "abc", 4, 0, "abab", "ab", "a", "c" );
   C07_G( 12, G12, "star< sor< seq< not_at< string<'a','b','c'> >, any >, string<'a','b','c'> > >", "abc", 3, 0, "abc", "ab", "a", "c" );
   C07_G( 13, G13, "seq< sor< string<abcabca>, string<abcabb>, string<abca>, string<abc>, string<ab> >, star< any > >", "abc", 7, 0, "abcabc", "abcabb", "a", "b" );
   C07_G( 14, G14, "seq< star< sor< eol, one<'a'> > >, eof >", "a\r\n", 2, 0, "a", "\r\n", "\n", "\r" );
   C07_G( 15, G15, "seq< star< sor< eol, not_one<'\\r','\\n'> > >, eolf >", "a\r\n", 2, 0, "a", "\r\n", "\n", "\r" );
   C07_G( 16, G16, "star< sor< seq< at< string<'a','b'> >, must< string<'a','b','c'> > >, any > >", "abc", 3, 0, "abc", "c", "a", "ab" );
   C07_G( 17, G17, "seq< star< if_must< one<'a'>, one<'b'> > >, eof >", "abc", 1, 0, "ab", "ab", "a", "c" );
   C07_G( 18, G18, "seq< until< string<'c','c'>, any >, eof >", "abc", 2, 0, "a", "b", "c", "cc" );
   C07_G( 19, G19, "seq< star< plus< one<'a'> >, opt< one<','> >, discard >, eof >", "a,b", 1, 0, "a", "aa,", "a,", "b" );
   C07_G( 20, G20, "seq< rep_min_max< 1, 3, string<'a','b'> >, star< any > >", "abc", 2, 0, "ab", "ab", "a", "c" );
   C07_G( 21, G21, "seq< bytes< 3 >, star< one<'a'> >, eof >", "abc", 3, 0, "a", "a", "b" );
   C07_G( 22, G22, "seq< star< sor< two<'a'>, any > >, eof >", "abc", 2, 0, "aa", "a", "b" );
   C07_G( 23, G23, "seq< list< string<'a','b'>, one<','> >, eof >", "ab,", 2, 0, "ab,", "ab", "a", "," );
   C07_G( 24, G24, "seq< opt< string<'a','b','c'> >, string<'a','b'>, eof >", "abc", 3, 0, "abc", "ab", "c" );
   C07_G( 25, G25, "seq< star< string<'a','b','c'> [action: discard_input_on_success] >, eof >", "abc", 3, 3, "abc", "abc", "abc", "ab" );
   C07_G( 26, G26, "seq< star< sor< string<'a','b'> [action: discard_input], any > >, eof >", "abc", 2, 3, "ab", "a", "b", "c" );
   C07_G( 27, G27, "seq< star< utf8::any [action: discard_input_on_success] >, eof >", "a\xc3\xa9", 4, 4, "a", "\xc3\xa9", "\xe2\x82\xac", "\xf0\x9f\x98\x80" );
   C07_G( 28, G28, "seq< star< sor< seq< a, b, a, b, c >, seq< a, b, a >, any > >, eof >", "abc", 1, 0, "ababc", "aba", "ab", "c" );
   C07_G( 29, G29, "seq< star< not_one<'\\r','\\n'> >, eolf, star< any > >", "a\r\n", 2, 0, "a", "\r\n", "\n", "a\r" );
   C07_G( 30, G30, "everything", "abc", WRAP_LOOKAHEAD, 0, "abc", "a", "def" );
   C07_G( 31, G31, "seq< one<'a'>, everything >", "abc", WRAP_LOOKAHEAD, 0, "abc", "a", "def" );
   C07_G( 32, G32, "seq< star< sor< not_one<';'>, one<';'> > >, eof >", "a;\n", 1, 0, "a", ";", "\n", "a\nb;" );
   C07_G( 33, G33, "seq< star< utf16_be::any >, star< any > >", "\xd8\xdc\x01", 4, 0, "\xd8\x3d\xde\x01", "\x01\x61", "\xd8\x01", "\xdc\x01", "\xd8" );
   C07_G( 34, G34, "seq< star< utf32_le::any >, star< any > >", std::string( "\x01\x00\xd8", 3 ), 4, 0, std::string( "\x61\x00\x00\x00", 4 ), std::string( "\x00\xf6\x01\x00", 4 ), std::string( "\x00\xd8\x00\x00", 4 ), std::string( "\x00\x00\x11\x00", 4 ), "\x61" );
   C07_G( 35, G35, "seq< star< uint32_be::any >, star< any > >", "ab", 4, 0, "abab", "a", "ba" );
   C07_G( 36, G36, "seq< star< sor< range<'a','c'>, not_range<'a','z'> > >, star< any > >", "ad\n", 1, 0, "a", "\n", "b\n", "d" );
   C07_G( 37, G37, "seq< list< uri::dec_octet, one<'.'> >, eof >", "25.", 4, 0, "255", "25", "2550", "1.", ".", "0" );
   C07_G( 38, G38, "seq< star< sor< raw_string<'[','=',']'>, any > >, eof >", "[=]a", 64, 0, "[[a]]", "[=[a]=]", "[=[a]]=]", "[[", "]]", "[==[\n]=]]==]" );
   C07_G( 39, G39, "seq< star< sor< unsigned_rule, any > >, eof >", "01a", 64, 0, "0", "12", "a", "007" );
   C07_G( 40, G40, "seq< star< c >, star< sor< minus< plus< range<'a','b'> >, string<'a','b'> >, seq< plus< range<'a','b'> >, c >, any > >, eof >", "abc", 64, 0, "ab", "c", "aba", "b", "cab" );
   C07_G( 41, G41, "seq< star< c >, opt< rematch< plus< range<'a','b'> >, seq< one<'a'>, star< any > >, seq< any, one<'b'>, star< any > > > >, star< any > >", "abc", 64, 0, "ab", "c", "aba", "ba", "cab" );
   return v;
}

// deterministic PRNG (splitmix64)
struct rng
{
   std::uint64_t s;
   explicit rng( const std::uint64_t seed )
      : s( seed )
   {}
   std::uint64_t next()
   {
      std::uint64_t z = ( s += 0x9e3779b97f4a7c15ULL );
      z = ( z ^ ( z >> 30 ) ) * 0xbf58476d1ce4e5b9ULL;
      z = ( z ^ ( z >> 27 ) ) * 0x94d049bb133111ebULL;
      return z ^ ( z >> 31 );
   }
   std::size_t below( const std::size_t n )
   {
      return static_cast< std::size_t >( next() % n );
   }
};

struct tally
{
   std::size_t inputs = 0, runs = 0, overflow = 0, matched = 0, failed = 0, raised = 0, mismatches = 0, nontrivial = 0;
   std::vector< std::string > lines;                // MISMATCH lines (first per class kind)
   std::vector< int > reported = std::vector< int >( 48, 0 );
};

static const std::size_t MAXS[] = { 1, 2, 3, 4, 5, 6, 7, 8, 16 };
static const std::size_t CHUNKS[] = { 1, 2, 3, 8, 64 };

static bool is_prefix( const std::vector< ev >& a, const std::vector< ev >& b )
{
   return a.size() <= b.size() && std::equal( a.begin(), a.end(), b.begin() );
}

static void compare( const gram& G, const spec& s, const std::string& data, const result& base, const result& got, tally& t )
{
   ++t.runs;
   std::string why;
   if( got.corrupt ) {
      why = "memory corruption: reader region outside the buffer or inconsistent buffer offsets";
   }
   else if( got.oob ) {
      why = "a rule read or consumed bytes outside the buffered window [ current, end )";
   }
   else if( got.kind == 'O' ) {
      ++t.overflow;
      const bool buffered = ( s.k == cls::buf || s.k == cls::istream || s.k == cls::cstream || s.k == cls::cstream_file || s.k == cls::istream_file );
      const std::size_t chunk = ( s.k == cls::buf ) ? s.chunk : 64;
      if( !buffered ) {
         why = "std::overflow_error from a non-buffered input";
      }
      else if( data.size() + G.lookahead <= s.maximum + chunk ) {
         why = "std::overflow_error although input length + look-ahead fits the buffer capacity";
      }
      else if( ( G.discard_max != 0 ) && ( s.maximum >= G.discard_max ) ) {
         why = "std::overflow_error although the grammar discards and maximum covers every token + look-ahead";
      }
      else if( !is_prefix( got.evs, base.evs ) ) {
         why = "action trace before std::overflow_error is not a prefix of the memory_input trace";
      }
   }
   else if( !( got == base ) ) {
      why = "result differs from memory_input<eager>";
      // the recorded class: a grammar with `everything` on a buffered input succeeds like memory_input,
      // with the same actions, but has consumed fewer bytes (only what was already buffered, because
      // m_current.data + size_t( -1 ) wraps in require()); anything else keeps its own description
      const bool buffered = ( s.k == cls::buf || s.k == cls::istream || s.k == cls::cstream || s.k == cls::cstream_file || s.k == cls::istream_file );
      if( ( G.lookahead == WRAP_LOOKAHEAD ) && buffered && ( base.kind == 'T' ) && ( got.kind == 'T' ) && ( got.b < base.b ) && ( got.evs == base.evs ) ) {
         why = "EVERYTHING-WRAP";
      }
   }
   if( why.empty() ) {
      return;
   }
   ++t.mismatches;
   const int ki = static_cast< int >( s.k ) + ( ( why == "EVERYTHING-WRAP" ) ? 24 : 0 );
   if( t.reported[ ki ]++ == 0 ) {
      std::string l = "MISMATCH grammar=" + std::to_string( G.index ) + " class=" + cls_name( s.k );
      l += " maximum=" + std::to_string( s.maximum ) + " chunk=" + std::to_string( s.chunk );
      l += " schedule=" + ( s.sched ? csv_out( *s.sched ) : std::string( "-" ) );
      l += " input=" + hex( data ) + " | why=" + why + " | rule=" + G.name + " | base=" + base.str() + " | got=" + got.str();
      t.lines.push_back( l );
      std::cout << l << "\n"
                << std::flush;
   }
}

// watchdog: a parse that does not terminate under some input class is reported, not waited for
static const gram* wd_gram = nullptr;
static const spec* wd_spec = nullptr;
static const std::string* wd_data = nullptr;
static const scratch* wd_scratch = nullptr;

extern "C" void c07_on_alarm( int /*unused*/ )
{
   static char buf[ 4096 ];
   int n = 0;
   if( wd_gram != nullptr && wd_spec != nullptr && wd_data != nullptr ) {
      n = std::snprintf( buf, sizeof( buf ), "HANG grammar=%d class=%s maximum=%zu chunk=%zu schedule=", wd_gram->index, cls_name( wd_spec->k ), wd_spec->maximum, wd_spec->chunk );
      if( wd_spec->sched != nullptr && !wd_spec->sched->empty() ) {
         for( std::size_t i = 0; i < wd_spec->sched->size() && n < 3000; ++i ) {
            n += std::snprintf( buf + n, sizeof( buf ) - n, "%s%zu", i ? "," : "", ( *wd_spec->sched )[ i ] );
         }
      }
      else {
         n += std::snprintf( buf + n, sizeof( buf ) - n, "-" );
      }
      n += std::snprintf( buf + n, sizeof( buf ) - n, " input=" );
      for( std::size_t i = 0; i < wd_data->size() && i < 200; ++i ) {
         n += std::snprintf( buf + n, sizeof( buf ) - n, "%02x", static_cast< unsigned >( static_cast< unsigned char >( ( *wd_data )[ i ] ) ) );
      }
      if( wd_data->empty() ) {
         n += std::snprintf( buf + n, sizeof( buf ) - n, "-" );
      }
      n += std::snprintf( buf + n, sizeof( buf ) - n, " | rule=%s\n", wd_gram->name );
   }
   else {
      n = std::snprintf( buf, sizeof( buf ), "HANG (no case recorded)\n" );
   }
   (void)!::write( 1, buf, static_cast< std::size_t >( n ) );
   if( wd_scratch != nullptr ) {
      ::unlink( wd_scratch->path.c_str() );
      ::rmdir( wd_scratch->dir.c_str() );
   }
   ::_exit( 4 );
}

static result exec( const gram& G, const spec& s, const std::string& data, const scratch& sc )
{
   wd_gram = &G;
   wd_spec = &s;
   wd_data = &data;
   trace_limit = 8 * data.size() + 1000;
   return G.run( s, data, sc );
}

static void run_input( const gram& G, const std::string& data, const scratch& sc, tally& t, const bool all_schedules, const std::size_t max_stride, rng* r )
{
   ++t.inputs;
   spec s;
   s.k = cls::mem_eager;
   const result base = exec( G, s, data, sc );
   switch( base.kind ) {
      case 'T': ++t.matched; break;
      case 'F': ++t.failed; break;
      default: ++t.raised;
   }
   if( !base.evs.empty() && data.size() >= 2 ) {
      ++t.nontrivial;
   }
   // classes that see the whole input at once
   for( const cls k : { cls::mem_lazy, cls::string_eager, cls::string_lazy } ) {
      s.k = k;
      compare( G, s, data, base, exec( G, s, data, sc ), t );
   }
   if( data.find( '\0' ) == std::string::npos ) {
      s.k = cls::argv_eager;
      compare( G, s, data, base, exec( G, s, data, sc ), t );
   }
   // stream inputs of the library (Chunk 64)
   for( const std::size_t m : { std::size_t( 1 ), std::size_t( 4 ), std::size_t( 16 ), std::size_t( 200 ) } ) {
      s.maximum = m;
      s.chunk = 64;
      s.k = cls::istream;
      compare( G, s, data, base, exec( G, s, data, sc ), t );
      s.k = cls::cstream;
      compare( G, s, data, base, exec( G, s, data, sc ), t );
   }
   // buffer_input with the programmable reader
   s.k = cls::buf;
   std::vector< std::size_t > sched;
   if( all_schedules ) {
      const std::size_t n = data.size();
      const std::size_t masks = ( n == 0 ) ? 1 : ( std::size_t( 1 ) << ( n - 1 ) );
      std::size_t combo = 0;
      for( const std::size_t m : MAXS ) {
         for( const std::size_t ch : CHUNKS ) {
            // every composition of the input into read sizes (max_stride = 1)
            for( std::size_t mask = ( combo % max_stride ); mask < masks; mask += max_stride ) {
               sched.clear();
               std::size_t piece = 1;
               for( std::size_t i = 0; i + 1 < n; ++i ) {
                  if( mask & ( std::size_t( 1 ) << i ) ) {
                     sched.push_back( piece );
                     piece = 1;
                  }
                  else {
                     ++piece;
                  }
               }
               if( n != 0 ) {
                  sched.push_back( piece );
               }
               s.maximum = m;
               s.chunk = ch;
               s.sched = &sched;
               compare( G, s, data, base, exec( G, s, data, sc ), t );
            }
            ++combo;
         }
      }
   }
   else {
      for( int rep = 0; rep < 12; ++rep ) {
         sched.clear();
         const std::size_t style = r->below( 4 );
         for( std::size_t i = 0; i < data.size() + 2; ++i ) {
            sched.push_back( style == 0 ? 1 : ( style == 1 ? 1 + r->below( 2 ) : ( style == 2 ? 1 + r->below( 5 ) : 1 + r->below( 70 ) ) ) );
         }
         s.maximum = ( rep < 9 ) ? MAXS[ rep ] : ( data.size() + 8 );
         s.chunk = CHUNKS[ r->below( 5 ) ];
         s.sched = &sched;
         compare( G, s, data, base, exec( G, s, data, sc ), t );
      }
   }
   s.sched = nullptr;
}

static void run_files( const gram& G, const std::string& data, const scratch& sc, tally& t )
{
   spec s;
   s.k = cls::mem_eager;
   const result base = exec( G, s, data, sc );
   sc.write( data );
   for( const cls k : { cls::read_path, cls::read_file, cls::read_lazy, cls::mmap_eager, cls::mmap_lazy, cls::file_eager } ) {
      s.k = k;
      compare( G, s, data, base, exec( G, s, data, sc ), t );
   }
   for( const std::size_t m : { std::size_t( 4 ), data.size() + 8 } ) {
      s.maximum = m;
      s.chunk = 64;
      s.k = cls::cstream_file;
      compare( G, s, data, base, exec( G, s, data, sc ), t );
      s.k = cls::istream_file;
      compare( G, s, data, base, exec( G, s, data, sc ), t );
   }
}

static std::string build_long( const gram& G, rng& r, const std::size_t target )
{
   std::string s;
   while( s.size() < target ) {
      s += G.tokens[ r.below( G.tokens.size() ) ];
   }
   return s;
}

static int main_gram( const std::string& tier, const std::uint64_t seed )
{
   const bool thorough = ( tier == "thorough" );
   std::signal( SIGALRM, c07_on_alarm );
   ::alarm( thorough ? 600 : 100 );
   const scratch sc;
   wd_scratch = &sc;
   const long ps = ::sysconf( _SC_PAGESIZE );
   for( const gram& G : grammars() ) {
      ::alarm( thorough ? 600 : 100 );  // re-armed per grammar: the budget is for one grammar, not for the part
      tally t;
      rng r( seed * 1000003ULL + static_cast< std::uint64_t >( G.index ) );
      // all inputs over the grammar's alphabet up to the tier's length, all compositions
      const std::size_t maxlen = ( thorough ? 7 : 6 ) - ( G.alphabet.size() >= 4 ? 1 : 0 );
      std::vector< std::string > cur{ "" };
      for( std::size_t len = 0; len <= maxlen; ++len ) {
         for( const std::string& in : cur ) {
            run_input( G, in, sc, t, true, 1, nullptr );
            if( len <= ( thorough ? 5u : 4u ) ) {
               run_files( G, in, sc, t );
            }
         }
         if( len == maxlen ) {
            break;
         }
         std::vector< std::string > nx;
         for( const std::string& p : cur ) {
            for( const char ch : G.alphabet ) {
               nx.push_back( p + ch );
            }
         }
         cur.swap( nx );
      }
      // longer seeded inputs, seeded schedules
      const int nlong = thorough ? 400 : 60;
      for( int i = 0; i < nlong; ++i ) {
         const std::string in = build_long( G, r, 8 + r.below( 40 ) );
         run_input( G, in, sc, t, false, 1, &r );
         if( i < 20 ) {
            run_files( G, in, sc, t );
         }
      }
      // files around the page size (and the empty file, covered above by the empty input)
      for( const long size : { 0L, 1L, ps - 1, ps, ps + 1, 2 * ps } ) {
         std::string in = build_long( G, r, static_cast< std::size_t >( size ) );
         in.resize( static_cast< std::size_t >( size ) );
         run_files( G, in, sc, t );
      }
      std::cout << "SUMMARY grammar=" << G.index << " inputs=" << t.inputs << " runs=" << t.runs << " overflow=" << t.overflow
                << " matched=" << t.matched << " failed=" << t.failed << " raised=" << t.raised << " nontrivial=" << t.nontrivial
                << " mismatches=" << t.mismatches << " | rule=" << G.name << "\n"
                << std::flush;
   }
   return 0;
}

static int main_one( const std::vector< std::string >& a )
{
   // one <grammar index> <class name> <maximum> <chunk> <schedule|-> <hex|->
   const int gi = std::stoi( a[ 0 ] );
   spec s;
   if( !cls_from_name( a[ 1 ], s.k ) ) {
      std::cerr << "unknown class " << a[ 1 ] << "\n";
      return 2;
   }
   s.maximum = std::stoul( a[ 2 ] );
   s.chunk = std::stoul( a[ 3 ] );
   const std::vector< std::size_t > sched = csv( a[ 4 ] );
   s.sched = &sched;
   const std::string data = unhex( a[ 5 ] );
   const scratch sc;
   for( const gram& G : grammars() ) {
      if( G.index != gi ) {
         continue;
      }
      spec b;
      const result base = G.run( b, data, sc );
      sc.write( data );
      const result got = G.run( s, data, sc );
      tally t;
      compare( G, s, data, base, got, t );
      std::cout << "base=" << base.str() << "\n"
                << "got=" << got.str() << "\n";
      std::cout << ( t.mismatches ? "VIOLATED" : "OK" ) << "\n";
      return t.mismatches ? 1 : 0;
   }
   std::cerr << "grammar " << gi << " is not in this part\n";
   return 2;
}

// observation only (not part of the corpus): internal::everything asks for size( size_t( -1 ) );
// on buffer_input  m_current.data + amount  wraps around, require() returns at once and the rule
// consumes just what happens to be buffered (documented: "limited by the buffer size")
static int main_probe()
{
   const std::string data = "abcdef";
   pegtl::memory_input<> mi( data, "probe" );
   const bool mr = pegtl::parse< pegtl::everything >( mi );
   reader_state rs;
   rs.data = data.data();
   rs.size = data.size();
   pegtl::buffer_input< prog_reader > bi( "probe", 100, &rs );
   const bool br = pegtl::parse< pegtl::everything >( bi );
   std::cout << "everything on \"abcdef\": memory_input result=" << mr << " consumed=" << mi.byte() << "; buffer_input(maximum 100) result=" << br << " consumed=" << bi.byte() << "\n";
   return 0;
}

int main( int argc, char** argv )
{
   std::ios::sync_with_stdio( false );
   const std::string mode = ( argc > 1 ) ? argv[ 1 ] : "";
   if( mode == "api" ) {
      return main_api();
   }
   if( mode == "gram" && argc >= 4 ) {
      return main_gram( argv[ 2 ], std::stoull( argv[ 3 ] ) );
   }
   if( mode == "one" && argc >= 8 ) {
      return main_one( std::vector< std::string >( argv + 2, argv + 8 ) );
   }
   if( mode == "probe" ) {
      return main_probe();
   }
   if( mode == "list" ) {
      for( const gram& G : grammars() ) {
         std::cout << G.index << " " << G.name << "\n";
      }
      return 0;
   }
   std::cerr << "usage: c07_impl api | gram <tier> <seed> | one <grammar> <class> <maximum> <chunk> <schedule> <hex> | list\n";
   return 2;
}
