// c15_buf.cpp - C15, the integer rules when the numeral arrives in pieces: unsigned_rule, signed_rule, maximum_rule (several
// types and maxima), uri::dec_octet and uri::IPv4address on the same bytes through memory_input and through buffer_input with
// readers that deliver 1, 2, 3 or 5 bytes per call; result and consumed count must agree (buf_twin.hpp).  The exhaustive part
// of the check ties the memory_input answers to the big-integer oracle and to the model.
#define BUF_TWIN_MAXIMUM 64
#include "buf_twin.hpp"

#include <tao/pegtl/contrib/integer.hpp>
#include <tao/pegtl/contrib/uri.hpp>

int main()
{
   std::vector< std::string > nums;
   const char* base[] = { "", "0", "00", "007", "7", "9", "10", "99", "100", "127", "128", "129", "199", "200", "249", "250", "255", "256", "260", "299", "300", "999", "1000", "2550", "2559", "25500",
                          "32767", "32768", "65535", "65536", "655350", "2147483647", "2147483648", "4294967295", "4294967296", "42949672950", "9223372036854775807", "9223372036854775808",
                          "18446744073709551615", "18446744073709551616", "184467440737095516150", "99999999999999999999", "100000000000000000000" };
   for( const char* b : base ) {
      for( const char* pre : { "", "+", "-" } ) {
         for( const char* post : { "", "x", ".", "0" } ) {
            nums.push_back( std::string( pre ) + b + post );
         }
      }
   }
   std::vector< std::string > ips;
   for( const char* s : { "1.2.3.4", "10.0.0.1", "255.255.255.255", "256.1.1.1", "1.2.3.2550", "1.2.3.256", "1.2.3.25", "1.2.3.", "1.2.3", "192.0.2.128/", "01.2.3.4", "1.2.3.04", "1.22.33.44]", "0.0.0.0", "249.250.251.252x", "" } ) {
      ips.push_back( s );
      for( std::size_t n = 1; n < std::string( s ).size(); ++n ) {
         ips.push_back( std::string( s ).substr( 0, n ) );
      }
   }
   one_rule< pegtl::unsigned_rule >( "unsigned_rule", nums );
   one_rule< pegtl::signed_rule >( "signed_rule", nums );
   one_rule< pegtl::maximum_rule< std::uint8_t > >( "maximum_rule< uint8_t >", nums );
   one_rule< pegtl::maximum_rule< std::uint8_t, 199 > >( "maximum_rule< uint8_t, 199 >", nums );
   one_rule< pegtl::maximum_rule< std::uint16_t > >( "maximum_rule< uint16_t >", nums );
   one_rule< pegtl::maximum_rule< std::uint32_t > >( "maximum_rule< uint32_t >", nums );
   one_rule< pegtl::maximum_rule< std::uint32_t, 1000000000 > >( "maximum_rule< uint32_t, 1000000000 >", nums );
   one_rule< pegtl::maximum_rule< std::uint64_t > >( "maximum_rule< uint64_t >", nums );
   one_rule< pegtl::maximum_rule< std::uint64_t, 99 > >( "maximum_rule< uint64_t, 99 >", nums );
   one_rule< pegtl::uri::dec_octet >( "uri::dec_octet", nums );
   one_rule< pegtl::uri::dec_octet >( "uri::dec_octet", ips );
   one_rule< pegtl::uri::IPv4address >( "uri::IPv4address", ips );
   std::printf( "DONE %ld %ld\n", n_cases, n_bad );
   return 0;
}
