// buf_twin.hpp - shared by the buffer stages (c10_buf, c15_buf, c16_buf, c14_buf, c20_buf): the same bytes through memory_input
// and through buffer_input with readers that deliver 1, 2, 3 or 5 bytes per call; match result (T/F/X) and consumed byte
// count must be equal.  Prints "BAD ..." lines; the including file prints "DONE <cases> <bad>".
#ifndef VERIF_BUF_TWIN_HPP
#define VERIF_BUF_TWIN_HPP

#include <cstdint>
#include <cstdio>
#include <string>
#include <vector>

#include <tao/pegtl.hpp>
#include <tao/pegtl/buffer_input.hpp>

namespace pegtl = tao::pegtl;

#ifndef BUF_TWIN_MAXIMUM
#define BUF_TWIN_MAXIMUM 24
#endif

struct stride_reader
{
   const char* p;
   const char* e;
   std::size_t k;
   stride_reader( const char* b, const char* en, const std::size_t stride )
      : p( b ), e( en ), k( stride )
   {}
   std::size_t operator()( char* buffer, const std::size_t length )
   {
      std::size_t n = std::size_t( e - p );
      if( n > k ) {
         n = k;
      }
      if( n > length ) {
         n = length;
      }
      for( std::size_t i = 0; i < n; ++i ) {
         buffer[ i ] = *p++;
      }
      return n;
   }
};

struct obs
{
   char kind = '?';
   std::size_t consumed = 0;
   bool operator==( const obs& o ) const { return kind == o.kind && consumed == o.consumed; }
};

template< typename Rule, typename In >
static obs run( In&& in )
{
   obs r;
   try {
      r.kind = pegtl::parse< Rule >( in ) ? 'T' : 'F';
   }
   catch( const std::exception& ) {
      r.kind = 'X';
   }
   r.consumed = in.byte();
   return r;
}

static long n_cases = 0, n_bad = 0;

static std::string hex( const std::string& s )
{
   static const char* d = "0123456789abcdef";
   std::string h;
   for( const unsigned char c : s ) {
      h += d[ c >> 4 ];
      h += d[ c & 15 ];
   }
   return h.empty() ? "-" : h;
}

template< typename Rule >
static void one_rule( const char* text, const std::vector< std::string >& inputs )
{
   int reported = 0;
   for( const std::string& d : inputs ) {
      const obs ref = run< Rule >( pegtl::memory_input<>( d.data(), d.size(), "m" ) );
      for( const std::size_t k : { std::size_t( 1 ), std::size_t( 2 ), std::size_t( 3 ), std::size_t( 5 ) } ) {
         ++n_cases;
         const obs got = run< Rule >( pegtl::buffer_input< stride_reader, pegtl::eol::lf_crlf, std::string, 4 >( "b", BUF_TWIN_MAXIMUM, d.data(), d.data() + d.size(), k ) );
         if( !( got == ref ) ) {
            ++n_bad;
            if( reported++ < 2 ) {
               std::printf( "BAD %s on %s through buffer_input with a reader delivering %zu byte(s) per call: %c consumed %zu instead of %c consumed %zu (memory_input)\n",
                            text, hex( d ).c_str(), k, got.kind, got.consumed, ref.kind, ref.consumed );
            }
         }
      }
   }
}

#endif
