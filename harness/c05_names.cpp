// c05_names.cpp - C05, identity clause: the default message of a parse_error is "parse error matching " + the name of the
// rule, and that name must identify the rule.  Compiled with BOTH g++ and clang++ (demangle.hpp has a separate code path per
// compiler; the correspondence harnesses are built with one of them only).  For a list of rule types whose names contain
// characters that are delimiters somewhere in the demangling code ( ; , < > ' " [ ] = space ) the program checks that
//   - demangle< Rule >() is well bracketed ( <> balanced outside character literals, quotes closed ), starts with the
//     namespace-qualified template name and ends with '>' for template rules,
//   - different rule types have different names,
//   - must< Rule > failing raises a parse_error whose message() is exactly "parse error matching " + demangle< Rule >() and
//     whose what() is "source:line:column: " + message().
// Prints "BAD <what>" lines and a final "DONE <n>".
#include <cstdio>
#include <map>
#include <string>
#include <string_view>

#include <tao/pegtl.hpp>

using namespace tao::pegtl;

static int n_bad = 0;
static int n = 0;
static std::map< std::string, std::string > seen;

static bool well_formed( const std::string_view s )
{
   int depth = 0;
   for( std::size_t i = 0; i < s.size(); ++i ) {
      const char c = s[ i ];
      if( c == '\'' ) {   // character literal: skip to the closing quote (one escaped or plain character)
         std::size_t j = i + 1;
         if( j < s.size() && s[ j ] == '\\' ) {
            j += 2;   // the escaped character itself (may be a quote)
            while( j < s.size() && s[ j ] != '\'' ) {
               ++j;
            }
         }
         else {
            j += 1;
         }
         if( j >= s.size() || s[ j ] != '\'' ) {
            return false;
         }
         i = j;
         continue;
      }
      if( c == '<' ) {
         ++depth;
      }
      if( c == '>' ) {
         if( --depth < 0 ) {
            return false;
         }
      }
   }
   return depth == 0;
}

template< typename Rule >
static void check( const char* text, const char* prefix )
{
   ++n;
   const std::string name( demangle< Rule >() );
   if( !well_formed( name ) || name.rfind( prefix, 0 ) != 0 || ( name.find( '<' ) != std::string::npos && name.back() != '>' ) ) {
      ++n_bad;
      std::printf( "BAD name of %s is '%s'\n", text, name.c_str() );
   }
   const auto it = seen.find( name );
   if( it != seen.end() && it->second != text ) {
      ++n_bad;
      std::printf( "BAD %s and %s have the same name '%s'\n", text, it->second.c_str(), name.c_str() );
   }
   seen.emplace( name, text );
   memory_input<> in( "\x01", "src" );
   try {
      (void)parse< seq< must< Rule >, eof > >( in );      // rules that match the probe input are only checked for their name
   }
   catch( const parse_error& e ) {
      const std::string want = "parse error matching " + name;
      if( std::string( e.message() ) != want ) {
         ++n_bad;
         std::printf( "BAD message of must< %s > is '%s', expected '%s'\n", text, std::string( e.message() ).c_str(), want.c_str() );
      }
      const auto& p = e.position_object();
      if( std::string( e.what() ) != p.source + ":" + std::to_string( p.line ) + ":" + std::to_string( p.column ) + ": " + want ) {
         ++n_bad;
         std::printf( "BAD what() of must< %s > is '%s'\n", text, e.what() );
      }
   }
}

struct named_semi : one< ';' > {};
namespace ns_a { struct word : plus< alpha > {}; }
namespace ns_b { struct word : plus< digit > {}; }

#define CHECK( ... ) check< __VA_ARGS__ >( #__VA_ARGS__, P )

int main()
{
   {
      const char* P = "tao::pegtl::";
      CHECK( one< ';' > );
      CHECK( one< ';', 'a' > );
      CHECK( one< 'a', ';' > );
      CHECK( one< ';', ',' > );
      CHECK( one< ',', ';' > );
      CHECK( one< '<' > );
      CHECK( one< '>' > );
      CHECK( one< '<', '>' > );
      CHECK( one< '\'' > );
      CHECK( one< '"' > );
      CHECK( one< '[' > );
      CHECK( one< ']' > );
      CHECK( one< '=' > );
      CHECK( one< ' ' > );
      CHECK( one< ';', ' ' > );
      CHECK( not_one< ';' > );
      CHECK( range< ';', '=' > );
      CHECK( string< ';', ';' > );
      CHECK( string< 'T', '=' > );
      CHECK( string< ' ', 'T', ' ', '=', ' ' > );
      CHECK( istring< 'w', 'i', 't', 'h', ' ', 'T' > );
      CHECK( seq< one< ';' >, one< ',' > > );
      CHECK( seq< one< ',' >, one< ';' > > );
      CHECK( sor< one< '>' >, string< ';', ']' > > );
      CHECK( until< one< ';' > > );
      CHECK( until< one< ';' >, one< '=' > > );
      CHECK( rep< 2, one< ';' > > );
      CHECK( rep_min_max< 1, 2, one< ']' > > );
      CHECK( star< one< ';' >, one< ' ' > > );
      CHECK( plus< one< '\n' > > );
      CHECK( if_must< one< ';' >, one< ';' > > );
      CHECK( at< one< ';' > > );
      CHECK( not_at< one< ';' > > );
      CHECK( seq< bytes< 42 >, eof > );
      CHECK( digit );
      CHECK( alpha );
   }
   {
      const char* P = "named_semi";
      CHECK( named_semi );
   }
   {
      const char* P = "ns_";
      CHECK( ns_a::word );
      CHECK( ns_b::word );
   }
   std::printf( "DONE %d %d\n", n, n_bad );
   return 0;
}
