// contrib_impl.cpp - implementation side of the Contrib correspondence: the real
// contrib/rep_one_min_max.hpp, contrib/predicates.hpp and the http chunk rules of contrib/http.hpp.
//
//   contrib_impl list            -> "ROM mn mx C" for every instantiated rep_one_min_max< mn, mx, char( C ) >,
//                                   "PRD id pk term" for every instantiated predicates rule (term printed by the
//                                   compiler-side describe<> below, pk = char | utf8)
//   contrib_impl run <casefile>  -> one result line per case line
//
// case lines (HEX = input bytes, "-" = empty; EOL = lf (eol::lf_crlf, ch = '\n') | cr (eol::cr, ch = '\r');
//             MODE = M memory_input on [buf, buf+n) inside an allocation with an adversarial 16-byte tail
//                  | B buffer_input< one byte per read, Eol, const char*, Chunk = 1 >):
//   ROM mn mx C EOL MODE HEX          rep_one_min_max< mn, mx, char( C ) >
//   PRD id pk term EOL MODE HEX       predicates rule number id (pk and term are for the model side)
//   CSZ MODE HEX                      http::chunk_size with a std::size_t state (initially 77)
//   CDT size EOL MODE HEX             http::chunk_data with the state `size`
//   CHK R|O EOL MODE HEX              http::chunk (rewind_mode required | optional)
//   CBD MODE HEX                      http::chunked_body
// result line:  T|F B:L:C [size] [OOB]   |  X B:L:C [OOB] (parse_error)  |  OVF (std::overflow_error of buffer_input)
//   B:L:C = position of the input after the call; size = content of the size_t state afterwards (CSZ only);
//   OOB = the TAO_PEGTL_VERIF bounds hook saw a peek or bump outside [ current, end ).
#include <cstddef>

static bool g_oob = false;
template< typename N, typename H >
inline void contrib_access( const char* /*unused*/, const N need, const H have ) noexcept
{
   const auto h = static_cast< std::ptrdiff_t >( have );
   if( ( h < 0 ) || ( static_cast< std::size_t >( need ) > static_cast< std::size_t >( h ) ) ) {
      g_oob = true;
   }
}
#define TAO_PEGTL_VERIF_ACCESS( what, need, have ) contrib_access( what, need, have )

#include <cstdint>
#include <cstdio>
#include <cstring>
#include <fstream>
#include <iostream>
#include <map>
#include <stdexcept>
#include <string>
#include <utility>
#include <vector>

#include <tao/pegtl.hpp>
#include <tao/pegtl/buffer_input.hpp>
#include <tao/pegtl/contrib/http.hpp>
#include <tao/pegtl/contrib/predicates.hpp>
#include <tao/pegtl/contrib/rep_one_min_max.hpp>

namespace pegtl = TAO_PEGTL_NAMESPACE;
namespace in_ = TAO_PEGTL_NAMESPACE::internal;

// ---------------------------------------------------------------- compiler-side description of predicate types

template< typename T >
struct desc
{
   static std::string str()
   {
      return "?";
   }
};

template< typename T >
std::string describe()
{
   return desc< typename T::rule_t >::str();
}

template< typename D >
std::string num( const D d )
{
   if constexpr( std::is_same_v< D, char > ) {
      return std::to_string( static_cast< int >( d ) );  // signed char value
   }
   else {
      return std::to_string( static_cast< unsigned long >( d ) );
   }
}

template< typename D, D... Cs >
std::string nums()
{
   std::string r;
   ( ( r += "," + num< D >( Cs ) ), ... );
   return r;
}

template< in_::result_on_found R, typename Peek, typename Peek::data_t... Cs >
struct desc< in_::one< R, Peek, Cs... > >
{
   static std::string str()
   {
      return std::string( "one(" ) + ( R == in_::result_on_found::success ? "1" : "0" ) + nums< typename Peek::data_t, Cs... >() + ")";
   }
};

template< in_::result_on_found R, typename Peek, typename Peek::data_t Lo, typename Peek::data_t Hi >
struct desc< in_::range< R, Peek, Lo, Hi > >
{
   static std::string str()
   {
      return std::string( "range(" ) + ( R == in_::result_on_found::success ? "1" : "0" ) + nums< typename Peek::data_t, Lo, Hi >() + ")";
   }
};

template< typename Peek, typename Peek::data_t... Cs >
struct desc< in_::ranges< Peek, Cs... > >
{
   static std::string str()
   {
      return "ranges(" + nums< typename Peek::data_t, Cs... >().substr( 1 ) + ")";
   }
};

template< typename... Ps >
std::string descs()
{
   std::string r;
   ( ( r += ( r.empty() ? "" : "," ) + describe< Ps >() ), ... );
   return r;
}

template< typename Peek, typename... Ps >
struct desc< in_::predicates< in_::predicates_and_test, Peek, Ps... > >
{
   static std::string str()
   {
      return "and(" + descs< Ps... >() + ")";
   }
};

template< typename Peek, typename... Ps >
struct desc< in_::predicates< in_::predicates_or_test, Peek, Ps... > >
{
   static std::string str()
   {
      return "or(" + descs< Ps... >() + ")";
   }
};

template< typename Peek, typename P >
struct desc< in_::predicates< in_::predicate_not_test, Peek, P > >
{
   static std::string str()
   {
      return "not(" + describe< P >() + ")";
   }
};

template< typename Peek >
std::string peek_name()
{
   if constexpr( std::is_same_v< Peek, in_::peek_char > ) {
      return "char";
   }
   else if constexpr( std::is_same_v< Peek, in_::peek_utf8 > ) {
      return "utf8";
   }
   else {
      return "?";
   }
}

// ---------------------------------------------------------------- inputs

struct byte_reader
{
   const char* data;
   std::size_t size;
   std::size_t* pos;
   std::size_t operator()( char* buffer, const std::size_t length )
   {
      if( ( length == 0 ) || ( *pos >= size ) ) {
         return 0;
      }
      buffer[ 0 ] = data[ ( *pos )++ ];
      return 1;  // one byte per call
   }
};

static constexpr std::size_t buffer_maximum = 4096;
static constexpr std::size_t tail = 16;

static std::string show_pos( const pegtl::position& p )
{
   return std::to_string( p.byte ) + ":" + std::to_string( p.line ) + ":" + std::to_string( p.column );
}

static std::string g_out;

// F( in ) -> result text without position
template< typename Eol, typename F >
void with_input( const char mode, const std::string& data, const std::string& tailbytes, F&& f )
{
   g_oob = false;
   std::string line;
   if( mode == 'M' ) {
      const std::size_t n = data.size();
      char* buf = new char[ n + tail ];
      if( n != 0 ) {
         std::memcpy( buf, data.data(), n );
      }
      for( std::size_t i = 0; i < tail; ++i ) {
         buf[ n + i ] = tailbytes.empty() ? 'x' : tailbytes[ i % tailbytes.size() ];
      }
      {
         pegtl::memory_input< pegtl::tracking_mode::eager, Eol, const char* > in( buf, buf + n, "contrib" );
         line = f( in );
      }
      delete[] buf;
   }
   else {
      std::size_t pos = 0;
      pegtl::buffer_input< byte_reader, Eol, const char*, 1 > in( "contrib", buffer_maximum, byte_reader{ data.data(), data.size(), &pos } );
      line = f( in );
   }
   if( g_oob ) {
      line += " OOB";
   }
   g_out += line;
   g_out += '\n';
}

template< typename Rule, pegtl::rewind_mode M, typename Input, typename... States >
std::string call( Input& in, const bool show_state, std::size_t* state, States&&... st )
{
   try {
      const bool r = pegtl::parse< Rule, pegtl::nothing, pegtl::normal, pegtl::apply_mode::action, M >( in, st... );
      std::string line = std::string( r ? "T " : "F " ) + show_pos( in.position() );
      if( show_state ) {
         line += " " + std::to_string( static_cast< unsigned long long >( *state ) );
      }
      return line;
   }
   catch( const pegtl::parse_error& ) {
      return "X " + show_pos( in.position() );
   }
   catch( const std::overflow_error& ) {
      return "OVF";
   }
}

// ---------------------------------------------------------------- rule runners

template< typename Rule, typename Eol >
void run_plain( const char mode, const std::string& data, const std::string& tl )
{
   with_input< Eol >( mode, data, tl, []( auto& in ) { return call< Rule, pegtl::rewind_mode::required >( in, false, nullptr ); } );
}

static void run_csz( const char mode, const std::string& data )
{
   with_input< pegtl::eol::lf_crlf >( mode, data, "1f", []( auto& in ) {
      std::size_t size = 77;
      return call< pegtl::http::chunk_size, pegtl::rewind_mode::required >( in, true, &size, size );
   } );
}

template< typename Eol >
void run_cdt( const char mode, const std::size_t size, const std::string& data )
{
   with_input< Eol >( mode, data, "x\n\r", [ size ]( auto& in ) {
      std::size_t s = size;
      const std::size_t& cs = s;
      return call< pegtl::http::chunk_data, pegtl::rewind_mode::required >( in, false, nullptr, cs );
   } );
}

template< typename Rule, pegtl::rewind_mode M, typename Eol >
void run_http( const char mode, const std::string& data )
{
   with_input< Eol >( mode, data, "1\r\n", []( auto& in ) { return call< Rule, M >( in, false, nullptr ); } );
}

using fn_t = void ( * )( const char, const std::string&, const std::string& );
static std::map< std::string, fn_t >& table()
{
   static std::map< std::string, fn_t > t;
   return t;
}
static std::vector< std::string >& listing()
{
   static std::vector< std::string > v;
   return v;
}

template< unsigned Mn, unsigned Mx, char C >
void reg_rom()
{
   const int cv = static_cast< unsigned char >( C );
   const std::string k = "ROM " + std::to_string( Mn ) + " " + std::to_string( Mx ) + " " + std::to_string( cv );
   listing().push_back( k );
   table()[ k + " lf" ] = &run_plain< pegtl::rep_one_min_max< Mn, Mx, C >, pegtl::eol::lf_crlf >;
   table()[ k + " cr" ] = &run_plain< pegtl::rep_one_min_max< Mn, Mx, C >, pegtl::eol::cr >;
}

template< char C >
void reg_rom_c()
{
   reg_rom< 0, 0, C >();
   reg_rom< 0, 1, C >();
   reg_rom< 0, 2, C >();
   reg_rom< 0, 3, C >();
   reg_rom< 0, 4, C >();
   reg_rom< 1, 1, C >();
   reg_rom< 1, 2, C >();
   reg_rom< 1, 3, C >();
   reg_rom< 1, 4, C >();
   reg_rom< 2, 2, C >();
   reg_rom< 2, 3, C >();
   reg_rom< 2, 4, C >();
   reg_rom< 3, 3, C >();
   reg_rom< 3, 4, C >();
   reg_rom< 4, 4, C >();
}

static int g_prd = 0;
template< typename Rule >
void reg_prd()
{
   const std::string id = std::to_string( g_prd++ );
   listing().push_back( "PRD " + id + " " + peek_name< typename Rule::peek_t >() + " " + describe< Rule >() );
   table()[ "PRD " + id + " lf" ] = &run_plain< Rule, pegtl::eol::lf_crlf >;
   table()[ "PRD " + id + " cr" ] = &run_plain< Rule, pegtl::eol::cr >;
}

namespace u8 = pegtl::utf8;
using namespace pegtl::ascii;  // NOLINT

static void reg_all()
{
   reg_rom_c< 'a' >();
   reg_rom_c< '\n' >();
   reg_rom_c< '\r' >();
   reg_rom_c< static_cast< char >( 0xE9 ) >();

   reg_prd< predicates_and< range< 'a', 'z' >, not_one< 'm' > > >();
   reg_prd< predicates_or< one< 'a' >, range< '0', '9' >, one< '\n' > > >();
   reg_prd< predicate_not< one< 'a' > > >();
   reg_prd< predicates_and< not_one< 'a' >, not_range< '0', '9' > > >();
   reg_prd< predicates_or< predicates_and< range< 'a', 'z' >, predicate_not< one< 'b' > > >, one< '\r' > > >();
   reg_prd< predicates_and< ranges< 'a', 'c', 'x' >, not_one< 'b' > > >();
   reg_prd< predicates_or< one< static_cast< char >( 0xE9 ) >, range< static_cast< char >( 0x80 ), static_cast< char >( 0x8F ) > > >();
   reg_prd< predicates_and< one< 'a', '\n', '\r' > > >();
   reg_prd< u8::predicates_and< u8::range< 0x80, 0xFFFF >, u8::not_one< 0xE9 > > >();
   reg_prd< u8::predicates_or< u8::one< 0x20AC >, u8::one< 0x0A > > >();
   reg_prd< u8::predicate_not< u8::range< 0x00, 0x7F > > >();
   reg_prd< u8::predicates_or< u8::predicates_and< u8::ranges< 0x61, 0x7A, 0x20AC >, u8::predicate_not< u8::one< 0x62 > > >, u8::range< 0x10000, 0x10FFFF > > >();
   reg_prd< u8::predicate_not< u8::one< 0x0D > > >();
}

static std::string unhex( const std::string& h )
{
   if( h == "-" ) {
      return "";
   }
   std::string r;
   for( std::size_t i = 0; i + 1 < h.size(); i += 2 ) {
      r += static_cast< char >( std::stoi( h.substr( i, 2 ), nullptr, 16 ) );
   }
   return r;
}

int main( int argc, char** argv )
{
   reg_all();
   const std::string cmd = argc > 1 ? argv[ 1 ] : "list";
   if( cmd == "list" ) {
      for( const auto& l : listing() ) {
         std::printf( "%s\n", l.c_str() );
      }
      return 0;
   }
   if( argc < 3 ) {
      return 2;
   }
   std::ifstream f( argv[ 2 ] );
   std::string kind;
   while( f >> kind ) {
      std::string a;
      std::string b;
      std::string c;
      std::string eol;
      std::string mode;
      std::string hex;
      if( kind == "ROM" ) {
         f >> a >> b >> c >> eol >> mode >> hex;
         const auto it = table().find( "ROM " + a + " " + b + " " + c + " " + eol );
         if( it == table().end() ) {
            g_out += "UNKNOWN\n";
         }
         else {
            it->second( mode[ 0 ], unhex( hex ), std::string( 1, static_cast< char >( std::stoi( c ) ) ) );
         }
      }
      else if( kind == "PRD" ) {
         f >> a >> b >> c >> eol >> mode >> hex;
         const auto it = table().find( "PRD " + a + " " + eol );
         if( it == table().end() ) {
            g_out += "UNKNOWN\n";
         }
         else {
            it->second( mode[ 0 ], unhex( hex ), "\x82\xac\x80\xbf" );
         }
      }
      else if( kind == "CSZ" ) {
         f >> mode >> hex;
         run_csz( mode[ 0 ], unhex( hex ) );
      }
      else if( kind == "CDT" ) {
         f >> a >> eol >> mode >> hex;
         const std::size_t size = std::stoull( a );
         if( eol == "cr" ) {
            run_cdt< pegtl::eol::cr >( mode[ 0 ], size, unhex( hex ) );
         }
         else {
            run_cdt< pegtl::eol::lf_crlf >( mode[ 0 ], size, unhex( hex ) );
         }
      }
      else if( kind == "CHK" ) {
         f >> a >> eol >> mode >> hex;
         const std::string d = unhex( hex );
         if( a == "R" ) {
            if( eol == "cr" ) {
               run_http< pegtl::http::chunk, pegtl::rewind_mode::required, pegtl::eol::cr >( mode[ 0 ], d );
            }
            else {
               run_http< pegtl::http::chunk, pegtl::rewind_mode::required, pegtl::eol::lf_crlf >( mode[ 0 ], d );
            }
         }
         else {
            if( eol == "cr" ) {
               run_http< pegtl::http::chunk, pegtl::rewind_mode::optional, pegtl::eol::cr >( mode[ 0 ], d );
            }
            else {
               run_http< pegtl::http::chunk, pegtl::rewind_mode::optional, pegtl::eol::lf_crlf >( mode[ 0 ], d );
            }
         }
      }
      else if( kind == "CBD" ) {
         f >> mode >> hex;
         run_http< pegtl::http::chunked_body, pegtl::rewind_mode::required, pegtl::eol::lf_crlf >( mode[ 0 ], unhex( hex ) );
      }
      else {
         std::string rest;
         std::getline( f, rest );
         g_out += "UNKNOWN\n";
      }
      if( g_out.size() > ( 1u << 16 ) ) {
         std::fwrite( g_out.data(), 1, g_out.size(), stdout );
         g_out.clear();
      }
   }
   std::fwrite( g_out.data(), 1, g_out.size(), stdout );
   std::fflush( stdout );
   return 0;
}
