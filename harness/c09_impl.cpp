// c09_impl.cpp - C09: contrib rep_one_min_max< Min, Max, C > against its documented meaning
// rep_min_max< Min, Max, ascii::one< C > > (doc/Contrib-and-Examples.md: "Contains optimised version of
// rep_min_max< Min, Max, ascii::one< C > >"), both run through the real parse() on the same inputs, alone and inside
// the calling contexts of the engine corpus (lib/corpus.py contexts(): top / sor_first / seq_mid / star_body),
// with rewind_mode required and optional.  One line per case:
//    ROMM <Min> <Max> <context> <required|optional> <hexinput> | <rule: result consumed> | <expansion: result consumed>
#include <cstdio>
#include <cstring>
#include <string>
#include <vector>

#include <tao/pegtl.hpp>
#include <tao/pegtl/buffer_input.hpp>
#include <tao/pegtl/contrib/rep_one_min_max.hpp>

using namespace tao::pegtl;

template< typename X > struct c_top : X {};
template< typename X > struct c_sor_first : sor< X, any > {};
template< typename X > struct c_seq_mid : seq< one< 'a' >, X, one< 'c' > > {};
template< typename X > struct c_star_body : star< seq< X, one< 'c' > > > {};

static std::string hex( const std::string& s )
{
   static const char* d = "0123456789abcdef";
   std::string r;
   for( unsigned char c : s ) {
      r += d[ c >> 4 ];
      r += d[ c & 15 ];
   }
   return r.empty() ? "-" : r;
}

template< typename G, rewind_mode M >
static std::string run( const std::string& s )
{
   // exact-size heap copy, no terminator
   char* buf = new char[ s.size() ? s.size() : 1 ];
   std::memcpy( buf, s.data(), s.size() );
   std::string res;
   {
      memory_input< tracking_mode::eager, eol::lf_crlf > in( buf, buf + s.size(), "s" );
      try {
         const bool r = parse< G, nothing, normal, apply_mode::action, M >( in );
         res = r ? "T " : "F ";
         // the property speaks about the consumed prefix of a success; after a local failure in optional mode the cursor is unspecified
         res += ( r || ( M == rewind_mode::required ) ) ? std::to_string( in.byte() ) : std::string( "-" );
      }
      catch( const parse_error& e ) {
         res = std::string( "X " ) + std::string( e.message() ) + " @" + std::to_string( e.position_object().byte );
      }
      catch( ... ) {
         res = "X other";
      }
   }
   delete[] buf;
   return res;
}

// the same rule through an incremental input: buffer_input with Chunk = 1 over a reader that delivers one byte per call, so
// that nothing beyond what the rule asked for with in.size( n ) is buffered (memory_input::size ignores its argument)
struct byte_reader
{
   const char* p;
   const char* e;
   byte_reader( const char* b, const char* en ) : p( b ), e( en ) {}
   std::size_t operator()( char* buffer, const std::size_t length )
   {
      if( ( p == e ) || ( length == 0 ) ) {
         return 0;
      }
      buffer[ 0 ] = *p++;
      return 1;
   }
};
template< typename G >
static std::string run_buffered( const std::string& s )
{
   std::string res;
   buffer_input< byte_reader, eol::lf_crlf, std::string, 1 > in( "s", 64, s.data(), s.data() + s.size() );
   try {
      const bool r = parse< G, nothing, normal, apply_mode::action, rewind_mode::required >( in );
      res = r ? "T " : "F ";
      res += std::to_string( in.byte() );
   }
   catch( const parse_error& e ) {
      res = std::string( "X " ) + std::string( e.message() ) + " @" + std::to_string( e.position_object().byte );
   }
   catch( ... ) {
      res = "X other";
   }
   return res;
}

static std::vector< std::string > inputs()
{
   std::vector< std::string > out{ "" };
   std::vector< std::string > cur{ "" };
   for( int n = 0; n < 6; ++n ) {
      std::vector< std::string > nxt;
      for( const auto& p : cur ) {
         nxt.push_back( p + "a" );
         nxt.push_back( p + "b" );
      }
      out.insert( out.end(), nxt.begin(), nxt.end() );
      cur = nxt;
   }
   // the contexts seq_mid / star_body look for 'c' after the rule: every string over {a,b,c} up to length 4 that contains a 'c'
   cur = { "" };
   for( int n = 0; n < 4; ++n ) {
      std::vector< std::string > nxt;
      for( const auto& p : cur ) {
         for( char c : { 'a', 'b', 'c' } ) {
            nxt.push_back( p + c );
         }
      }
      for( const auto& s : nxt ) {
         if( s.find( 'c' ) != std::string::npos ) {
            out.push_back( s );
         }
      }
      cur = nxt;
   }
   // runs of 'a' longer than any Max, followed by the context's 'c'
   for( int n = 5; n <= 7; ++n ) {
      out.push_back( std::string( n, 'a' ) + "c" );
   }
   return out;
}

template< unsigned Min, unsigned Max, template< typename > class C >
static void one_ctx( const char* name, const std::vector< std::string >& ins )
{
   using R = C< rep_one_min_max< Min, Max, 'a' > >;
   using E = C< rep_min_max< Min, Max, one< 'a' > > >;
   for( const auto& s : ins ) {
      std::printf( "ROMM %u %u %s required %s | %s | %s\n", Min, Max, name, hex( s ).c_str(), run< R, rewind_mode::required >( s ).c_str(), run< E, rewind_mode::required >( s ).c_str() );
      std::printf( "ROMM %u %u %s optional %s | %s | %s\n", Min, Max, name, hex( s ).c_str(), run< R, rewind_mode::optional >( s ).c_str(), run< E, rewind_mode::optional >( s ).c_str() );
      std::printf( "ROMM %u %u %s buffered %s | %s | %s\n", Min, Max, name, hex( s ).c_str(), run_buffered< R >( s ).c_str(), run< E, rewind_mode::required >( s ).c_str() );
   }
}

template< unsigned Min, unsigned Max >
static void bounds( const std::vector< std::string >& ins )
{
   one_ctx< Min, Max, c_top >( "top", ins );
   one_ctx< Min, Max, c_sor_first >( "sor_first", ins );
   one_ctx< Min, Max, c_seq_mid >( "seq_mid", ins );
   one_ctx< Min, Max, c_star_body >( "star_body", ins );
}

int main()
{
   const auto ins = inputs();
   bounds< 0, 0 >( ins ); bounds< 0, 1 >( ins ); bounds< 0, 2 >( ins ); bounds< 0, 3 >( ins ); bounds< 0, 4 >( ins );
   bounds< 1, 1 >( ins ); bounds< 1, 2 >( ins ); bounds< 1, 3 >( ins ); bounds< 1, 4 >( ins );
   bounds< 2, 2 >( ins ); bounds< 2, 3 >( ins ); bounds< 2, 4 >( ins );
   bounds< 3, 3 >( ins ); bounds< 3, 4 >( ins );
   bounds< 4, 4 >( ins );
   return 0;
}
