// c14_buf.cpp - C14, JSON texts that arrive in pieces: json::text on the same bytes through memory_input and through
// buffer_input with readers that deliver 1, 2, 3 or 5 bytes per call (the look-ahead of true/false/null, of multi-byte UTF-8
// and of \uXXXX escapes then crosses reads); result and consumed count must agree (buf_twin.hpp).  The main part of the
// check ties the memory_input verdicts to RFC 8259 and to the model.
#define BUF_TWIN_MAXIMUM 256
#include "buf_twin.hpp"

#include <tao/pegtl/contrib/json.hpp>

struct doc : pegtl::seq< pegtl::json::text, pegtl::eof > {};

int main()
{
   std::vector< std::string > docs;
   for( const char* d : { "[true]", "[false]", "[null]", "true", "false", "null", "[true,false,null]", "{\"a\":true}", "{\"k\":null,\"l\":[false]}", "[tru]", "[nul]", "[fals]", "[truefalse]", "tru", "nul",
                          "\"\xc3\xa9\"", "[\"\xe2\x82\xac\"]", "[\"\xf0\x9f\x98\x80\"]", "[\"\xf0\x9f\x98\"]", "[\"\xed\xa0\x80\"]", "[\"\xc1\xbf\"]", "[\"\\u00e9\"]", "[\"\\ud83d\\ude00\"]", "[\"\\ud83d\"]", "[\"\\u12\"]",
                          "[1,2.5,-3e+7,0]", "[01]", "[1.]", "[-]", "[1e]", " [ 1 , 2 ] ", "\t{\r\n\"a\" : [ ] }\n", "[\"a\\nb\\\"c\"]", "[\"\x7f\"]", "[\"\x1f\"]", "", " ", "[", "{\"a\"", "{\"a\":}", "[[[[[[]]]]]]", "[1 2]",
                          "{\"a\":1,\"a\":2}", "123", "-0.0e-0", "\"\"", "[\"\\x\"]" } ) {
      docs.push_back( d );
      docs.push_back( std::string( "  " ) + d );
      docs.push_back( std::string( d ) + " " );
   }
   one_rule< doc >( "seq< json::text, eof >", docs );
   one_rule< pegtl::json::text >( "json::text", docs );
   one_rule< pegtl::json::value >( "json::value", docs );
   one_rule< pegtl::json::string >( "json::string", docs );
   one_rule< pegtl::json::number >( "json::number", docs );
   std::printf( "DONE %ld %ld\n", n_cases, n_bad );
   return 0;
}
