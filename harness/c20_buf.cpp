// c20_buf.cpp - C20, URI references that arrive in pieces: the five top-level rules and the address rules on the same bytes
// through memory_input and through buffer_input with readers that deliver 1, 2, 3 or 5 bytes per call, plus istream_input
// (Chunk 64) with long references whose IP literal straddles the 64-byte boundary; result and consumed count must agree
// (buf_twin.hpp).  The main part of the check ties the memory_input verdicts to RFC 3986 and to the model.
#define BUF_TWIN_MAXIMUM 256
#include "buf_twin.hpp"

#include <sstream>

#include <tao/pegtl/contrib/uri.hpp>
#include <tao/pegtl/istream_input.hpp>

template< typename R > struct whole : pegtl::seq< R, pegtl::eof > {};

template< typename Rule >
static void istream_rule( const char* text, const std::vector< std::string >& inputs )
{
   int reported = 0;
   for( const std::string& d : inputs ) {
      ++n_cases;
      const obs ref = run< Rule >( pegtl::memory_input<>( d.data(), d.size(), "m" ) );
      std::istringstream is( d );
      const obs got = run< Rule >( pegtl::istream_input<>( is, 300, "i" ) );
      if( !( got == ref ) ) {
         ++n_bad;
         if( reported++ < 2 ) {
            std::printf( "BAD %s on %s through istream_input: %c consumed %zu instead of %c consumed %zu (memory_input)\n", text, hex( d ).c_str(), got.kind, got.consumed, ref.kind, ref.consumed );
         }
      }
   }
}

int main()
{
   std::vector< std::string > refs;
   for( const char* u : { "http://10.0.0.1/", "http://255.255.255.255:80/p?q#f", "http://1.2.3.2550/", "http://1.2.3.4%41/", "http://256.1.1.1/", "//192.0.2.16/path", "http://[::ffff:192.0.2.128]/", "http://[::ffff:1.22.33.44]/",
                          "http://[2001:db8::7]/", "http://[::1]", "http://[1:2:3:4:5:6:7:8]:8080/", "http://[1:2:3:4:5:6:1.2.3.4]/", "http://[v1.a:b]/", "http://[::ffff:1.2.3.256]/", "mailto:a@b.c", "urn:x:y", "a:b", "1:b", "a_b:c",
                          "/a/b", "a/b?c", "../x", "?q", "#f", "", "%41:b", "http://a%4", "http://a%zz", "http://u:p@h:1/p;x=1?q=%20#f", "ftp://h/%7e", "x://", "x:", ":", "//", "http://h:65536/", "http://h:/", "http://200.200.200.200.200/" } ) {
      refs.push_back( u );
   }
   std::vector< std::string > addrs;
   for( const char* a : { "1.2.3.4", "10.0.0.1", "255.255.255.255", "1.2.3.2550", "256.1.1.1", "1.2.3", "::", "::1", "::ffff:192.0.2.128", "1:2:3:4:5:6:7:8", "1:2:3:4:5:6:1.2.3.4", "1::8", "1:2::7:8", "::ffff:1.22.33.44", "::ffff:1.2.3.256", "1:2:3:4:5:6:7", "12345::", "::1.2.3.4.5" } ) {
      addrs.push_back( a );
      addrs.push_back( std::string( a ) + "]" );
   }
   one_rule< whole< pegtl::uri::URI > >( "seq< uri::URI, eof >", refs );
   one_rule< whole< pegtl::uri::URI_reference > >( "seq< uri::URI_reference, eof >", refs );
   one_rule< whole< pegtl::uri::absolute_URI > >( "seq< uri::absolute_URI, eof >", refs );
   one_rule< whole< pegtl::uri::relative_ref > >( "seq< uri::relative_ref, eof >", refs );
   one_rule< pegtl::uri::URI_reference >( "uri::URI_reference", refs );
   one_rule< pegtl::uri::IPv4address >( "uri::IPv4address", addrs );
   one_rule< pegtl::uri::IPv6address >( "uri::IPv6address", addrs );
   one_rule< whole< pegtl::uri::IPv6address > >( "seq< uri::IPv6address, eof >", addrs );
   one_rule< pegtl::uri::host >( "uri::host", addrs );
   // long references: the IP literal is shifted across the 64-byte chunk boundary of istream_input
   std::vector< std::string > longs;
   for( std::size_t pad = 30; pad <= 70; ++pad ) {
      for( const char* tail : { "@[::ffff:1.22.33.44]/", "@10.20.30.40:80/", "@[1:2:3:4:5:6:111.222.133.244]", "@255.255.255.255" } ) {
         longs.push_back( "http://" + std::string( pad, 'u' ) + tail );
      }
   }
   istream_rule< whole< pegtl::uri::URI > >( "seq< uri::URI, eof >", longs );
   istream_rule< whole< pegtl::uri::URI_reference > >( "seq< uri::URI_reference, eof >", longs );
   one_rule< whole< pegtl::uri::URI > >( "seq< uri::URI, eof >", longs );
   std::printf( "DONE %ld %ld\n", n_cases, n_bad );
   return 0;
}
