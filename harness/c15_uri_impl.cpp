// c15_uri_impl.cpp - C15, uri side: the one shipped use of the bounded integer rule.  uri::dec_octet (documented as
// maximum_rule< std::uint8_t >) and uri::IPv4address run on every digit string of 1..4 digits (x trailers) and on
// dotted quads built from boundary octets; prints "<rule> <hexinput> <result 0/1> <consumed>" per case.  Inputs are
// windows inside a larger buffer with digits behind the logical end.
#include <cstdio>
#include <cstring>
#include <string>
#include <vector>

#include <tao/pegtl.hpp>
#include <tao/pegtl/contrib/uri.hpp>

namespace pegtl = TAO_PEGTL_NAMESPACE;

template< typename Rule >
static void run( const char* name, const std::string& s )
{
   static const char tail[] = "0123456789.55";
   std::vector< char > buf( s.size() + sizeof( tail ) );
   std::memcpy( buf.data(), s.data(), s.size() );
   std::memcpy( buf.data() + s.size(), tail, sizeof( tail ) );
   pegtl::memory_input< pegtl::tracking_mode::eager, pegtl::eol::lf_crlf, const char* > in( buf.data(), buf.data() + s.size(), "c15uri" );
   std::string res;
   try {
      const bool r = pegtl::parse< Rule, pegtl::nothing, pegtl::normal, pegtl::apply_mode::action, pegtl::rewind_mode::required >( in );
      res = r ? "1" : "0";
   }
   catch( const std::exception& ) {
      res = "X";
   }
   std::string hex;
   static const char* d = "0123456789abcdef";
   for( unsigned char c : s ) {
      hex += d[ c >> 4 ];
      hex += d[ c & 15 ];
   }
   std::printf( "%s %s %s %zu\n", name, hex.empty() ? "-" : hex.c_str(), res.c_str(), in.byte() );
}

int main()
{
   const char* trailers[] = { "", ".", "x", "/" };
   for( int len = 0; len <= 4; ++len ) {
      int count = 1;
      for( int i = 0; i < len; ++i ) {
         count *= 10;
      }
      for( int v = 0; v < count; ++v ) {
         char b[ 8 ];
         std::snprintf( b, sizeof b, "%0*d", len, v );
         const std::string digits = len ? std::string( b ) : std::string();
         for( const char* t : trailers ) {
            run< pegtl::uri::dec_octet >( "dec_octet", digits + t );
         }
      }
   }
   const char* octs[] = { "0", "1", "9", "10", "99", "100", "199", "200", "249", "250", "255", "256", "259", "260", "299", "300", "999", "00", "01", "025", "1000", "" };
   for( const char* a : octs ) {
      for( const char* b2 : octs ) {
         const std::string q1 = std::string( a ) + "." + b2 + ".7.8";
         const std::string q2 = std::string( "7.8." ) + a + "." + b2;
         for( const std::string& q : { q1, q2 } ) {
            run< pegtl::uri::IPv4address >( "IPv4address", q );
            run< pegtl::seq< pegtl::uri::IPv4address, pegtl::eof > >( "IPv4address_eof", q );
         }
      }
   }
   return 0;
}
