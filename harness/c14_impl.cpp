// c14_impl.cpp - C14 implementation side: the REAL shipped JSON grammar.
//
//   c14_impl [-f] <cases>     one case per line: hex-encoded input, "-" for the empty input;
//                             a leading '!' (marker for the model driver) is ignored.
//
// For every case the bytes are copied into an EXACT-SIZE heap buffer (new char[ n ], no
// terminator, nothing readable behind it - under AddressSanitizer any read past the input is a
// report) and
//    tao::pegtl::parse< tao::pegtl::seq< tao::pegtl::json::text, tao::pegtl::eof > >(
//        tao::pegtl::memory_input<>( buf, n, "c14" ) )
// is run inside try/catch.  Output, one line per case:
//    <hex> impl=<true|false|parse_error|std_exception|other_exception>
// -f flushes stdout after every line (used with the sanitizer build: the case after the last
// printed line is the one that was running when the sanitizer stopped the program).
// -c compact output for the bulk families: ONE line holding one character per case, in case
// order:  t f p s o  = true false parse_error std_exception other_exception,  E = bad case line.
#include <tao/pegtl.hpp>
#include <tao/pegtl/contrib/json.hpp>

#include <cstdio>
#include <cstring>
#include <exception>
#include <fstream>
#include <iostream>
#include <string>

namespace
{
   int hexval( const char c )
   {
      if( c >= '0' && c <= '9' ) {
         return c - '0';
      }
      if( c >= 'a' && c <= 'f' ) {
         return c - 'a' + 10;
      }
      if( c >= 'A' && c <= 'F' ) {
         return c - 'A' + 10;
      }
      return -1;
   }

   const char* run_one( const char* buf, const std::size_t n )
   {
      try {
         tao::pegtl::memory_input<> in( buf, n, "c14" );
         const bool r = tao::pegtl::parse< tao::pegtl::seq< tao::pegtl::json::text, tao::pegtl::eof > >( in );
         return r ? "true" : "false";
      }
      catch( const tao::pegtl::parse_error& ) {
         return "parse_error";
      }
      catch( const std::exception& ) {
         return "std_exception";
      }
      catch( ... ) {
         return "other_exception";
      }
   }

}  // namespace

int main( int argc, char** argv )
{
   bool flush = false;
   bool compact = false;
   const char* file = nullptr;
   for( int i = 1; i < argc; ++i ) {
      if( std::strcmp( argv[ i ], "-f" ) == 0 ) {
         flush = true;
      }
      else if( std::strcmp( argv[ i ], "-c" ) == 0 ) {
         compact = true;
      }
      else {
         file = argv[ i ];
      }
   }
   if( file == nullptr ) {
      std::fprintf( stderr, "usage: c14_impl [-f] [-c] <cases>\n" );
      return 2;
   }
   std::ifstream f( file );
   if( !f ) {
      std::fprintf( stderr, "c14_impl: cannot open %s\n", file );
      return 2;
   }
   std::string line;
   while( std::getline( f, line ) ) {
      while( !line.empty() && ( line.back() == '\r' || line.back() == ' ' ) ) {
         line.pop_back();
      }
      if( line.empty() ) {
         continue;
      }
      const char* h = line.c_str();
      if( *h == '!' ) {
         ++h;
      }
      const std::size_t hl = std::strlen( h );
      std::size_t n = 0;
      bool bad = false;
      if( !( hl == 1 && h[ 0 ] == '-' ) ) {
         if( hl % 2 != 0 ) {
            bad = true;
         }
         n = hl / 2;
      }
      char* buf = new char[ n ];  // exact size; for n == 0 a valid non-null pointer to a zero-sized block
      for( std::size_t i = 0; !bad && i < n; ++i ) {
         const int a = hexval( h[ 2 * i ] );
         const int b = hexval( h[ 2 * i + 1 ] );
         if( a < 0 || b < 0 ) {
            bad = true;
            break;
         }
         buf[ i ] = static_cast< char >( static_cast< unsigned char >( a * 16 + b ) );
      }
      if( compact ) {
         const char* r = bad ? "E" : run_one( buf, n );
         std::putchar( r[ 0 ] );  // first letters are distinct: true false parse_error std_exception other_exception
      }
      else if( bad ) {
         std::printf( "%s ERROR bad case\n", h );
      }
      else {
         std::printf( "%s impl=%s\n", h, run_one( buf, n ) );
      }
      delete[] buf;
      if( flush ) {
         std::fflush( stdout );
      }
   }
   if( compact ) {
      std::putchar( '\n' );
   }
   return 0;
}
