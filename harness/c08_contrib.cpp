// c08_contrib.cpp - C08, contrib side: the hook protocol as seen through the library's own observer facilities
//   contrib/state_control.hpp (a state object observing every hook, wrapped around an arbitrary control),
//   contrib/coverage.hpp (counters per rule and per branch), contrib/remove_first_state.hpp / shuffle_states.hpp
//   (used by both), over plain and must_if controls, with vetoing bool actions, with exceptions from must<> /
//   must_if failure(), and for a parse started from a destructor while another exception is unwinding the stack.
// For every grammar x configuration x input the program checks on the IMPLEMENTATION's own observations:
//   P1 the observer's log is a Dyck word: start(R) ... exactly one of success(R) / failure(R) / unwind(R), properly nested,
//      nothing left open at the end;  P2 the outermost closing hook tells the truth about parse()'s result;
//   P3 coverage counters: start = success + failure + unwind for every rule and every branch;
//   P4 coverage counters = the counts of the observer log of the same run;  P5 the log of a run made inside a destructor
//      during stack unwinding equals the log of the same run made normally.
// Prints "VIOL <kind> g<k> cfg<c> <hexinput> <detail>" lines and a final "DONE <cases> <events>" line.
#include <cstdio>
#include <cstring>
#include <map>
#include <stdexcept>
#include <string>
#include <vector>

#include <tao/pegtl.hpp>
#include <tao/pegtl/buffer_input.hpp>
#include <tao/pegtl/contrib/coverage.hpp>
#include <tao/pegtl/contrib/control_action.hpp>
#include <tao/pegtl/contrib/state_control.hpp>

using namespace tao::pegtl;

// ---------------------------------------------------------------- observer state
struct ev
{
   char k;                    // S O F U R A
   std::string_view rule;
};
struct obs
{
   template< typename Rule >
   static constexpr bool enable = true;

   std::vector< ev > log;

   template< typename Rule, typename In, typename... St > void start( const In&, St&&... ) { log.push_back( { 'S', demangle< Rule >() } ); }
   template< typename Rule, typename In, typename... St > void success( const In&, St&&... ) { log.push_back( { 'O', demangle< Rule >() } ); }
   template< typename Rule, typename In, typename... St > void failure( const In&, St&&... ) { log.push_back( { 'F', demangle< Rule >() } ); }
   template< typename Rule, typename In, typename... St > void unwind( const In&, St&&... ) { log.push_back( { 'U', demangle< Rule >() } ); }
   template< typename Rule, typename In, typename... St > void raise( const In&, St&&... ) { log.push_back( { 'R', demangle< Rule >() } ); }
   template< typename Rule, typename Am, typename... St > void raise_nested( const Am&, St&&... ) { log.push_back( { 'G', demangle< Rule >() } ); }
   template< typename Rule, typename In, typename... St > void apply( const In&, St&&... ) { log.push_back( { 'A', demangle< Rule >() } ); }
   template< typename Rule, typename In, typename... St > void apply0( const In&, St&&... ) { log.push_back( { 'A', demangle< Rule >() } ); }
};

// ---------------------------------------------------------------- grammars
namespace g0
{
   struct A : seq< one< 'a' >, opt< one< 'b' > > > {};
   struct B : seq< one< 'a' >, one< 'b' > > {};
   struct G : seq< star< sor< B, A, one< 'c' > > >, eof > {};
}
namespace g1
{
   struct K : plus< one< 'a' > > {};
   struct V : sor< seq< K, one< 'b' > >, seq< K, one< 'c' > >, K > {};
   struct G : seq< V, opt< at< one< 'c' > >, any >, not_at< one< 'b' > > > {};
}
namespace g2
{
   struct N : seq< one< 'a' >, one< 'b' > > {};
   struct G : seq< opt< N >, must< one< 'c' > >, star< any > > {};
}
namespace g3
{
   struct N : seq< one< 'a' >, one< 'b' > > {};
   struct T : try_catch_return_false< seq< one< 'a' >, must< N > > > {};
   struct G : sor< T, seq< one< 'a' >, star< any > >, if_must< one< 'b' >, one< 'c' > > > {};
}
namespace g4
{
   struct E;
   struct P : sor< seq< one< 'a' >, E, one< 'b' > >, one< 'c' > > {};
   struct E : list< P, one< 'c' > > {};
   struct G : seq< E, eof > {};
}
namespace g5
{
   struct N : seq< one< 'a' >, one< 'b' > > {};
   struct M : until< one< 'c' >, sor< N, one< 'a' > > > {};
   struct G : seq< rep_min_max< 1, 2, M >, opt< N > > {};
}
namespace g6
{
   struct N : one< 'a' > {};
   struct Q : seq< N, N > {};
   struct G : seq< sor< seq< Q, one< 'c' > >, seq< N, one< 'b' > >, star< N > >, rematch< star< any >, not_at< one< 'c' > > > > {};
}

namespace g8
{
   // a nested re-throw: try_catch_raise_nested reports raise_nested< sub-rule > and the escaping parse_error is nested
   struct N : seq< one< 'a' >, one< 'b' > > {};
   struct T : try_catch_raise_nested< seq< one< 'a' >, must< N > > > {};
   struct G : seq< opt< one< 'c' > >, sor< try_catch_return_false< seq< T, one< 'c' >, must< one< 'c' > > > >, T >, star< any > > {};
}

// ---------------------------------------------------------------- actions
template< typename Rule > struct act_none : nothing< Rule > {};
// bool action vetoing by a deterministic predicate on the matched span, on a few named rules of every grammar
inline bool veto( std::size_t b, std::size_t e ) { return ( ( b + 2 * e ) % 3 ) != 0; }
template< typename Rule > struct act_veto : nothing< Rule > {};
struct veto_base
{
   template< typename AI, typename... St >
   static bool apply( const AI& in, St&&... )
   {
      return veto( in.position().byte, in.input().position().byte );
   }
};
template<> struct act_veto< g0::A > : veto_base {};
template<> struct act_veto< g0::B > : veto_base {};
template<> struct act_veto< g1::K > : veto_base {};
template<> struct act_veto< g2::N > : veto_base {};
template<> struct act_veto< g3::N > : veto_base {};
template<> struct act_veto< g4::P > : veto_base {};
template<> struct act_veto< g5::N > : veto_base {};
template<> struct act_veto< g6::Q > : veto_base {};
template<> struct act_veto< g8::N > : veto_base {};
// void apply0 on everything named
template< typename Rule > struct act_void : nothing< Rule > {};
struct void_base { template< typename... St > static void apply0( St&&... ) {} };
template<> struct act_void< g0::A > : void_base {};
template<> struct act_void< g1::V > : void_base {};
template<> struct act_void< g2::N > : void_base {};
template<> struct act_void< g3::T > : void_base {};
template<> struct act_void< g4::E > : void_base {};
template<> struct act_void< g5::M > : void_base {};
template<> struct act_void< g6::N > : void_base {};

// ---------------------------------------------------------------- must_if control: failure() raises for these rules
template< typename > inline constexpr const char* mi_msg = nullptr;
template<> inline constexpr const char* mi_msg< g0::B > = "B";
template<> inline constexpr const char* mi_msg< g1::V > = "V";
template<> inline constexpr const char* mi_msg< g2::N > = "N";
template<> inline constexpr const char* mi_msg< g3::N > = "N";
template<> inline constexpr const char* mi_msg< g4::P > = "P";
template<> inline constexpr const char* mi_msg< g5::N > = "N";
template<> inline constexpr const char* mi_msg< g6::Q > = "Q";
struct mi_errors
{
   template< typename Rule >
   static constexpr const char* message = mi_msg< Rule >;
};
template< typename Rule > using mi_control = must_if< mi_errors, normal, false >::control< Rule >;

// ---------------------------------------------------------------- a user control with unwind() that keeps its OWN log
// (wrapped by state_control: it must see start / exactly one closing hook for exactly the rules that are control-enabled)
static std::vector< ev > g_uw;
template< typename Rule >
struct uw_control : normal< Rule >
{
   template< typename In, typename... St > static void start( const In&, St&&... ) { g_uw.push_back( { 'S', demangle< Rule >() } ); }
   template< typename In, typename... St > static void success( const In&, St&&... ) { g_uw.push_back( { 'O', demangle< Rule >() } ); }
   template< typename In, typename... St > static void failure( const In&, St&&... ) { g_uw.push_back( { 'F', demangle< Rule >() } ); }
   template< typename In, typename... St > static void unwind( const In&, St&&... ) { g_uw.push_back( { 'U', demangle< Rule >() } ); }
};
namespace g7
{
   struct N : seq< one< 'a' >, one< 'b' > > {};
   struct G : seq< opt< N >, must< one< 'c' >, one< 'a' > >, star< any > > {};      // must< A, B > = hidden internal::must< A >, internal::must< B >
}

// one byte per call
struct byte_reader
{
   const char* p;
   const char* e;
   byte_reader( const char* b, const char* en ) : p( b ), e( en ) {}
   std::size_t operator()( char* buffer, const std::size_t length )
   {
      if( ( p == e ) || ( length == 0 ) ) {
         return 0;
      }
      buffer[ 0 ] = *p++;
      return 1;
   }
};

// ---------------------------------------------------------------- checks
static unsigned long n_cases = 0, n_events = 0, n_viol = 0;

static std::string hex( const std::string& s )
{
   static const char* d = "0123456789abcdef";
   std::string r;
   for( unsigned char c : s ) {
      r += d[ c >> 4 ];
      r += d[ c & 15 ];
   }
   return r.empty() ? "-" : r;
}
static void viol( const char* kind, int g, int c, const std::string& in, const std::string& detail )
{
   if( ++n_viol <= 60 ) {
      std::printf( "VIOL %s g%d cfg%d %s %s\n", kind, g, c, hex( in ).c_str(), detail.c_str() );
   }
}
static std::string show( const std::vector< ev >& log )
{
   std::string s;
   for( const auto& e : log ) {
      s += e.k;
      s += '(';
      const auto p = e.rule.rfind( "::" );
      s += std::string( p == std::string_view::npos ? e.rule : e.rule.substr( p + 2 ) ).substr( 0, 18 );
      s += ')';
      if( s.size() > 300 ) {
         break;
      }
   }
   return s;
}

// "" if the log is a Dyck word over start / success|failure|unwind with nothing left open, else what is wrong
static std::string dyck( const std::vector< ev >& log )
{
   std::vector< std::string_view > st;
   for( const auto& e : log ) {
      if( e.k == 'S' ) {
         st.push_back( e.rule );
      }
      else if( e.k == 'O' || e.k == 'F' || e.k == 'U' ) {
         if( st.empty() || st.back() != e.rule ) {
            return std::string( "closing hook " ) + e.k + " without a matching open start";
         }
         st.pop_back();
      }
   }
   if( !st.empty() ) {
      return std::to_string( st.size() ) + " attempts left without success/failure/unwind";
   }
   return "";
}

// the escaping exception, level by level ( what() of every nested level )
static std::string shape_of( const std::exception& e )
{
   std::string r = e.what();
   try {
      std::rethrow_if_nested( e );
   }
   catch( const std::exception& inner ) {
      r += " <- " + shape_of( inner );
   }
   catch( ... ) {
      r += " <- ?";
   }
   return r;
}
static std::string g_shape;

// result: 1 true, 0 false, 2 exception
template< typename G, template< typename... > class Act, template< typename... > class Ctl >
static int run_observed( const std::string& s, std::vector< ev >& log )
{
   obs o;
   int r;
   g_shape.clear();
   memory_input<> in( s.data(), s.data() + s.size(), "c08" );
   try {
      r = parse< G, Act, state_control< Ctl >::template type >( in, o ) ? 1 : 0;
   }
   catch( const std::exception& e ) {
      r = 2;
      g_shape = shape_of( e );
   }
   log = std::move( o.log );
   return r;
}

template< typename G, template< typename... > class Act, template< typename... > class Ctl >
struct in_dtor
{
   const std::string& s;
   std::vector< ev >& log;
   int& r;
   ~in_dtor()
   {
      r = run_observed< G, Act, Ctl >( s, log );      // a perfectly normal parse, started while another exception is in flight
   }
};

template< typename G, template< typename... > class Act, template< typename... > class Ctl >
static void one_case( const int g, const int c, const std::string& s )
{
   ++n_cases;
   std::vector< ev > log;
   const int r = run_observed< G, Act, Ctl >( s, log );
   n_events += log.size();
   // P1 Dyck
   std::vector< std::string_view > st;
   bool bad = false;
   char last_close = 0;
   std::string_view last_rule;
   for( const auto& e : log ) {
      if( e.k == 'S' ) {
         st.push_back( e.rule );
      }
      else if( e.k == 'O' || e.k == 'F' || e.k == 'U' ) {
         if( st.empty() || st.back() != e.rule ) {
            viol( "protocol", g, c, s, std::string( "closing hook " ) + e.k + " does not close the innermost open start: " + show( log ) );
            bad = true;
            break;
         }
         st.pop_back();
         if( st.empty() ) {
            last_close = e.k;
            last_rule = e.rule;
         }
      }
      else if( e.k == 'A' ) {
         if( st.empty() || st.back() != e.rule ) {
            viol( "protocol", g, c, s, "apply outside the window between the rule's start and its closing hook: " + show( log ) );
            bad = true;
            break;
         }
      }
   }
   if( !bad && !st.empty() ) {
      viol( "protocol", g, c, s, std::to_string( st.size() ) + " attempts left without success/failure/unwind: " + show( log ) );
      bad = true;
   }
   // P2 truthfulness at the top
   if( !bad ) {
      const char want = ( r == 1 ) ? 'O' : ( ( r == 0 ) ? 'F' : 'U' );
      // with a must_if control the outermost rule may be closed by failure and THEN raise (result 2): accept F for r == 2 only then
      const bool ok = ( last_close == want ) || ( r == 2 && last_close == 'F' && mi_msg< G > != nullptr );
      if( !ok ) {
         viol( "truth", g, c, s, std::string( "parse() result " ) + std::to_string( r ) + " but the outermost attempt was closed by " + ( last_close ? last_close : '?' ) + ": " + show( log ) );
      }
   }
   // P8 observing does not change the outcome: same result and the same exception, level by level, as the plain parse
   {
      const std::string observed = g_shape;
      std::string plain;
      int rp;
      memory_input<> in( s.data(), s.data() + s.size(), "c08" );
      try {
         rp = parse< G, Act, Ctl >( in ) ? 1 : 0;
      }
      catch( const std::exception& e ) {
         rp = 2;
         plain = shape_of( e );
      }
      if( rp != r || plain != observed ) {
         viol( "observed-vs-plain", g, c, s, "under state_control the run ends with " + std::to_string( r ) + " [" + observed + "], the plain parse with " + std::to_string( rp ) + " [" + plain + "]: " + show( log ) );
      }
      // a nested level in the escaping exception <=> a raise_nested hook was reported for it
      std::size_t levels = 0, nested_hooks = 0;
      for( std::size_t i = 0; ( i = plain.find( " <- ", i ) ) != std::string::npos; i += 4 ) {
         ++levels;
      }
      for( const auto& e : log ) {
         nested_hooks += ( e.k == 'G' );
      }
      if( rp == 2 && nested_hooks < levels ) {
         viol( "nested", g, c, s, "the escaping exception has " + std::to_string( levels ) + " nested level(s) but only " + std::to_string( nested_hooks ) + " raise_nested hook(s) were reported: " + show( log ) );
      }
   }
   // P3 + P4 coverage
   {
      coverage_result cov;
      int rc;
      memory_input<> in( s.data(), s.data() + s.size(), "c08" );
      try {
         rc = coverage< G, Act, Ctl >( in, cov ) ? 1 : 0;
      }
      catch( const std::exception& ) {
         rc = 2;
      }
      if( rc != r ) {
         viol( "coverage", g, c, s, "coverage() result " + std::to_string( rc ) + " differs from the observed parse " + std::to_string( r ) );
      }
      std::map< std::string_view, coverage_info > mine;
      std::map< std::pair< std::string_view, std::string_view >, coverage_info > mineb;
      std::vector< std::string_view > stack;
      for( const auto& e : log ) {
         if( e.k == 'S' ) {
            ++mine[ e.rule ].start;
            if( !stack.empty() ) {
               ++mineb[ { stack.back(), e.rule } ].start;
            }
            stack.push_back( e.rule );
         }
         else if( e.k == 'O' || e.k == 'F' || e.k == 'U' ) {
            if( stack.empty() ) {
               break;
            }
            stack.pop_back();
            coverage_info& ci = mine[ e.rule ];
            ( e.k == 'O' ? ci.success : ( e.k == 'F' ? ci.failure : ci.unwind ) )++;
            if( !stack.empty() ) {
               coverage_info& cb = mineb[ { stack.back(), e.rule } ];
               ( e.k == 'O' ? cb.success : ( e.k == 'F' ? cb.failure : cb.unwind ) )++;
            }
         }
      }
      for( const auto& [ name, en ] : cov ) {
         if( en.start != en.success + en.failure + en.unwind ) {
            viol( "coverage", g, c, s, "rule " + std::string( name ) + ": start=" + std::to_string( en.start ) + " success+failure+unwind=" + std::to_string( en.success + en.failure + en.unwind ) );
         }
         const coverage_info& m = mine[ name ];
         if( !bad && ( m.start != en.start || m.success != en.success || m.failure != en.failure || m.unwind != en.unwind ) ) {
            viol( "coverage", g, c, s, "rule " + std::string( name ) + ": coverage counters differ from the observer's log of the same run" );
         }
         for( const auto& [ bname, bi ] : en.branches ) {
            if( bi.start != bi.success + bi.failure + bi.unwind ) {
               viol( "coverage", g, c, s, "branch " + std::string( name ) + " -> " + std::string( bname ) + ": start=" + std::to_string( bi.start ) + " closed=" + std::to_string( bi.success + bi.failure + bi.unwind ) );
            }
            const coverage_info& mb = mineb[ { name, bname } ];
            if( !bad && ( mb.start != bi.start || mb.success != bi.success || mb.failure != bi.failure || mb.unwind != bi.unwind ) ) {
               viol( "coverage", g, c, s, "branch " + std::string( name ) + " -> " + std::string( bname ) + ": counters differ from the observer's log" );
            }
         }
      }
   }
   // P5 the same run from a destructor during stack unwinding
   {
      std::vector< ev > log2;
      int r2 = -1;
      try {
         in_dtor< G, Act, Ctl > d{ s, log2, r2 };
         throw std::runtime_error( "unrelated" );
      }
      catch( const std::runtime_error& ) {
      }
      bool same = ( r2 == r ) && ( log2.size() == log.size() );
      for( std::size_t i = 0; same && i < log.size(); ++i ) {
         same = ( log[ i ].k == log2[ i ].k ) && ( log[ i ].rule == log2[ i ].rule );
      }
      if( !same ) {
         viol( "dtor", g, c, s, "a parse started from a destructor during stack unwinding sees different hooks: " + show( log2 ) + " instead of " + show( log ) );
      }
   }
   // P6 the same grammar through a buffer_input that is too small (maximum 2, Chunk 1, one byte per read, nothing discarded):
   //    std::overflow_error is thrown from INSIDE an atomic rule (in.size() / require()); the observer must still see every
   //    started attempt closed, the innermost one by unwind
   {
      obs o;
      bool threw = false;
      try {
         buffer_input< byte_reader, eol::lf_crlf, std::string, 1 > in( "c08", 2, s.data(), s.data() + s.size() );
         (void)parse< G, Act, state_control< Ctl >::template type >( in, o );
      }
      catch( const std::exception& ) {
         threw = true;
      }
      n_events += o.log.size();
      const std::string why = dyck( o.log );
      if( !why.empty() ) {
         viol( "buffer", g, c, s, std::string( threw ? "overflow_error out of an atomic rule: " : "small buffer: " ) + why + ": " + show( o.log ) );
      }
   }
}

// P9 contrib/control_action.hpp: an action with the control-like hooks start / success / failure ( / unwind ) sees, for its own
// rule, start followed by exactly one closing hook, nested like a call stack - with and without an unwind() member
static std::vector< std::pair< char, int > > g_ca;
template< int Id, bool Unwind >
struct ca_log : control_action
{
   template< typename In, typename... St > static void start( const In&, St&&... ) { g_ca.emplace_back( 'S', Id ); }
   template< typename In, typename... St > static void success( const In&, St&&... ) { g_ca.emplace_back( 'O', Id ); }
   template< typename In, typename... St > static void failure( const In&, St&&... ) { g_ca.emplace_back( 'F', Id ); }
};
template< int Id >
struct ca_log< Id, true > : ca_log< Id, false >
{
   template< typename In, typename... St > static void unwind( const In&, St&&... ) { g_ca.emplace_back( 'U', Id ); }
};
template< bool Unwind >
struct ca_fam
{
   template< typename Rule > struct act : nothing< Rule > {};
};
#define CA_RULE( R, ID ) \
   template<> template<> struct ca_fam< true >::act< R > : ca_log< ID, true > {}; \
   template<> template<> struct ca_fam< false >::act< R > : ca_log< ID, false > {};
CA_RULE( g0::A, 1 )
CA_RULE( g0::B, 2 )
CA_RULE( g1::K, 3 )
CA_RULE( g1::V, 4 )
CA_RULE( g2::N, 5 )
CA_RULE( g3::N, 6 )
CA_RULE( g3::T, 7 )
CA_RULE( g4::P, 8 )
CA_RULE( g4::E, 9 )
CA_RULE( g5::N, 10 )
CA_RULE( g5::M, 11 )
CA_RULE( g6::N, 12 )
CA_RULE( g6::Q, 13 )
CA_RULE( g8::N, 14 )
CA_RULE( g8::T, 15 )
#undef CA_RULE

template< typename G, bool Unwind >
static void control_action_case( const int g, const std::string& s )
{
   ++n_cases;
   g_ca.clear();
   int r;
   memory_input<> in( s.data(), s.data() + s.size(), "c08" );
   try {
      r = parse< G, ca_fam< Unwind >::template act >( in ) ? 1 : 0;
   }
   catch( const std::exception& ) {
      r = 2;
   }
   n_events += g_ca.size();
   std::vector< int > st;
   std::string shown;
   for( const auto& e : g_ca ) {
      shown += std::string( 1, e.first ) + std::to_string( e.second ) + " ";
   }
   for( const auto& e : g_ca ) {
      if( e.first == 'S' ) {
         st.push_back( e.second );
      }
      else {
         if( st.empty() || st.back() != e.second ) {
            viol( "control_action", g, Unwind ? 5 : 6, s, std::string( "closing hook " ) + e.first + " of action " + std::to_string( e.second ) + " does not close its innermost open start: " + shown );
            return;
         }
         st.pop_back();
      }
   }
   // without unwind() an exception legitimately leaves starts open; with unwind() (and for runs without exception) nothing may stay open
   if( !st.empty() && ( Unwind || r != 2 ) ) {
      viol( "control_action", g, Unwind ? 5 : 6, s, std::to_string( st.size() ) + " start hook(s) of control_action actions never closed (result " + std::to_string( r ) + "): " + shown );
   }
}

// P10 a state injected for a part of the grammar by an action's match() handing a TEMPORARY to tao::pegtl::match<>() (the idiom
// of contrib/trace.hpp), observed by a control whose hooks take that state as a plain lvalue reference: every rule started
// with the journal is closed on it - the scoped rule itself included, by unwind when an exception passes through
struct journal
{
   std::vector< ev >* log;
};
static std::vector< ev > g_jl;
template< typename Rule >
struct journal_control : normal< Rule >
{
   using normal< Rule >::start;
   using normal< Rule >::success;
   using normal< Rule >::failure;
   template< typename In > static void start( const In&, journal& j ) { j.log->push_back( { 'S', demangle< Rule >() } ); }
   template< typename In > static void success( const In&, journal& j ) { j.log->push_back( { 'O', demangle< Rule >() } ); }
   template< typename In > static void failure( const In&, journal& j ) { j.log->push_back( { 'F', demangle< Rule >() } ); }
   template< typename In > static void unwind( const In&, journal& j ) { j.log->push_back( { 'U', demangle< Rule >() } ); }
};
struct inject : maybe_nothing
{
   template< typename Rule, apply_mode A, rewind_mode M, template< typename... > class Action, template< typename... > class Control, typename In, typename... St >
   [[nodiscard]] static bool match( In& in, St&&... st )
   {
      return tao::pegtl::match< Rule, A, M, Action, Control >( in, st..., journal{ &g_jl } );
   }
};
template< typename Rule > struct act_inject : nothing< Rule > {};
template<> struct act_inject< g2::G > : inject {};
template<> struct act_inject< g3::T > : inject {};
template<> struct act_inject< g5::M > : inject {};
template<> struct act_inject< g8::T > : inject {};

template< typename G >
static void injected_state_case( const int g, const std::string& s )
{
   ++n_cases;
   g_jl.clear();
   memory_input<> in( s.data(), s.data() + s.size(), "c08" );
   try {
      (void)parse< G, act_inject, journal_control >( in );
   }
   catch( const std::exception& ) {
   }
   n_events += g_jl.size();
   const std::string why = dyck( g_jl );
   if( !why.empty() ) {
      viol( "injected-state", g, 7, s, "log of the control observing a state injected as a temporary: " + why + ": " + show( g_jl ) );
   }
}

// P7 a user control WITH unwind() wrapped by state_control: its own log is a Dyck word as well (in particular no unwind for a
//    rule it never saw start, e.g. the hidden internal::must< R > below must< A, B >)
template< typename G >
static void wrapped_unwind( const int g, const std::string& s )
{
   ++n_cases;
   g_uw.clear();
   std::vector< ev > log;
   (void)run_observed< G, act_none, uw_control >( s, log );
   n_events += g_uw.size();
   const std::string why = dyck( g_uw );
   if( !why.empty() ) {
      viol( "wrapped", g, 4, s, "log of the control wrapped by state_control: " + why + ": " + show( g_uw ) );
   }
   const std::string why2 = dyck( log );
   if( !why2.empty() ) {
      viol( "wrapped", g, 4, s, "observer log with a wrapped control that has unwind(): " + why2 + ": " + show( log ) );
   }
}

template< typename G >
static void all_cfgs( const int g, const std::string& s )
{
   wrapped_unwind< G >( g, s );
   injected_state_case< G >( g, s );
   control_action_case< G, true >( g, s );
   control_action_case< G, false >( g, s );
   one_case< G, act_none, normal >( g, 0, s );
   one_case< G, act_veto, normal >( g, 1, s );
   one_case< G, act_void, mi_control >( g, 2, s );
   one_case< G, act_veto, mi_control >( g, 3, s );
}

int main( int argc, char** argv )
{
   const int maxlen = argc > 1 ? std::atoi( argv[ 1 ] ) : 4;
   std::vector< std::string > ins{ "" };
   std::vector< std::string > cur{ "" };
   for( int l = 0; l < maxlen; ++l ) {
      std::vector< std::string > nx;
      for( const auto& p : cur ) {
         for( char ch : { 'a', 'b', 'c' } ) {
            nx.push_back( p + ch );
         }
      }
      ins.insert( ins.end(), nx.begin(), nx.end() );
      cur = std::move( nx );
   }
   for( const auto& s : ins ) {
      all_cfgs< g0::G >( 0, s );
      all_cfgs< g1::G >( 1, s );
      all_cfgs< g2::G >( 2, s );
      all_cfgs< g3::G >( 3, s );
      all_cfgs< g4::G >( 4, s );
      all_cfgs< g5::G >( 5, s );
      all_cfgs< g6::G >( 6, s );
      all_cfgs< g7::G >( 7, s );
      all_cfgs< g8::G >( 8, s );
   }
   std::printf( "DONE %lu %lu %lu\n", n_cases, n_events, n_viol );
   return 0;
}
