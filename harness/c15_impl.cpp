// c15_impl.cpp - implementation side of the C15 correspondence (contrib/integer.hpp).
//
//   c15_impl list            -> one line "w max" per instantiated maximum_rule< uintW_t, max >
//   c15_impl run <casefile>  -> one result line per case line
//
// case line:    KIND W MAX HEX        (HEX = input bytes in hex, "-" = empty input)
//               ACC MAX               (accumulate_digit< uint8_t, MAX > for all r in 0..255, c in 0..9)
// result line:  RES B:L:C ST [@B:L:C] [OOB]
//   RES  T | F | X:integer | X:unsigned | X:signed   (parse_error message)
//   B:L:C  position of the input after the call (byte:line:column; byte = bytes consumed)
//   ST   content of the state variable afterwards (initial value 77)
//   @..  position carried by the exception
//   OOB  the rule read or bumped outside [current,end) (checked input, normal build only)
//
// KINDs (state type uintW_t / intW_t, rewind_mode::required everywhere):
//   U0  unsigned_rule                         UA  unsigned_rule + unsigned_action
//   UWA unsigned_rule_with_action (action)    UWN unsigned_rule_with_action (apply_mode::nothing)
//   MR  maximum_rule< T, MAX >                MRA maximum_rule< T, MAX > + maximum_action< T, MAX >
//   UMA unsigned_rule + maximum_action< T, MAX >
//   MWA maximum_rule_with_action< T, MAX > (action)   MWN the same with apply_mode::nothing
//   S0  signed_rule                           SA  signed_rule + signed_action
//   SWA signed_rule_with_action (action)      SWN signed_rule_with_action (apply_mode::nothing)
//
// Every case runs on its own heap buffer. Normal build: a memory_input subclass checks every
// peek/bump against the logical end (the allocation has a 16-byte tail of '9' so that an
// over-read is harmless and deterministic). -DC15_SANITIZE: plain memory_input on an exact-size
// `new char[n]`, for AddressSanitizer / UBSan.

#include <cstdint>
#include <cstdio>
#include <cstring>
#include <fstream>
#include <functional>
#include <iostream>
#include <map>
#include <string>
#include <utility>
#include <vector>

#include <tao/pegtl.hpp>
#include <tao/pegtl/contrib/integer.hpp>

namespace pegtl = TAO_PEGTL_NAMESPACE;

static bool g_oob = false;

using base_input = pegtl::memory_input< pegtl::tracking_mode::eager, pegtl::eol::lf_crlf, const char* >;

#if defined( C15_SANITIZE )
using input_t = base_input;
static constexpr std::size_t tail = 0;
#else
struct checked_input
   : base_input
{
   using base_input::base_input;

   [[nodiscard]] char peek_char( const std::size_t offset = 0 ) const noexcept
   {
      if( offset >= std::size_t( this->end() - this->current() ) ) {
         g_oob = true;
      }
      return this->current()[ offset ];
   }

   [[nodiscard]] std::uint8_t peek_uint8( const std::size_t offset = 0 ) const noexcept
   {
      return static_cast< std::uint8_t >( peek_char( offset ) );
   }

   void bump( const std::size_t n = 1 ) noexcept
   {
      if( n > std::size_t( this->end() - this->current() ) ) {
         g_oob = true;
      }
      base_input::bump( n );
   }

   void bump_in_this_line( const std::size_t n = 1 ) noexcept
   {
      if( n > std::size_t( this->end() - this->current() ) ) {
         g_oob = true;
      }
      base_input::bump_in_this_line( n );
   }

   void bump_to_next_line( const std::size_t n = 1 ) noexcept
   {
      if( n > std::size_t( this->end() - this->current() ) ) {
         g_oob = true;
      }
      base_input::bump_to_next_line( n );
   }
};
using input_t = checked_input;
static constexpr std::size_t tail = 16;
#endif

template< typename T >
std::string show( const T v )
{
   if constexpr( std::is_signed_v< T > ) {
      return std::to_string( static_cast< long long >( v ) );
   }
   else {
      return std::to_string( static_cast< unsigned long long >( v ) );
   }
}

static std::string show_pos( const pegtl::position& p )
{
   return std::to_string( p.byte ) + ":" + std::to_string( p.line ) + ":" + std::to_string( p.column );
}

static std::string g_out;

template< typename Rule, template< typename... > class Action, pegtl::apply_mode A, typename State >
void run( const std::string& data )
{
   const std::size_t n = data.size();
   char* buf = new char[ n + tail ];
   if( n != 0 ) {
      std::memcpy( buf, data.data(), n );
   }
   std::memset( buf + n, '9', tail );
   g_oob = false;
   {
      input_t in( buf, buf + n, "c15" );
      State st = 77;
      std::string line;
      try {
         const bool r = pegtl::parse< Rule, Action, pegtl::normal, A, pegtl::rewind_mode::required >( in, st );
         line = std::string( r ? "T " : "F " ) + show_pos( in.position() ) + " " + show( st );
      }
      catch( const pegtl::parse_error& e ) {
         std::string m( e.message() );
         if( m == "integer overflow" ) {
            m = "integer";
         }
         else if( m == "unsigned integer overflow" ) {
            m = "unsigned";
         }
         else if( m == "signed integer overflow" ) {
            m = "signed";
         }
         for( char& ch : m ) {
            if( ch == ' ' ) {
               ch = '_';
            }
         }
         line = "X:" + m + " " + show_pos( in.position() ) + " " + show( st ) + " @" + show_pos( e.position_object() );
      }
      if( g_oob ) {
         line += " OOB";
      }
      g_out += line;
      g_out += '\n';
   }
   delete[] buf;
}

// ---------------------------------------------------------------- actions attached from outside

template< typename Rule >
struct act_unsigned : pegtl::nothing< Rule > {};
template<>
struct act_unsigned< pegtl::unsigned_rule > : pegtl::unsigned_action {};

template< typename Rule >
struct act_signed : pegtl::nothing< Rule > {};
template<>
struct act_signed< pegtl::signed_rule > : pegtl::signed_action {};

using fn_t = void ( * )( const std::string& );
static std::map< std::string, fn_t >& table()
{
   static std::map< std::string, fn_t > t;
   return t;
}
static std::vector< std::pair< int, std::string > >& maxima()
{
   static std::vector< std::pair< int, std::string > > v;
   return v;
}

static std::string strip_suffix( std::string s )
{
   while( !s.empty() && ( s.back() == 'U' || s.back() == 'L' ) ) {
      s.pop_back();
   }
   return s;
}

// one block per ( width, maximum ): the action templates have to live at namespace scope
#define C15_MAX( W, M )                                                                                                          \
   template< typename Rule >                                                                                                     \
   struct mact_##W##_##M : pegtl::nothing< Rule > {};                                                                            \
   template<>                                                                                                                    \
   struct mact_##W##_##M< pegtl::maximum_rule< std::uint##W##_t, M > > : pegtl::maximum_action< std::uint##W##_t, M > {};        \
   template<>                                                                                                                    \
   struct mact_##W##_##M< pegtl::unsigned_rule > : pegtl::maximum_action< std::uint##W##_t, M > {};                              \
   static const bool reg_##W##_##M = [] {                                                                                        \
      using T = std::uint##W##_t;                                                                                                \
      const std::string k = std::string( " " #W " " ) + strip_suffix( #M );                                                      \
      maxima().emplace_back( W, strip_suffix( #M ) );                                                                            \
      table()[ "MR" + k ] = &run< pegtl::maximum_rule< T, M >, pegtl::nothing, pegtl::apply_mode::action, T >;                   \
      table()[ "MRA" + k ] = &run< pegtl::maximum_rule< T, M >, mact_##W##_##M, pegtl::apply_mode::action, T >;                  \
      table()[ "UMA" + k ] = &run< pegtl::unsigned_rule, mact_##W##_##M, pegtl::apply_mode::action, T >;                         \
      table()[ "MWA" + k ] = &run< pegtl::maximum_rule_with_action< T, M >, pegtl::nothing, pegtl::apply_mode::action, T >;      \
      table()[ "MWN" + k ] = &run< pegtl::maximum_rule_with_action< T, M >, pegtl::nothing, pegtl::apply_mode::nothing, T >;     \
      return true;                                                                                                               \
   }();

// Maximum values around powers of ten, around Max/10 boundaries and at the type limits
C15_MAX( 8, 0 )
C15_MAX( 8, 1 )
C15_MAX( 8, 9 )
C15_MAX( 8, 10 )
C15_MAX( 8, 11 )
C15_MAX( 8, 25 )
C15_MAX( 8, 26 )
C15_MAX( 8, 99 )
C15_MAX( 8, 100 )
C15_MAX( 8, 101 )
C15_MAX( 8, 127 )
C15_MAX( 8, 128 )
C15_MAX( 8, 200 )
C15_MAX( 8, 249 )
C15_MAX( 8, 250 )
C15_MAX( 8, 251 )
C15_MAX( 8, 252 )
C15_MAX( 8, 253 )
C15_MAX( 8, 254 )
C15_MAX( 8, 255 )

C15_MAX( 16, 0 )
C15_MAX( 16, 9 )
C15_MAX( 16, 10 )
C15_MAX( 16, 99 )
C15_MAX( 16, 100 )
C15_MAX( 16, 255 )
C15_MAX( 16, 256 )
C15_MAX( 16, 999 )
C15_MAX( 16, 1000 )
C15_MAX( 16, 1001 )
C15_MAX( 16, 6553 )
C15_MAX( 16, 6554 )
C15_MAX( 16, 9999 )
C15_MAX( 16, 10000 )
C15_MAX( 16, 10001 )
C15_MAX( 16, 32767 )
C15_MAX( 16, 32768 )
C15_MAX( 16, 60000 )
C15_MAX( 16, 65529 )
C15_MAX( 16, 65530 )
C15_MAX( 16, 65534 )
C15_MAX( 16, 65535 )

C15_MAX( 32, 0 )
C15_MAX( 32, 9 )
C15_MAX( 32, 10 )
C15_MAX( 32, 65535 )
C15_MAX( 32, 65536 )
C15_MAX( 32, 429496729 )
C15_MAX( 32, 429496730 )
C15_MAX( 32, 999999999 )
C15_MAX( 32, 1000000000 )
C15_MAX( 32, 1000000001 )
C15_MAX( 32, 2147483647 )
C15_MAX( 32, 2147483648 )
C15_MAX( 32, 4294967289 )
C15_MAX( 32, 4294967290 )
C15_MAX( 32, 4294967294 )
C15_MAX( 32, 4294967295 )

C15_MAX( 64, 0 )
C15_MAX( 64, 9 )
C15_MAX( 64, 10 )
C15_MAX( 64, 4294967295 )
C15_MAX( 64, 4294967296 )
C15_MAX( 64, 1844674407370955161ULL )
C15_MAX( 64, 1844674407370955162ULL )
C15_MAX( 64, 9223372036854775807ULL )
C15_MAX( 64, 9223372036854775808ULL )
C15_MAX( 64, 9999999999999999999ULL )
C15_MAX( 64, 10000000000000000000ULL )
C15_MAX( 64, 10000000000000000001ULL )
C15_MAX( 64, 18446744073709551609ULL )
C15_MAX( 64, 18446744073709551610ULL )
C15_MAX( 64, 18446744073709551614ULL )
C15_MAX( 64, 18446744073709551615ULL )

template< typename U, typename S >
void reg_width( const std::string& w )
{
   const std::string k = " " + w + " 0";
   table()[ "U0" + k ] = &run< pegtl::unsigned_rule, pegtl::nothing, pegtl::apply_mode::action, U >;
   table()[ "UA" + k ] = &run< pegtl::unsigned_rule, act_unsigned, pegtl::apply_mode::action, U >;
   table()[ "UWA" + k ] = &run< pegtl::unsigned_rule_with_action, pegtl::nothing, pegtl::apply_mode::action, U >;
   table()[ "UWN" + k ] = &run< pegtl::unsigned_rule_with_action, pegtl::nothing, pegtl::apply_mode::nothing, U >;
   table()[ "S0" + k ] = &run< pegtl::signed_rule, pegtl::nothing, pegtl::apply_mode::action, S >;
   table()[ "SA" + k ] = &run< pegtl::signed_rule, act_signed, pegtl::apply_mode::action, S >;
   table()[ "SWA" + k ] = &run< pegtl::signed_rule_with_action, pegtl::nothing, pegtl::apply_mode::action, S >;
   table()[ "SWN" + k ] = &run< pegtl::signed_rule_with_action, pegtl::nothing, pegtl::apply_mode::nothing, S >;
}

// ---------------------------------------------------------------- accumulate_digit< uint8_t, M >, all ( r, c )

template< std::uint8_t M >
void acc8()
{
   std::string line;
   for( unsigned r = 0; r < 256; ++r ) {
      for( char c = '0'; c <= '9'; ++c ) {
         std::uint8_t res = static_cast< std::uint8_t >( r );
         if( pegtl::internal::accumulate_digit< std::uint8_t, M >( res, c ) ) {
            line += std::to_string( unsigned( res ) );
         }
         else {
            line += ( res == r ) ? "-" : "!";  // "!" = returned false but modified the result
         }
         line += ',';
      }
   }
   g_out += line;
   g_out += '\n';
}

template< std::size_t... Is >
void acc8_dispatch( const unsigned m, std::index_sequence< Is... > /*unused*/ )
{
   using f_t = void ( * )();
   static const f_t fs[] = { &acc8< static_cast< std::uint8_t >( Is ) >... };
   fs[ m ]();
}

static std::string unhex( const std::string& h )
{
   if( h == "-" ) {
      return "";
   }
   std::string r;
   for( std::size_t i = 0; i + 1 < h.size(); i += 2 ) {
      r += static_cast< char >( std::stoi( h.substr( i, 2 ), nullptr, 16 ) );
   }
   return r;
}

int main( int argc, char** argv )
{
   reg_width< std::uint8_t, std::int8_t >( "8" );
   reg_width< std::uint16_t, std::int16_t >( "16" );
   reg_width< std::uint32_t, std::int32_t >( "32" );
   reg_width< std::uint64_t, std::int64_t >( "64" );
   const std::string mode = argc > 1 ? argv[ 1 ] : "list";
   if( mode == "list" ) {
      for( const auto& p : maxima() ) {
         std::printf( "%d %s\n", p.first, p.second.c_str() );
      }
      return 0;
   }
   if( argc < 3 ) {
      return 2;
   }
#if defined( C15_SANITIZE )
   const bool flush_each = true;  // a sanitizer abort must not lose completed lines
#else
   const bool flush_each = false;
#endif
   std::ifstream f( argv[ 2 ] );
   std::string kind;
   std::string w;
   std::string mx;
   std::string hex;
   while( f >> kind ) {
      if( kind == "ACC" ) {
         f >> mx;
         acc8_dispatch( unsigned( std::stoul( mx ) ), std::make_index_sequence< 256 >() );
      }
      else {
         f >> w >> mx >> hex;
         const auto it = table().find( kind + " " + w + " " + mx );
         if( it == table().end() ) {
            g_out += "UNKNOWN-KIND\n";
         }
         else {
            it->second( unhex( hex ) );
         }
      }
      if( flush_each || g_out.size() > ( 1u << 16 ) ) {
         std::fwrite( g_out.data(), 1, g_out.size(), stdout );
         g_out.clear();
         if( flush_each ) {
            std::fflush( stdout );
         }
      }
   }
   std::fwrite( g_out.data(), 1, g_out.size(), stdout );
   std::fflush( stdout );
   return 0;
}
