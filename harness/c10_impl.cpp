// c10_impl.cpp — implementation side of the C10 correspondence: runs the REAL PEGTL rules
// (ascii classes, abnf core rules, utf8 / utf16_be/le / utf32_be/le, uint8/16/32/64 incl. mask_*,
// string / istring) on exact-size heap buffers (new char[n], no terminator) through memory_input
// and reports, per (case, rule): result, bytes consumed, and what the rule's own Peek class
// (Rule::peek_t::peek) returned.
//
//   c10_impl --rules                 print "RULE <family> <idx> <surface text> | <dump of rule_t>"
//   c10_impl [-v] <specfile>         one digest line per spec line (or, with -v, one line per case)
//
// spec line:   <family> <rulesel> pp <alphabet_1> ... <alphabet_n>   (alphabet: all | hex:AABB..;
//                                                  all byte strings b_1..b_n with b_i in alphabet_i)
//              <family> <rulesel> file <path>            (one hex byte string per line, '-' = empty)
// rulesel:     all | i,j,k (rule indices within the family)
// digest line: D <specindex> <cases> <nonzero records> <D1> <D2> <guarded out-of-bounds accesses in this spec>
//   every (case i, selected rule j) yields words; word number k (global running index within the
//   spec) contributes (k+1)*word to D1 (mod 2^31-1) and to D2 (mod 2^31-19).
#include <cstddef>
namespace c10
{
   inline long& oob_count()
   {
      static long n = 0;
      return n;
   }
   inline void access( const char* /*what*/, const std::size_t need, const std::ptrdiff_t have ) noexcept
   {
      if( ( have < 0 ) || ( need > std::size_t( have ) ) ) {
         ++oob_count();
      }
   }
}  // namespace c10
#define TAO_PEGTL_VERIF_ACCESS( what, need, have ) ::c10::access( what, need, have )

#include <tao/pegtl.hpp>
#include <tao/pegtl/contrib/abnf.hpp>
#include <tao/pegtl/contrib/uint16.hpp>
#include <tao/pegtl/contrib/uint32.hpp>
#include <tao/pegtl/contrib/uint64.hpp>
#include <tao/pegtl/contrib/uint8.hpp>
#include <tao/pegtl/contrib/utf16.hpp>
#include <tao/pegtl/contrib/utf32.hpp>

#include <cstdint>
#include <cstdio>
#include <cstring>
#include <fstream>
#include <iostream>
#include <sstream>
#include <string>
#include <type_traits>
#include <vector>

namespace pegtl = tao::pegtl;
namespace I = tao::pegtl::internal;

// ---------------------------------------------------------------- dump of rule_t (translator)
template< typename P > struct dpeek { static std::string str() { return "unknownpeek"; } };
template<> struct dpeek< I::peek_char > { static std::string str() { return "char"; } };
template<> struct dpeek< I::peek_utf8 > { static std::string str() { return "utf8"; } };
template<> struct dpeek< I::peek_uint8 > { static std::string str() { return "uint8"; } };
template< std::uint8_t M > struct dpeek< I::peek_mask_uint8< M > > { static std::string str() { return "mask8:" + std::to_string( unsigned( M ) ); } };
template<> struct dpeek< I::peek_uint16_be > { static std::string str() { return "uint:2:be"; } };
template<> struct dpeek< I::peek_uint16_le > { static std::string str() { return "uint:2:le"; } };
template<> struct dpeek< I::peek_uint32_be > { static std::string str() { return "uint:4:be"; } };
template<> struct dpeek< I::peek_uint32_le > { static std::string str() { return "uint:4:le"; } };
template<> struct dpeek< I::peek_uint64_be > { static std::string str() { return "uint:8:be"; } };
template<> struct dpeek< I::peek_uint64_le > { static std::string str() { return "uint:8:le"; } };
template< std::uint16_t M > struct dpeek< I::peek_mask_uint_impl< I::read_uint16_be, M > > { static std::string str() { return "mask:2:be:" + std::to_string( M ); } };
template< std::uint16_t M > struct dpeek< I::peek_mask_uint_impl< I::read_uint16_le, M > > { static std::string str() { return "mask:2:le:" + std::to_string( M ); } };
template< std::uint32_t M > struct dpeek< I::peek_mask_uint_impl< I::read_uint32_be, M > > { static std::string str() { return "mask:4:be:" + std::to_string( M ); } };
template< std::uint32_t M > struct dpeek< I::peek_mask_uint_impl< I::read_uint32_le, M > > { static std::string str() { return "mask:4:le:" + std::to_string( M ); } };
template< std::uint64_t M > struct dpeek< I::peek_mask_uint_impl< I::read_uint64_be, M > > { static std::string str() { return "mask:8:be:" + std::to_string( M ); } };
template< std::uint64_t M > struct dpeek< I::peek_mask_uint_impl< I::read_uint64_le, M > > { static std::string str() { return "mask:8:le:" + std::to_string( M ); } };
template<> struct dpeek< I::peek_utf16_be > { static std::string str() { return "utf16:be"; } };
template<> struct dpeek< I::peek_utf16_le > { static std::string str() { return "utf16:le"; } };
template<> struct dpeek< I::peek_utf32_be > { static std::string str() { return "utf32:be"; } };
template<> struct dpeek< I::peek_utf32_le > { static std::string str() { return "utf32:le"; } };

template< typename T >
std::string pv( const T v )
{
   if constexpr( std::is_same_v< T, char > ) {
      return std::to_string( int( static_cast< signed char >( v ) ) );   // C `char` as the signed value it has on this platform
   }
   else if constexpr( std::is_same_v< T, char32_t > ) {
      return std::to_string( static_cast< std::uint32_t >( v ) );
   }
   else {
      return std::to_string( static_cast< std::uint64_t >( v ) );
   }
}
template< typename T, T... Vs >
std::string pvs()
{
   std::string s;
   ( ( s += ' ', s += pv< T >( Vs ) ), ... );
   return s;
}

template< typename T > struct describe { static std::string str() { return "unknown"; } };
template<> struct describe< I::success > { static std::string str() { return "success"; } };
template<> struct describe< I::failure > { static std::string str() { return "failure"; } };
template< typename P > struct describe< I::any< P > > { static std::string str() { return "any " + dpeek< P >::str(); } };
template< I::result_on_found R, typename P, typename P::data_t... Cs >
struct describe< I::one< R, P, Cs... > > { static std::string str() { return std::string( "one " ) + ( static_cast< bool >( R ) ? "1 " : "0 " ) + dpeek< P >::str() + pvs< typename P::data_t, Cs... >(); } };
template< I::result_on_found R, typename P, typename P::data_t Lo, typename P::data_t Hi >
struct describe< I::range< R, P, Lo, Hi > > { static std::string str() { return std::string( "range " ) + ( static_cast< bool >( R ) ? "1 " : "0 " ) + dpeek< P >::str() + pvs< typename P::data_t, Lo, Hi >(); } };
template< typename P, typename P::data_t... Cs >
struct describe< I::ranges< P, Cs... > > { static std::string str() { return "ranges " + dpeek< P >::str() + pvs< typename P::data_t, Cs... >(); } };
template< char... Cs > struct describe< I::string< Cs... > > { static std::string str() { return "string" + pvs< unsigned char, static_cast< unsigned char >( Cs )... >(); } };
template< char... Cs > struct describe< I::istring< Cs... > > { static std::string str() { return "istring" + pvs< unsigned char, static_cast< unsigned char >( Cs )... >(); } };

// ---------------------------------------------------------------- one observation
struct rec
{
   unsigned ok = 0;
   std::uint64_t consumed = 0;
   std::uint64_t psize = 0;
   std::uint64_t pdata = 0;     // two's complement of the data (char: sign-extended)
   bool pneg = false;
};

using input_t = pegtl::memory_input< pegtl::tracking_mode::eager, pegtl::eol::lf_crlf, const char* >;

template< typename T, typename = void > struct has_peek : std::false_type {};
template< typename T > struct has_peek< T, std::void_t< typename T::peek_t > > : std::true_type {};

template< typename Rule >
rec observe( const char* buf, const std::size_t n )
{
   rec r;
   {
      input_t in( buf, buf + n, "c10" );
      r.ok = pegtl::parse< Rule >( in ) ? 1 : 0;
      r.consumed = std::uint64_t( in.current() - buf );
   }
   if constexpr( has_peek< Rule >::value ) {
      input_t in( buf, buf + n, "c10" );
      const auto t = Rule::peek_t::peek( in );
      r.psize = t.size;
      using D = typename Rule::peek_t::data_t;
      if constexpr( std::is_same_v< D, char > ) {
         const int v = int( static_cast< signed char >( t.data ) );
         r.pneg = v < 0;
         r.pdata = std::uint64_t( v < 0 ? -v : v );
      }
      else {
         r.pdata = std::uint64_t( t.data );
      }
   }
   return r;
}

struct rule_entry
{
   std::string family;
   std::string text;
   std::string dump;
   rec ( *fn )( const char*, std::size_t );
};

std::vector< rule_entry >& rules()
{
   static std::vector< rule_entry > v;
   return v;
}

template< typename Rule >
void add( const std::string& family, const std::string& text )
{
   rules().push_back( { family, text, describe< typename Rule::rule_t >::str(), &observe< Rule > } );
}

// the surface text is the stringified template-id itself, so it cannot drift from the type
#define R( fam, ns, ... ) add< ns::__VA_ARGS__ >( fam, #__VA_ARGS__ )

// every 8-bit mask: mask_one< M, M & 0xA5, M & 0x3C > and mask_range< M, M & 0x0F, M >; the surface
// text is built from the same constant M that instantiates the rule
template< unsigned M >
void add_all_masks()
{
   constexpr std::uint8_t m = std::uint8_t( M );
   const std::string ms = std::to_string( M );
   add< pegtl::uint8::mask_one< m, std::uint8_t( m & 0xA5 ), std::uint8_t( m & 0x3C ) > >( "uint8m", "mask_one< " + ms + ", " + std::to_string( M & 0xA5 ) + ", " + std::to_string( M & 0x3C ) + " >" );
   add< pegtl::uint8::mask_range< m, std::uint8_t( m & 0x0F ), m > >( "uint8m", "mask_range< " + ms + ", " + std::to_string( M & 0x0F ) + ", " + ms + " >" );
   if constexpr( M < 255 ) {
      add_all_masks< M + 1 >();
   }
}

void register_rules()
{
   // ---- ascii classes (order = class_table of DecodeFacts.v) and parameterised ascii rules
   R( "ascii", pegtl::ascii, alnum );
   R( "ascii", pegtl::ascii, alpha );
   R( "ascii", pegtl::ascii, any );
   R( "ascii", pegtl::ascii, blank );
   R( "ascii", pegtl::ascii, digit );
   R( "ascii", pegtl::ascii, identifier_first );
   R( "ascii", pegtl::ascii, identifier_other );
   R( "ascii", pegtl::ascii, lower );
   R( "ascii", pegtl::ascii, nul );
   R( "ascii", pegtl::ascii, odigit );
   R( "ascii", pegtl::ascii, print );
   R( "ascii", pegtl::ascii, seven );
   R( "ascii", pegtl::ascii, space );
   R( "ascii", pegtl::ascii, upper );
   R( "ascii", pegtl::ascii, xdigit );
   R( "ascii", pegtl, abnf::ALPHA );
   R( "ascii", pegtl, abnf::BIT );
   R( "ascii", pegtl, abnf::CHAR );
   R( "ascii", pegtl, abnf::CR );
   R( "ascii", pegtl, abnf::CTL );
   R( "ascii", pegtl, abnf::DIGIT );
   R( "ascii", pegtl, abnf::DQUOTE );
   R( "ascii", pegtl, abnf::HEXDIG );
   R( "ascii", pegtl, abnf::HTAB );
   R( "ascii", pegtl, abnf::LF );
   R( "ascii", pegtl, abnf::OCTET );
   R( "ascii", pegtl, abnf::SP );
   R( "ascii", pegtl, abnf::VCHAR );
   R( "ascii", pegtl, abnf::WSP );
   R( "ascii", pegtl::ascii, one< 'a', '\n', '~', char( 0xE9 ), char( 0x80 ), char( 0xFF ), char( 0 ) > );
   R( "ascii", pegtl::ascii, not_one< 'a', '\n', char( 0xE9 ), char( 0x7F ) > );
   R( "ascii", pegtl::ascii, range< 'a', 'z' > );
   R( "ascii", pegtl::ascii, range< char( 0x80 ), char( 0xBF ) > );          // signed char: -128 .. -65
   R( "ascii", pegtl::ascii, range< char( 0xF0 ), char( 0x10 ) > );          // -16 .. 16 crosses zero
   R( "ascii", pegtl::ascii, not_range< '0', '9' > );
   R( "ascii", pegtl::ascii, not_range< char( 0x80 ), char( 0xFF ) > );
   R( "ascii", pegtl::ascii, ranges< 'a', 'f', 'A', 'F', '0', '9', '_' > );
   R( "ascii", pegtl::ascii, ranges< char( 0xC0 ), char( 0xDF ), '\t', '\r', char( 0xFF ) > );
   R( "ascii", pegtl::ascii, ranges< 'x' > );
   R( "ascii", pegtl::ascii, ranges< 'p', 'q' > );
   // equal bounds select the one<>-based specialisation of internal::range
   R( "ascii", pegtl::ascii, range< 'm', 'm' > );
   R( "ascii", pegtl::ascii, not_range< 'm', 'm' > );
   R( "ascii", pegtl::ascii, not_range< '\n', '\n' > );
   // empty value lists select the empty-pack specialisations of internal::one ( one<> never matches, not_one<> is any )
   R( "ascii", pegtl::ascii, one<> );
   R( "ascii", pegtl::ascii, not_one<> );

   // ---- strings (exact and case-insensitive)
   R( "string", pegtl::ascii, string< 'a', 'Z', '9', '_' > );
   R( "string", pegtl::ascii, istring< 'a', 'Z', '9', '_' > );
   R( "string", pegtl::ascii, istring< '@', '[', '`', '{' > );
   R( "string", pegtl::ascii, istring< 'k' > );
   R( "string", pegtl::ascii, istring< 'K', 'k' > );
   R( "string", pegtl::ascii, istring< char( 0xC9 ), char( 0xE9 ) > );
   R( "string", pegtl::ascii, istring< 'z', 'A' > );
   R( "string", pegtl::ascii, string< char( 0xC9 ), 'k' > );

   // ---- UTF-8
   R( "utf8", pegtl::utf8, any );
   R( "utf8", pegtl::utf8, bom );
   R( "utf8", pegtl::utf8, one< 0x41, 0xE9, 0x20AC, 0xFFFD, 0x1F600, 0x10FFFF, 0x7F, 0x80, 0x7FF, 0x800, 0xFFFF, 0x10000, 0xD7FF, 0xE000 > );
   R( "utf8", pegtl::utf8, not_one< 0x41, 0x20AC, 0x10FFFF > );
   R( "utf8", pegtl::utf8, range< 0x80, 0x7FF > );
   R( "utf8", pegtl::utf8, range< 0xD000, 0xEFFF > );
   R( "utf8", pegtl::utf8, not_range< 0x800, 0xFFFF > );
   R( "utf8", pegtl::utf8, ranges< 0x00, 0x7F, 0x10000, 0x10FFFF, 0xFEFF > );
   R( "utf8", pegtl::utf8, range< 0x20AC, 0x20AC > );
   R( "utf8", pegtl::utf8, not_range< 0x20AC, 0x20AC > );
   R( "utf8", pegtl::utf8, one<> );
   R( "utf8", pegtl::utf8, not_one<> );

   // ---- UTF-16
   R( "utf16be", pegtl::utf16_be, any );
   R( "utf16be", pegtl::utf16_be, bom );
   R( "utf16be", pegtl::utf16_be, one< 0x41, 0xFFFF, 0x10000, 0x1F600, 0x10FFFF, 0xD7FF, 0xE000 > );
   R( "utf16be", pegtl::utf16_be, not_one< 0x41, 0x10000 > );
   R( "utf16be", pegtl::utf16_be, range< 0xD000, 0xEFFF > );
   R( "utf16be", pegtl::utf16_be, not_range< 0x10000, 0x10FFFF > );
   R( "utf16be", pegtl::utf16_be, ranges< 0x00, 0x7F, 0x10000, 0x103FF, 0xFEFF > );
   R( "utf16be", pegtl::utf16_be, range< 0x10000, 0x10000 > );
   R( "utf16be", pegtl::utf16_be, not_range< 0x1F600, 0x1F600 > );
   R( "utf16be", pegtl::utf16_be, not_one<> );
   R( "utf16le", pegtl::utf16_le, any );
   R( "utf16le", pegtl::utf16_le, bom );
   R( "utf16le", pegtl::utf16_le, one< 0x41, 0xFFFF, 0x10000, 0x1F600, 0x10FFFF, 0xD7FF, 0xE000 > );
   R( "utf16le", pegtl::utf16_le, not_one< 0x41, 0x10000 > );
   R( "utf16le", pegtl::utf16_le, range< 0xD000, 0xEFFF > );
   R( "utf16le", pegtl::utf16_le, not_range< 0x10000, 0x10FFFF > );
   R( "utf16le", pegtl::utf16_le, ranges< 0x00, 0x7F, 0x10000, 0x103FF, 0xFEFF > );

   // ---- UTF-32
   R( "utf32be", pegtl::utf32_be, any );
   R( "utf32be", pegtl::utf32_be, bom );
   R( "utf32be", pegtl::utf32_be, one< 0x41, 0xFFFF, 0x10000, 0x10FFFF, 0xD7FF, 0xE000 > );
   R( "utf32be", pegtl::utf32_be, not_one< 0x41, 0x10000 > );
   R( "utf32be", pegtl::utf32_be, range< 0xD000, 0xEFFF > );
   R( "utf32be", pegtl::utf32_be, not_range< 0x10000, 0x10FFFF > );
   R( "utf32be", pegtl::utf32_be, ranges< 0x00, 0x7F, 0x10000, 0x103FF, 0xFEFF > );
   R( "utf32le", pegtl::utf32_le, any );
   R( "utf32le", pegtl::utf32_le, bom );
   R( "utf32le", pegtl::utf32_le, one< 0x41, 0xFFFF, 0x10000, 0x10FFFF, 0xD7FF, 0xE000 > );
   R( "utf32le", pegtl::utf32_le, not_one< 0x41, 0x10000 > );
   R( "utf32le", pegtl::utf32_le, range< 0xD000, 0xEFFF > );
   R( "utf32le", pegtl::utf32_le, not_range< 0x10000, 0x10FFFF > );
   R( "utf32le", pegtl::utf32_le, ranges< 0x00, 0x7F, 0x10000, 0x103FF, 0xFEFF > );
   R( "utf32le", pegtl::utf32_le, range< 0x41, 0x41 > );
   R( "utf32le", pegtl::utf32_le, not_range< 0x10FFFF, 0x10FFFF > );
   R( "utf32le", pegtl::utf32_le, one<> );
   R( "utf32le", pegtl::utf32_le, not_one<> );

   // ---- uint8 (all masks used below are also exercised with every byte value)
   R( "uint8", pegtl::uint8, any );
   R( "uint8", pegtl::uint8, one< 0x00, 0x7F, 0x80, 0xFF > );
   R( "uint8", pegtl::uint8, not_one< 0x0A, 0x80 > );
   R( "uint8", pegtl::uint8, range< 0x10, 0xEF > );
   R( "uint8", pegtl::uint8, not_range< 0x80, 0xFF > );
   R( "uint8", pegtl::uint8, ranges< 0x00, 0x09, 0xF0, 0xFF, 0x80 > );
   R( "uint8", pegtl::uint8, mask_one< 0xF0, 0x00, 0xA0 > );
   R( "uint8", pegtl::uint8, mask_one< 0x0F, 0x0A > );
   R( "uint8", pegtl::uint8, mask_one< 0x00, 0x00 > );
   R( "uint8", pegtl::uint8, mask_one< 0xFF, 0x0A > );
   R( "uint8", pegtl::uint8, mask_one< 0x81, 0x81, 0x01 > );
   R( "uint8", pegtl::uint8, mask_not_one< 0xF0, 0x00, 0xA0 > );
   R( "uint8", pegtl::uint8, mask_not_one< 0x55, 0x55 > );
   R( "uint8", pegtl::uint8, mask_range< 0x0F, 0x03, 0x0C > );
   R( "uint8", pegtl::uint8, mask_range< 0xAA, 0x02, 0xA8 > );
   R( "uint8", pegtl::uint8, mask_not_range< 0x7F, 0x20, 0x7E > );
   R( "uint8", pegtl::uint8, mask_ranges< 0x3C, 0x04, 0x0C, 0x30, 0x38, 0x3C > );
   R( "uint8", pegtl::uint8, range< 0x80, 0x80 > );
   R( "uint8", pegtl::uint8, not_range< 0x80, 0x80 > );
   R( "uint8", pegtl::uint8, mask_range< 0x0F, 0x05, 0x05 > );
   R( "uint8", pegtl::uint8, mask_not_range< 0x0F, 0x05, 0x05 > );
   R( "uint8", pegtl::uint8, one<> );
   R( "uint8", pegtl::uint8, not_one<> );
   R( "uint8", pegtl::uint8, mask_not_one< 0x0F > );

   add_all_masks< 0 >();

   // ---- uint16
   R( "uint16be", pegtl::uint16_be, any );
   R( "uint16be", pegtl::uint16_be, one< 0x0000, 0x00FF, 0x0100, 0x7FFF, 0x8000, 0xFF00, 0xFFFF, 0x1234 > );
   R( "uint16be", pegtl::uint16_be, not_one< 0x0A0D, 0x8000 > );
   R( "uint16be", pegtl::uint16_be, range< 0x00FF, 0xFF00 > );
   R( "uint16be", pegtl::uint16_be, not_range< 0x8000, 0xFFFF > );
   R( "uint16be", pegtl::uint16_be, ranges< 0x0000, 0x00FF, 0xFF00, 0xFFFE, 0x8000 > );
   R( "uint16be", pegtl::uint16_be, mask_one< 0xFF00, 0x1200, 0x0000 > );
   R( "uint16be", pegtl::uint16_be, mask_one< 0x0FF0, 0x0230 > );
   R( "uint16be", pegtl::uint16_be, mask_not_one< 0x00FF, 0x0034 > );
   R( "uint16be", pegtl::uint16_be, mask_range< 0xF00F, 0x1004, 0xE00B > );
   R( "uint16be", pegtl::uint16_be, mask_not_range< 0x7FFF, 0x0100, 0x7F00 > );
   R( "uint16be", pegtl::uint16_be, mask_ranges< 0x8001, 0x0000, 0x0001, 0x8001 > );
   R( "uint16be", pegtl::uint16_be, not_range< 0x1234, 0x1234 > );
   R( "uint16be", pegtl::uint16_be, mask_not_range< 0xFF00, 0x1200, 0x1200 > );
   R( "uint16be", pegtl::uint16_be, one<> );
   R( "uint16be", pegtl::uint16_be, not_one<> );
   R( "uint16le", pegtl::uint16_le, any );
   R( "uint16le", pegtl::uint16_le, one< 0x0000, 0x00FF, 0x0100, 0x7FFF, 0x8000, 0xFF00, 0xFFFF, 0x1234 > );
   R( "uint16le", pegtl::uint16_le, not_one< 0x0A0D, 0x8000 > );
   R( "uint16le", pegtl::uint16_le, range< 0x00FF, 0xFF00 > );
   R( "uint16le", pegtl::uint16_le, not_range< 0x8000, 0xFFFF > );
   R( "uint16le", pegtl::uint16_le, ranges< 0x0000, 0x00FF, 0xFF00, 0xFFFE, 0x8000 > );
   R( "uint16le", pegtl::uint16_le, mask_one< 0xFF00, 0x1200, 0x0000 > );
   R( "uint16le", pegtl::uint16_le, mask_one< 0x0FF0, 0x0230 > );
   R( "uint16le", pegtl::uint16_le, mask_not_one< 0x00FF, 0x0034 > );
   R( "uint16le", pegtl::uint16_le, mask_range< 0xF00F, 0x1004, 0xE00B > );
   R( "uint16le", pegtl::uint16_le, mask_not_range< 0x7FFF, 0x0100, 0x7F00 > );
   R( "uint16le", pegtl::uint16_le, mask_ranges< 0x8001, 0x0000, 0x0001, 0x8001 > );

   // ---- uint32
   R( "uint32be", pegtl::uint32_be, any );
   R( "uint32be", pegtl::uint32_be, one< 0x00000000, 0x000000FF, 0x0000FF00, 0x00FF0000, 0xFF000000, 0x7FFFFFFF, 0x80000000, 0xFFFFFFFF, 0x12345678 > );
   R( "uint32be", pegtl::uint32_be, not_one< 0x80000000, 0x00000100 > );
   R( "uint32be", pegtl::uint32_be, range< 0x0000FFFF, 0xFFFF0000 > );
   R( "uint32be", pegtl::uint32_be, not_range< 0x80000000, 0xFFFFFFFF > );
   R( "uint32be", pegtl::uint32_be, ranges< 0x00000000, 0x000000FF, 0xFF000000, 0xFFFFFFFE, 0x80000000 > );
   R( "uint32be", pegtl::uint32_be, mask_one< 0xFFFF0000, 0x12340000, 0x00000000 > );
   R( "uint32be", pegtl::uint32_be, mask_one< 0x00FFFF00, 0x00345600 > );
   R( "uint32be", pegtl::uint32_be, mask_not_one< 0x000000FF, 0x00000078 > );
   R( "uint32be", pegtl::uint32_be, mask_range< 0xFF0000FF, 0x01000002, 0xFE0000FD > );
   R( "uint32be", pegtl::uint32_be, mask_not_range< 0x7FFFFFFF, 0x00000100, 0x7F000000 > );
   R( "uint32be", pegtl::uint32_be, mask_ranges< 0x80000001, 0x00000000, 0x00000001, 0x80000001 > );
   R( "uint32le", pegtl::uint32_le, any );
   R( "uint32le", pegtl::uint32_le, one< 0x00000000, 0x000000FF, 0x0000FF00, 0x00FF0000, 0xFF000000, 0x7FFFFFFF, 0x80000000, 0xFFFFFFFF, 0x12345678 > );
   R( "uint32le", pegtl::uint32_le, not_one< 0x80000000, 0x00000100 > );
   R( "uint32le", pegtl::uint32_le, range< 0x0000FFFF, 0xFFFF0000 > );
   R( "uint32le", pegtl::uint32_le, not_range< 0x80000000, 0xFFFFFFFF > );
   R( "uint32le", pegtl::uint32_le, ranges< 0x00000000, 0x000000FF, 0xFF000000, 0xFFFFFFFE, 0x80000000 > );
   R( "uint32le", pegtl::uint32_le, mask_one< 0xFFFF0000, 0x12340000, 0x00000000 > );
   R( "uint32le", pegtl::uint32_le, mask_one< 0x00FFFF00, 0x00345600 > );
   R( "uint32le", pegtl::uint32_le, mask_not_one< 0x000000FF, 0x00000078 > );
   R( "uint32le", pegtl::uint32_le, mask_range< 0xFF0000FF, 0x01000002, 0xFE0000FD > );
   R( "uint32le", pegtl::uint32_le, mask_not_range< 0x7FFFFFFF, 0x00000100, 0x7F000000 > );
   R( "uint32le", pegtl::uint32_le, mask_ranges< 0x80000001, 0x00000000, 0x00000001, 0x80000001 > );
   R( "uint32le", pegtl::uint32_le, not_range< 0x01020304, 0x01020304 > );
   R( "uint32le", pegtl::uint32_le, mask_range< 0x00FFFF00, 0x00020300, 0x00020300 > );

   // ---- uint64
   R( "uint64be", pegtl::uint64_be, any );
   R( "uint64be", pegtl::uint64_be, one< 0x0000000000000000, 0x00000000000000FF, 0xFF00000000000000, 0x7FFFFFFFFFFFFFFF, 0x8000000000000000, 0xFFFFFFFFFFFFFFFF, 0x0102030405060708, 0x00000000FFFFFFFF, 0x0000000100000000 > );
   R( "uint64be", pegtl::uint64_be, not_one< 0x8000000000000000, 0x0000000000000100 > );
   R( "uint64be", pegtl::uint64_be, range< 0x00000000FFFFFFFF, 0xFFFFFFFF00000000 > );
   R( "uint64be", pegtl::uint64_be, not_range< 0x8000000000000000, 0xFFFFFFFFFFFFFFFF > );
   R( "uint64be", pegtl::uint64_be, ranges< 0x0000000000000000, 0x00000000000000FF, 0xFF00000000000000, 0xFFFFFFFFFFFFFFFE, 0x8000000000000000 > );
   R( "uint64be", pegtl::uint64_be, mask_one< 0xFFFFFFFF00000000, 0x0102030400000000, 0x0000000000000000 > );
   R( "uint64be", pegtl::uint64_be, mask_one< 0x0000FFFFFFFF0000, 0x0000030405060000 > );
   R( "uint64be", pegtl::uint64_be, mask_not_one< 0x00000000000000FF, 0x0000000000000008 > );
   R( "uint64be", pegtl::uint64_be, mask_range< 0xFF000000000000FF, 0x0100000000000002, 0xFE000000000000FD > );
   R( "uint64be", pegtl::uint64_be, mask_not_range< 0x7FFFFFFFFFFFFFFF, 0x0000000000000100, 0x7F00000000000000 > );
   R( "uint64be", pegtl::uint64_be, mask_ranges< 0x8000000000000001, 0x0000000000000000, 0x0000000000000001, 0x8000000000000001 > );
   R( "uint64be", pegtl::uint64_be, not_range< 0x0102030405060708, 0x0102030405060708 > );
   R( "uint64le", pegtl::uint64_le, any );
   R( "uint64le", pegtl::uint64_le, one< 0x0000000000000000, 0x00000000000000FF, 0xFF00000000000000, 0x7FFFFFFFFFFFFFFF, 0x8000000000000000, 0xFFFFFFFFFFFFFFFF, 0x0102030405060708, 0x00000000FFFFFFFF, 0x0000000100000000 > );
   R( "uint64le", pegtl::uint64_le, not_one< 0x8000000000000000, 0x0000000000000100 > );
   R( "uint64le", pegtl::uint64_le, range< 0x00000000FFFFFFFF, 0xFFFFFFFF00000000 > );
   R( "uint64le", pegtl::uint64_le, not_range< 0x8000000000000000, 0xFFFFFFFFFFFFFFFF > );
   R( "uint64le", pegtl::uint64_le, ranges< 0x0000000000000000, 0x00000000000000FF, 0xFF00000000000000, 0xFFFFFFFFFFFFFFFE, 0x8000000000000000 > );
   R( "uint64le", pegtl::uint64_le, mask_one< 0xFFFFFFFF00000000, 0x0102030400000000, 0x0000000000000000 > );
   R( "uint64le", pegtl::uint64_le, mask_one< 0x0000FFFFFFFF0000, 0x0000030405060000 > );
   R( "uint64le", pegtl::uint64_le, mask_not_one< 0x00000000000000FF, 0x0000000000000008 > );
   R( "uint64le", pegtl::uint64_le, mask_range< 0xFF000000000000FF, 0x0100000000000002, 0xFE000000000000FD > );
   R( "uint64le", pegtl::uint64_le, mask_not_range< 0x7FFFFFFFFFFFFFFF, 0x0000000000000100, 0x7F00000000000000 > );
   R( "uint64le", pegtl::uint64_le, mask_ranges< 0x8000000000000001, 0x0000000000000000, 0x0000000000000001, 0x8000000000000001 > );
}

// ---------------------------------------------------------------- digest
constexpr std::uint64_t M1 = 2147483647ULL;   // 2^31-1
constexpr std::uint64_t M2 = 2147483629ULL;   // 2^31-19

struct digest
{
   std::uint64_t k = 0, d1 = 0, d2 = 0, cases = 0, nonzero = 0;
   void word( const std::uint64_t w )
   {
      ++k;
      if( w != 0 ) {
         d1 = ( d1 + ( k % M1 ) * ( w % M1 ) ) % M1;
         d2 = ( d2 + ( k % M2 ) * ( w % M2 ) ) % M2;
      }
   }
   void record( const rec& r )
   {
      // word 0: flags and sizes; words 1..3: 30-bit limbs of |data| (bit 30 of limb 3 = sign)
      const std::uint64_t w0 = r.ok | ( r.consumed << 1 ) | ( r.psize << 6 );
      word( w0 );
      word( r.pdata & 0x3FFFFFFFULL );
      word( ( r.pdata >> 30 ) & 0x3FFFFFFFULL );
      word( ( r.pdata >> 60 ) | ( r.pneg ? 16ULL : 0ULL ) );
      if( w0 != 0 || r.pdata != 0 ) {
         ++nonzero;
      }
   }
};

std::vector< unsigned char > unhex( const std::string& s )
{
   std::vector< unsigned char > v;
   if( s == "-" ) {
      return v;
   }
   for( std::size_t i = 0; i + 1 < s.size(); i += 2 ) {
      v.push_back( static_cast< unsigned char >( std::stoul( s.substr( i, 2 ), nullptr, 16 ) ) );
   }
   return v;
}

std::string tohex( const unsigned char* p, const std::size_t n )
{
   static const char* h = "0123456789ABCDEF";
   if( n == 0 ) {
      return "-";
   }
   std::string s;
   for( std::size_t i = 0; i < n; ++i ) {
      s += h[ p[ i ] >> 4 ];
      s += h[ p[ i ] & 15 ];
   }
   return s;
}

struct runner
{
   std::vector< const rule_entry* > sel;
   bool verbose = false;
   digest dg;

   void one_case( const unsigned char* bytes, const std::size_t n )
   {
      // no terminator.  Normal build: the unit is a window inside a larger buffer whose bytes behind the logical end are
      // adversarial (UTF-8 continuation bytes, a low surrogate, letters), so that a decoder reading past the end through a
      // raw pointer changes its answer; sanitizer build (__SANITIZE_ADDRESS__ / ASan feature): exact size, ASan sees the read.
#if defined( __SANITIZE_ADDRESS__ )
      static const char tailb[] = "";
#elif defined( __has_feature )
#if __has_feature( address_sanitizer )
      static const char tailb[] = "";
#else
      static const char tailb[] = "\xbf\x80\xdc\x00\xbf\x80" "aA";
#endif
#else
      static const char tailb[] = "\xbf\x80\xdc\x00\xbf\x80" "aA";
#endif
      char* buf = new char[ n + sizeof( tailb ) ];
      if( n > 0 ) {
         std::memcpy( buf, bytes, n );
      }
      std::memcpy( buf + n, tailb, sizeof( tailb ) );
      ++dg.cases;
      if( verbose ) {
         const long oob0 = c10::oob_count();
         std::string line = "C " + tohex( bytes, n );
         for( const rule_entry* e : sel ) {
            const rec r = e->fn( buf, n );
            line += ' ';
            char hx[ 32 ];
            std::snprintf( hx, sizeof( hx ), "%llX", (unsigned long long)r.pdata );
            line += std::to_string( r.ok ) + ":" + std::to_string( r.consumed ) + ":" + std::to_string( r.psize ) + ":" + ( r.pneg ? "-" : "" ) + hx;
         }
         if( c10::oob_count() != oob0 ) {
            line += " !oob";      // a guarded input access outside [current,end) happened on this input
         }
         std::puts( line.c_str() );
      }
      else {
         for( const rule_entry* e : sel ) {
            dg.record( e->fn( buf, n ) );
         }
      }
      delete[] buf;
   }
};

int main( int argc, char** argv )
{
   register_rules();
   std::setvbuf( stdout, nullptr, _IOLBF, 0 );   // completed lines survive a sanitizer abort
   bool verbose = false;
   std::string specfile;
   for( int i = 1; i < argc; ++i ) {
      const std::string a = argv[ i ];
      if( a == "--rules" ) {
         int idx = 0;
         std::string fam;
         for( const auto& e : rules() ) {
            if( fam != e.family ) {
               fam = e.family;
               idx = 0;
            }
            std::printf( "RULE %s %d %s | %s\n", e.family.c_str(), idx++, e.text.c_str(), e.dump.c_str() );
         }
         return 0;
      }
      if( a == "-v" ) {
         verbose = true;
      }
      else {
         specfile = a;
      }
   }
   std::ifstream sf( specfile );
   std::string line;
   int specidx = 0;
   while( std::getline( sf, line ) ) {
      if( line.empty() ) {
         continue;
      }
      std::istringstream ss( line );
      std::string family, rulesel, kind;
      ss >> family >> rulesel >> kind;
      runner rn;
      rn.verbose = verbose;
      const long oob_before = c10::oob_count();
      std::vector< const rule_entry* > fam;
      for( const auto& e : rules() ) {
         if( family == e.family ) {
            fam.push_back( &e );
         }
      }
      if( rulesel == "all" ) {
         rn.sel = fam;
      }
      else {
         std::istringstream rs( rulesel );
         std::string tok;
         while( std::getline( rs, tok, ',' ) ) {
            rn.sel.push_back( fam.at( std::stoul( tok ) ) );
         }
      }
      if( verbose ) {
         std::printf( "S %d %s\n", specidx, line.c_str() );
      }
      if( kind == "pp" ) {
         // per-position alphabets; cases in lexicographic order, last position fastest
         std::vector< std::vector< unsigned char > > al;
         std::string alpha;
         while( ss >> alpha ) {
            std::vector< unsigned char > a;
            if( alpha == "all" ) {
               for( int b = 0; b < 256; ++b ) {
                  a.push_back( static_cast< unsigned char >( b ) );
               }
            }
            else {
               a = unhex( alpha.substr( 4 ) );   // hex:....
            }
            al.push_back( a );
         }
         const std::size_t len = al.size();
         std::vector< unsigned char > bytes( len );
         std::vector< std::size_t > ix( len, 0 );
         for( std::size_t i = 0; i < len; ++i ) {
            bytes[ i ] = al[ i ][ 0 ];
         }
         bool done = false;
         while( !done ) {
            rn.one_case( bytes.data(), bytes.size() );
            std::size_t p = len;
            for( ;; ) {
               if( p == 0 ) {
                  done = true;
                  break;
               }
               --p;
               if( ++ix[ p ] < al[ p ].size() ) {
                  bytes[ p ] = al[ p ][ ix[ p ] ];
                  break;
               }
               ix[ p ] = 0;
               bytes[ p ] = al[ p ][ 0 ];
            }
         }
      }
      else if( kind == "file" ) {
         std::string path;
         ss >> path;
         std::ifstream cf( path );
         std::string cl;
         while( std::getline( cf, cl ) ) {
            if( cl.empty() ) {
               continue;
            }
            const std::vector< unsigned char > b = unhex( cl );
            rn.one_case( b.data(), b.size() );
         }
      }
      if( !verbose ) {
         std::printf( "D %d %llu %llu %llu %llu %ld\n", specidx, (unsigned long long)rn.dg.cases, (unsigned long long)rn.dg.nonzero, (unsigned long long)rn.dg.d1, (unsigned long long)rn.dg.d2, c10::oob_count() - oob_before );
      }
      ++specidx;
   }
   if( verbose ) {
      std::printf( "OOB %ld\n", c10::oob_count() );
   }
   return 0;
}
