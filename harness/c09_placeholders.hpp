// c09_placeholders.hpp — opaque placeholder sub-rules for the C09 alias schemas.
// ph1..ph4 are NOT rules (no rule_t / subs_t): vh::dump prints them as `opaque` leaves, so the schema
// tables in coq/gen/AliasC09_gen.v say nothing about them and the theorems quantify over every
// table that puts an arbitrary sub-grammar in their place (EquivBisim.extends).
// padl< R, P >: Rule-Reference.md (list_tail< R, S, P >, second clause) names a rule `padl` that the
// library does not define; it is given the obvious meaning "R padded on the left by any number of P".
#pragma once
#include <tao/pegtl.hpp>
struct ph1 {};
struct ph2 {};
struct ph3 {};
struct ph4 {};
namespace tao::pegtl
{
   template< typename R, typename P > struct padl : seq< star< P >, R > {};
}
