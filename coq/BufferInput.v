(* BufferInput.v — executable model of buffer_input.hpp (the incremental input) next to the
   memory input, for property C07.  Model file: definitions only (proofs: BufferFacts.v).

   Modelled code (as it is NOW, i.e. including fix c67e147 "require keeps reading"):
     buffer_input( source, maximum, reader-args... )   m_maximum = maximum + Chunk, buffer = new char[m_maximum]
     require( amount )   early return / overflow test / read loop
     size( amount ), end( amount ), empty()            = require + observation
     peek_char( offset )                               raw read m_current.data[ offset ]
     bump / bump_in_this_line / bump_to_next_line      internal/bump.hpp on the inputerator
     discard()                                         memmove iff m_current.data > m_buffer + Chunk
     rewind_save() / rewind_restore( it )              copy of the inputerator {data, byte, line, column}
   The reader is any callable  size_t( char* buffer, size_t length )  that may return LESS
   than requested (read()-style) and returns 0 only at the end of the input.

   Not modelled: wrap-around of  m_current.data + amount  for amounts near SIZE_MAX (pointer
   arithmetic; the only library caller is internal::everything with size_t(-1), which is
   documented as "limited by the buffer size" on incremental inputs) — amounts are `nat`. *)
From PegtlV Require Import Base.
From Coq Require Import List Arith PeanoNat.
Import ListNotations.

(* ------------------------------------------------------------------ configuration *)
Record bcfg := mkcfg {
  maxi  : nat;        (* the `maximum` constructor argument *)
  chunk : nat;        (* the Chunk template argument (static_assert( Chunk != 0 )) *)
  eolc  : N           (* Eol::ch, the byte counted as line end by internal::bump *)
}.
Definition cap (c : bcfg) : nat := maxi c + chunk c.      (* m_maximum = maximum + Chunk *)

(* ------------------------------------------------------------------ the reader
   State of the outside world: the bytes not delivered yet and the sizes of the reader's
   future answers.  A call with request q returns
        min( q, max( 1, head of the schedule ), |stream_rest| )
   bytes (a full read once the schedule is exhausted); hence at least one byte while the
   stream is non-empty and q >= 1, and zero only at the end.  Every finite behaviour of a
   legal read()-style reader is some schedule. *)
Record rd := mkrd { stream_rest : list byte; sched : list nat }.

Definition reader_call (q : nat) (r : rd) : list byte * rd :=
  let want := match sched r with [] => q | s :: _ => Nat.max 1 s end in
  let k := Nat.min q (Nat.min want (length (stream_rest r))) in
  (firstn k (stream_rest r), mkrd (skipn k (stream_rest r)) (tl (sched r))).

(* one reader invocation as seen by the buffer: (offset of the region in the buffer,
   length of the region = request, bytes delivered) *)
Definition rcall := (nat * nat * nat)%type.

(* ------------------------------------------------------------------ buffer machine state *)
Record bstate := mkb {
  buf   : list byte;     (* the whole allocation; bytes at offsets >= end_ are stale garbage *)
  cur   : nat;           (* m_current.data - m_buffer.get() *)
  end_  : nat;           (* m_end - m_buffer.get() *)
  bpos  : pos;           (* m_current.{byte,line,column} *)
  epoch : nat;           (* ghost: number of discards that moved data so far *)
  dmark : N;             (* ghost: m_current.byte at the last call of discard() (0 before) *)
  rdr   : rd
}.

(* a saved inputerator: data pointer (as offset), counters, and - ghost - the epoch in
   which the pointer was taken *)
Record biter := mkit { it_off : nat; it_pos : pos; it_epoch : nat }.

Definition occupied (s : bstate) : nat := end_ s - cur s.                 (* buffer_occupied() *)
Definition free_after_end (c : bcfg) (s : bstate) : nat := cap c - end_ s. (* buffer_free_after_end() *)

(* bytes [off, e) of the allocation *)
Definition win (b : list byte) (off e : nat) : list byte := firstn (e - off) (skipn off b).
Definition window (s : bstate) : list byte := win (buf s) (cur s) (end_ s).

(* the reader stores `data` at offset off *)
Definition write_at (off : nat) (data b : list byte) : list byte :=
  firstn off b ++ data ++ skipn (off + length data) b.

(* one iteration body of the loop in require(): call the reader on the free region *)
Definition read_once (c : bcfg) (n : nat) (s : bstate) : bstate * rcall :=
  let q := Nat.min (free_after_end c s) (Nat.max (n - occupied s) (chunk c)) in
  let '(data, r') := reader_call q (rdr s) in
  (mkb (write_at (end_ s) data (buf s)) (cur s) (end_ s + length data)
       (bpos s) (epoch s) (dmark s) r',
   (end_ s, q, length data)).

(*   while( m_current.data + amount > m_end ) {
        const std::size_t r = m_reader( m_end, min( free_after_end, max( amount - occupied, Chunk ) ) );
        if( r == 0 ) break;
        m_end += r;  }
   Recursion on explicit fuel; None = fuel exhausted (shown unreachable in BufferFacts). *)
Fixpoint require_loop (fuel : nat) (c : bcfg) (n : nat) (s : bstate) : option (bstate * list rcall) :=
  if cur s + n <=? end_ s then Some (s, [])
  else match fuel with
       | O => None
       | S f =>
           let '(s1, call) := read_once c n s in
           match snd call with
           | O => Some (s1, [call])                       (* r == 0: end of input *)
           | S _ => match require_loop f c n s1 with
                    | Some (s2, calls) => Some (s2, call :: calls)
                    | None => None
                    end
           end
       end.

Inductive rq := RqOk (s : bstate) (calls : list rcall) | RqOverflow | RqFuel.

Definition require (c : bcfg) (n : nat) (s : bstate) : rq :=
  if cur s + n <=? end_ s then RqOk s []                  (* already buffered *)
  else if cap c <? cur s + n then RqOverflow              (* throw std::overflow_error *)
  else match require_loop (cur s + n - end_ s) c n s with
       | Some (s', calls) => RqOk s' calls
       | None => RqFuel
       end.

(* require() as it was before fix c67e147: a single reader call *)
Definition require_once (c : bcfg) (n : nat) (s : bstate) : rq :=
  if cur s + n <=? end_ s then RqOk s []
  else if cap c <? cur s + n then RqOverflow
  else let '(s1, call) := read_once c n s in RqOk s1 [call].

(*   if( m_current.data > m_buffer.get() + Chunk ) { memmove( buffer, current, s ); current = buffer; end = buffer + s; } *)
Definition discard (c : bcfg) (s : bstate) : bstate * bool :=
  if chunk c <? cur s
  then (mkb (window s ++ skipn (occupied s) (buf s)) 0 (occupied s)
            (bpos s) (S (epoch s)) (pbyte (bpos s)) (rdr s), true)
  else (mkb (buf s) (cur s) (end_ s) (bpos s) (epoch s) (pbyte (bpos s)) (rdr s), false).

(* internal::bump over the bytes it scans *)
Definition bump_bytes (ch : N) (bs : list byte) (p : pos) : pos := fold_left (bump1_pos ch) bs p.

Inductive bkind := BkScan | BkLine | BkNext.   (* bump / bump_in_this_line / bump_to_next_line *)

Definition bump_pos (ch : N) (k : bkind) (n : nat) (bs : list byte) (p : pos) : pos :=
  match k with
  | BkScan => bump_bytes ch (firstn n bs) p
  | BkLine => mkpos (pbyte p + N.of_nat n) (pline p) (pcol p + N.of_nat n)
  | BkNext => mkpos (pbyte p + N.of_nat n) (pline p + 1) 1
  end.

(* ------------------------------------------------------------------ the API as operations *)
Inductive op :=
| OSize (n : nat) | OEnd (n : nat) | ORequire (n : nat) | OEmpty
| OPeek (i : nat) | OBump (k : bkind) (n : nat)
| ODiscard | OSave | ORestore (k : nat).

Inductive ans :=
| ASize (n : nat)        (* size( n ), or end( n ) - current() *)
| AEmpty (b : bool)
| APeek (b : byte)
| AUnit
| AMoved (b : bool).     (* discard: did it move data (buffer machine only) *)

(* behaviour C++ leaves undefined, made explicit *)
Inductive err :=
| EPeekWindow            (* peek_char( i ) with current + i >= end : reads stale/uninitialised bytes *)
| EBumpWindow            (* bump( n ) with current + n > end *)
| EStaleRewind           (* rewind_restore of an inputerator taken before a discard that moved data *)
| EBadSlot               (* client error of the op language: restore of a slot that was never saved *)
| EFuel.                 (* model artefact, unreachable *)

Inductive stop := SDone | SOverflow | SErr (e : err).

Definition brun := (bstate * list biter)%type.

Inductive bout := BDone (a : ans) (calls : list rcall) (r : brun) | BOverflow | BErr (e : err).

Definition with_require (c : bcfg) (n : nat) (r : brun) (k : bstate -> ans) : bout :=
  match require c n (fst r) with
  | RqOk s' calls => BDone (k s') calls (s', snd r)
  | RqOverflow => BOverflow
  | RqFuel => BErr EFuel
  end.

Definition bstep (c : bcfg) (o : op) (r : brun) : bout :=
  let s := fst r in
  match o with
  | OSize n => with_require c n r (fun s' => ASize (occupied s'))
  | OEnd n => with_require c n r (fun s' => ASize (occupied s'))
  | ORequire n => with_require c n r (fun _ => AUnit)
  | OEmpty => with_require c 1 r (fun s' => AEmpty (cur s' =? end_ s'))
  | OPeek i =>
      if i <? occupied s
      then match nth_error (buf s) (cur s + i) with
           | Some b => BDone (APeek b) [] r
           | None => BErr EPeekWindow
           end
      else BErr EPeekWindow
  | OBump k n =>
      if n <=? occupied s
      then BDone AUnit []
             (mkb (buf s) (cur s + n) (end_ s) (bump_pos (eolc c) k n (window s) (bpos s))
                  (epoch s) (dmark s) (rdr s), snd r)
      else BErr EBumpWindow
  | ODiscard => let '(s', moved) := discard c s in BDone (AMoved moved) [] (s', snd r)
  | OSave => BDone AUnit [] (s, snd r ++ [mkit (cur s) (bpos s) (epoch s)])
  | ORestore k =>
      match nth_error (snd r) k with
      | None => BErr EBadSlot
      | Some it =>
          if it_epoch it =? epoch s
          then BDone AUnit [] (mkb (buf s) (it_off it) (end_ s) (it_pos it) (epoch s) (dmark s) (rdr s), snd r)
          else BErr EStaleRewind
      end
  end.

Record bentry := mkbe { be_ans : ans; be_calls : list rcall; be_pos : pos }.

(* run a client (operation sequence); stops at the first exception / undefined behaviour and
   returns the log so far, the reason and the last state *)
Fixpoint brun_ops (c : bcfg) (ops : list op) (r : brun) : list bentry * stop * brun :=
  match ops with
  | [] => ([], SDone, r)
  | o :: tl =>
      match bstep c o r with
      | BDone a calls r' =>
          let '(l, f, rf) := brun_ops c tl r' in
          (mkbe a calls (bpos (fst r')) :: l, f, rf)
      | BOverflow => ([], SOverflow, r)
      | BErr e => ([], SErr e, r)
      end
  end.

Definition binit (c : bcfg) (stream : list byte) (schedule : list nat) (garbage : list byte) : brun :=
  (mkb garbage 0 0 pos0 0 0%N (mkrd stream schedule), []).
(* `garbage` is the uninitialised allocation; well-formed when length garbage = cap c *)
Definition binit0 (c : bcfg) (stream : list byte) (schedule : list nat) : brun :=
  binit c stream schedule (repeat 0%N (cap c)).

(* ------------------------------------------------------------------ memory machine
   memory_input (eager): the cursor of Base.v = remaining bytes + counters; size/end/require
   ignore the amount; discard is empty; rewind data is the cursor itself. *)
Definition mrun := (cursor * list cursor)%type.

Inductive mout := MDone (a : ans) (r : mrun) | MErr (e : err).

Definition mbump (ch : N) (k : bkind) (n : nat) (m : cursor) : option cursor :=
  match k with
  | BkScan => bump_scan ch n m
  | BkLine => bump_in_line n m
  | BkNext => bump_next_line n m
  end.

Definition mstep (ch : N) (o : op) (r : mrun) : mout :=
  let m := fst r in
  match o with
  | OSize _ => MDone (ASize (in_size m)) r
  | OEnd _ => MDone (ASize (in_size m)) r
  | ORequire _ => MDone AUnit r
  | OEmpty => MDone (AEmpty (in_empty m)) r
  | OPeek i => match peek_at m i with Some b => MDone (APeek b) r | None => MErr EPeekWindow end
  | OBump k n => match mbump ch k n m with Some m' => MDone AUnit (m', snd r) | None => MErr EBumpWindow end
  | ODiscard => MDone AUnit r
  | OSave => MDone AUnit (m, snd r ++ [m])
  | ORestore k => match nth_error (snd r) k with Some m' => MDone AUnit (m', snd r) | None => MErr EBadSlot end
  end.

Fixpoint mrun_ops (ch : N) (ops : list op) (r : mrun) : list (ans * pos) * stop * mrun :=
  match ops with
  | [] => ([], SDone, r)
  | o :: tl =>
      match mstep ch o r with
      | MDone a r' =>
          let '(l, f, rf) := mrun_ops ch tl r' in
          ((a, cpos (fst r')) :: l, f, rf)
      | MErr e => ([], SErr e, r)
      end
  end.

Definition minit (stream : list byte) : mrun := (mkcur stream pos0, []).

(* ------------------------------------------------------------------ observations
   What a rule may rely on: "the amount should be understood as a parsing rule wishing to
   inspect and consume up to amount bytes" - size/end answers are compared up to clamping at
   the requested amount; whether a discard moved data is not an observation. *)
Definition clamp (o : op) (a : ans) : ans :=
  match o, a with
  | OSize n, ASize k => ASize (Nat.min k n)
  | OEnd n, ASize k => ASize (Nat.min k n)
  | ODiscard, _ => AUnit
  | _, _ => a
  end.

Definition obs := (op * ans * pos)%type.

Definition bobs (ops : list op) (l : list bentry) : list obs :=
  map (fun x => (fst x, clamp (fst x) (be_ans (snd x)), be_pos (snd x))) (combine ops l).
Definition mobs (ops : list op) (l : list (ans * pos)) : list obs :=
  map (fun x => (fst x, clamp (fst x) (fst (snd x)), snd (snd x))) (combine ops l).

Definition is_discard (o : op) : bool := match o with ODiscard => true | _ => false end.
Definition strip (ops : list op) : list op := filter (fun o => negb (is_discard o)) ops.
Definition strip_obs (l : list obs) : list obs := filter (fun x => negb (is_discard (fst (fst x)))) l.

(* ------------------------------------------------------------------ client discipline
   Every PEGTL rule peeks / bumps only below what a preceding size()/empty() answered
   (clamped at the amount it asked for).  `known` = number of bytes the client may touch. *)
Definition allowed (o : op) (known : nat) : bool :=
  match o with
  | OPeek i => i <? known
  | OBump _ n => n <=? known
  | _ => true
  end.

Definition known_after (o : op) (a : ans) (known : nat) : nat :=
  match o, a with
  | OSize _, ASize k => k
  | OEnd _, ASize k => k
  | OEmpty, AEmpty false => Nat.max known 1
  | OBump _ n, _ => known - n
  | ORestore _, _ => 0
  | _, _ => known
  end.

Fixpoint disciplined (c : bcfg) (known : nat) (ops : list op) (r : brun) : bool :=
  match ops with
  | [] => true
  | o :: tl =>
      allowed o known &&
      match bstep c o r with
      | BDone a _ r' => disciplined c (known_after o (clamp o a) known) tl r'
      | _ => true
      end
  end.

(* discard placed only at "documented-safe points": no restore of an inputerator saved before
   the most recent discard (slots are numbered in order of the OSave operations) *)
Fixpoint restores_fresh (nslots fresh_from : nat) (ops : list op) : bool :=
  match ops with
  | [] => true
  | OSave :: tl => restores_fresh (S nslots) fresh_from tl
  | ODiscard :: tl => restores_fresh nslots nslots tl
  | ORestore k :: tl => (fresh_from <=? k) && restores_fresh nslots fresh_from tl
  | _ :: tl => restores_fresh nslots fresh_from tl
  end.

(* amount asked of require() by an operation *)
Definition amount_of (o : op) : option nat :=
  match o with
  | OSize n | OEnd n | ORequire n => Some n
  | OEmpty => Some 1
  | _ => None
  end.

(* ------------------------------------------------------------------ adaptive clients
   A rule decides what to do next from the answers it got.  A strategy maps the history of
   observations (answers clamped at the requested amount + positions) to the next operation,
   None = finished.  Fuel only bounds the number of operations. *)
Definition strategy := list obs -> option op.

Fixpoint bplay (fuel : nat) (c : bcfg) (st : strategy) (hist : list obs) (r : brun) : list obs * stop :=
  match fuel with
  | O => (hist, SDone)
  | S f =>
      match st hist with
      | None => (hist, SDone)
      | Some o =>
          match bstep c o r with
          | BDone a _ r' => bplay f c st (hist ++ [(o, clamp o a, bpos (fst r'))]) r'
          | BOverflow => (hist, SOverflow)
          | BErr e => (hist, SErr e)
          end
      end
  end.

Fixpoint mplay (fuel : nat) (ch : N) (st : strategy) (hist : list obs) (r : mrun) : list obs * stop :=
  match fuel with
  | O => (hist, SDone)
  | S f =>
      match st hist with
      | None => (hist, SDone)
      | Some o =>
          match mstep ch o r with
          | MDone a r' => mplay f ch st (hist ++ [(o, clamp o a, cpos (fst r'))]) r'
          | MErr e => (hist, SErr e)
          end
      end
  end.

(* ------------------------------------------------------------------ the first test of require() on the machine
   `m_current.data + amount <= m_end` is pointer + size_t arithmetic: the sum wraps modulo
   2^64 (formally undefined behaviour; this is what the compiled code does).  `base` is the
   address of the allocation, cur/end_ the offsets, all as N.  The executable model above uses
   the unwrapped test `cur + n <=? end_`; the two agree unless base + cur + amount >= 2^64,
   which only internal::everything (amount = size_t( -1 )) provokes. *)
Definition early_return_wrapped (base cur e amount : N) : bool :=
  ((base + cur + amount) mod 2 ^ 64 <=? base + e)%N.
