(* PosLog.v — C06, part 2: every position the engine makes observable during an evaluation started at cursor c
   (control hooks, action inputs begin/end, inline actions, raise / raise_nested, state construction / success,
   entry / exit of every Control<Rule>::match, the positions stored in parse errors) is `track` of a prefix of the
   bytes remaining at c:    reach c p  :=  exists pre tl, rest c = pre ++ tl /\ p = track ch (cpos c) pre.
   One lemma per helper of Engine.v in a Section over the abstract callee `ev` (as EngineFacts / HookFacts do);
   the cursor part of the invariant is EngineFacts.eval_good instantiated with PTr (PosFacts2.eval_goodP). *)
From Coq Require Import Lia.
From PegtlV Require Import Base Decode Grammar Engine EngineFacts AtomFacts PosFacts PosFacts2.
Local Open Scope N_scope.

Section Log.
Variable ch : N.
Notation advP := (adv (PTr ch)).
Notation goodP := (good (PTr ch)).

Definition reach (c : cursor) (p : pos) : Prop :=
  exists pre tl, rest c = pre ++ tl /\ p = track ch (cpos c) pre.

Definition ev_ok (c : cursor) (e : event) : Prop :=
  match e with
  | EHook _ _ _ p | ERaise _ _ p | ERaiseNested _ _ p | EApply0 _ _ p
  | EStNew _ p | EStSuccess _ p | EEnter _ _ _ _ p | EExit _ _ _ p => reach c p
  | EApply _ _ b e | EInline _ b e => reach c b /\ reach c e
  | EInline0 _ | EStDrop _ => True
  end.
Fixpoint exn_ok (c : cursor) (x : exn) : Prop :=
  match x with
  | EParse _ p | ECheckBytes p => reach c p
  | EAct _ => True
  | ENested _ p inner => reach c p /\ exn_ok c inner
  end.
Definition out_ok (c : cursor) (o : outcome) : Prop := match o with Exc x => exn_ok c x | _ => True end.
Definition logok (c : cursor) (x : result) : Prop :=
  match x with Res o _ evs => Forall (ev_ok c) evs /\ out_ok c o | _ => True end.

(* sub c1 c: everything reachable from c1 is reachable from c *)
Definition sub (c1 c : cursor) : Prop := forall p, reach c1 p -> reach c p.

Lemma reach_self c : reach c (cpos c).
Proof. exists [], (rest c). split; reflexivity. Qed.
Lemma reach_adv c c1 : advP c c1 -> reach c (cpos c1).
Proof. intros [pre [H1 H2]]. exists pre, (rest c1). split; [exact H1 | exact H2]. Qed.
Lemma sub_adv c c1 : advP c c1 -> sub c1 c.
Proof.
  intros [pre1 [H1 H2]] p [pre [tl [H3 H4]]]. exists (pre1 ++ pre), tl. split.
  - rewrite H1, H3, app_assoc. reflexivity.
  - rewrite track_app. unfold PTr in H2. rewrite <- H2. exact H4.
Qed.
Lemma sub_window c w t : rest c = w ++ t -> sub (mkcur w (cpos c)) c.
Proof.
  intros E p [pre [tl [H3 H4]]]. simpl in *. exists pre, (tl ++ t). split; [rewrite E, H3, app_assoc; reflexivity | exact H4].
Qed.
Lemma sub_refl c : sub c c. Proof. intros p H. exact H. Qed.

Lemma ev_ok_sub c1 c e : sub c1 c -> ev_ok c1 e -> ev_ok c e.
Proof. intros S. destruct e; simpl; try tauto; try (intros H; apply S; exact H); intros [H1 H2]; split; apply S; assumption. Qed.
Lemma exn_ok_sub c1 c x : sub c1 c -> exn_ok c1 x -> exn_ok c x.
Proof. intros S. induction x as [w p|p|t|r p x IH]; simpl; try tauto; try (intros H; apply S; exact H). intros [H1 H2]. split; [apply S; exact H1 | apply IH; exact H2]. Qed.
Lemma logok_sub c1 c x : sub c1 c -> logok c1 x -> logok c x.
Proof.
  intros S. destruct x as [o c' evs| |]; simpl; try tauto. intros [H1 H2]. split.
  - eapply Forall_impl; [|exact H1]. intros e He. eapply ev_ok_sub; eauto.
  - destruct o; simpl in *; try tauto. eapply exn_ok_sub; eauto.
Qed.

Lemma logok_prepend c evs x : Forall (ev_ok c) evs -> logok c x -> logok c (prepend evs x).
Proof. destruct x as [o c' e2| |]; simpl; try tauto. intros H [H1 H2]. split; [apply Forall_app; split; assumption | exact H2]. Qed.
Lemma logok_append c evs x : Forall (ev_ok c) evs -> logok c x -> logok c (append x evs).
Proof. destruct x as [o c' e2| |]; simpl; try tauto. intros H [H1 H2]. split; [apply Forall_app; split; assumption | exact H2]. Qed.
Lemma logok_then c c1 evs x : Forall (ev_ok c) evs -> advP c c1 -> logok c1 x -> logok c (prepend evs x).
Proof. intros H A L. apply logok_prepend; [exact H|]. eapply logok_sub; [apply sub_adv; exact A | exact L]. Qed.
Lemma logok_chg c o o' c' c'' evs : logok c (Res o c' evs) -> out_ok c o' -> logok c (Res o' c'' evs).
Proof. simpl. intros [H _] H2. split; assumption. Qed.
Lemma logok_evs c o c' evs : logok c (Res o c' evs) -> Forall (ev_ok c) evs.
Proof. simpl. tauto. Qed.
Lemma logok_guard m saved c x : logok c x -> logok c (guard m saved x).
Proof. destruct x as [[| |x] c' evs| |]; simpl; tauto. Qed.
Lemma logok_nil c o c' : out_ok c o -> logok c (Res o c' []).
Proof. simpl. intros H. split; [constructor | exact H]. Qed.

Ltac dres x := destruct x as [[| |?e] ?c ?evs| |].

(* ---------- atoms emit no events and raise nothing ---------- *)
Lemma ok_or_err_logok c o : logok c (ok_or_err o).
Proof. destruct o; simpl; auto. Qed.
Lemma bump_help_logok c b n c0 : logok c (bump_help ch b n c0).
Proof. unfold bump_help. apply ok_or_err_logok. Qed.
Lemma eval_atom_logok e h c x : eol_ch e = ch -> eval_atom e h c = Some x -> logok c x.
Proof.
  intros Hch. destruct h; simpl; intros H; try discriminate H; try (injection H as <-); try (simpl; auto; fail).
  - destruct (in_empty c); simpl; auto.
  - destruct (eol_match e c) as [[[[|] z] c']|]; simpl; auto.
  - destruct (eol_match e c) as [[[[|] z] c']|]; simpl; auto. destruct z; simpl; auto.
  - destruct (pbyte (cpos c) =? 0); simpl; auto.
  - destruct (pcol (cpos c) =? 1); simpl; auto.
  - apply ok_or_err_logok.
  - assert (A : logok c (match do_peek pk c with POob => Err | PNone => Res Fail c [] | PSome _ n => ok_or_err (bump_scan (eol_ch e) n c) end)).
    { destruct (do_peek pk c); simpl; auto. apply ok_or_err_logok. }
    destruct pk; injection H as <-; try exact A. destruct (in_empty c); [simpl; auto | apply ok_or_err_logok].
  - unfold peek_test_bump. destruct (do_peek pk c); simpl; auto. destruct (test_one_set found cs data); [rewrite Hch; apply bump_help_logok | simpl; auto].
  - unfold peek_test_bump. destruct (do_peek pk c); simpl; auto. destruct (test_one_range found lo hi data); [rewrite Hch; apply bump_help_logok | simpl; auto].
  - unfold peek_test_bump. destruct (do_peek pk c); simpl; auto. destruct (test_ranges cs data); [rewrite Hch; apply bump_help_logok | simpl; auto].
  - destruct (length cs <=? in_size c)%nat; [|simpl; auto]. destruct (take (length cs) (rest c)); [|simpl; auto].
    destruct (eqb_bytes cs l); [rewrite Hch; apply bump_help_logok | simpl; auto].
  - destruct (length cs <=? in_size c)%nat; [|simpl; auto]. destruct (take (length cs) (rest c)); [|simpl; auto].
    destruct (ieqb_bytes cs l); [rewrite Hch; apply bump_help_logok | simpl; auto].
  - destruct (n <=? in_size c)%nat; [apply ok_or_err_logok | simpl; auto].
  - destruct (n <=? in_size c)%nat; simpl; auto.
Qed.

(* ---------- helpers ---------- *)
Variable C : cfg.
Hypothesis HC : eol_ch (ceol C) = ch.

Section HelperLog.
Variable ev : dyn -> rid -> cursor -> result.
Hypothesis Hg : forall d r c, goodP (dM d) c (ev d r c).
Hypothesis Hl : forall d r c, logok c (ev d r c).

Let R := PTr_refl ch.
Let T := PTr_trans ch.

Lemma seq_all_logok d rs : forall c, logok c (seq_all ev d rs c).
Proof.
  induction rs as [|r rs IH]; intros c; simpl; [auto|].
  pose proof (Hg d r c) as G. pose proof (Hl d r c) as L. unfold bind. dres (ev d r c); auto.
  simpl in G. eapply logok_then; [eapply logok_evs; exact L | exact G | apply IH].
Qed.
Lemma seq_all_goodP d rs c : goodP false c (seq_all ev d rs c).
Proof. apply (seq_all_good _ R T ev Hg). Qed.

Lemma sor_any_logok d rs : forall c, logok c (sor_any ev d rs c).
Proof.
  induction rs as [|r rs IH]; intros c; [simpl; auto|].
  destruct rs as [|r2 rs']; [simpl; apply Hl|].
  change (sor_any ev d (r :: r2 :: rs') c) with
    (match ev (req d) r c with Res Fail c' evs => prepend evs (sor_any ev d (r2 :: rs') c') | x => x end).
  pose proof (Hg (req d) r c) as G. pose proof (Hl (req d) r c) as L.
  dres (ev (req d) r c); auto. simpl in G. subst c0.
  apply logok_prepend; [eapply logok_evs; exact L | apply IH].
Qed.

Lemma star_loop_logok n d rs : forall c, logok c (star_loop ev n d rs c).
Proof.
  induction n as [|n IH]; intros c; simpl; [exact I|].
  pose proof (seq_all_goodP (req d) rs c) as G. pose proof (seq_all_logok (req d) rs c) as L.
  dres (seq_all ev (req d) rs c); auto.
  simpl in G. eapply logok_then; [eapply logok_evs; exact L | exact G | apply IH].
Qed.

Lemma until1_logok n d cnd : forall c, logok c (until1_loop C ev n d cnd c).
Proof.
  induction n as [|n IH]; intros c; cbn [until1_loop]; [exact I|].
  pose proof (Hg (req d) cnd c) as G. pose proof (Hl (req d) cnd c) as L.
  dres (ev (req d) cnd c); auto. cbn [good req dM] in G. subst c0.
  destruct (in_empty c); [exact L|].
  destruct (bump_scan (eol_ch (ceol C)) 1 c) as [c2|] eqn:Eb; [|exact I].
  rewrite HC in Eb. eapply logok_then; [eapply logok_evs; exact L | eapply bump_scan_track; exact Eb | apply IH].
Qed.

Lemma until2_logok n d cnd r : forall c, logok c (until2_loop ev n d cnd r c).
Proof.
  induction n as [|n IH]; intros c; simpl; [exact I|].
  pose proof (Hg (req d) cnd c) as G. pose proof (Hl (req d) cnd c) as L.
  dres (ev (req d) cnd c); auto. simpl in G. subst c0.
  pose proof (Hg (opt_ d) r c) as G2. pose proof (Hl (opt_ d) r c) as L2.
  dres (ev (opt_ d) r c); simpl in G2.
  - eapply logok_then; [apply Forall_app; split; eapply logok_evs; eassumption | exact G2 | apply IH].
  - apply (logok_prepend c evs (Res Fail c0 evs0)); [eapply logok_evs; exact L | exact L2].
  - apply (logok_prepend c evs (Res (Exc e) c0 evs0)); [eapply logok_evs; exact L | exact L2].
  - exact I.
  - exact I.
Qed.

Lemma rep_loop_logok k d r : forall c, logok c (rep_loop ev k d r c).
Proof.
  induction k as [|k IH]; intros c; simpl; [auto|].
  pose proof (Hg d r c) as G. pose proof (Hl d r c) as L. unfold bind. dres (ev d r c); auto.
  simpl in G. eapply logok_then; [eapply logok_evs; exact L | exact G | apply IH].
Qed.

Lemma repopt_loop_logok k d r : forall c, logok c (fst (repopt_loop ev k d r c)).
Proof.
  induction k as [|k IH]; intros c; simpl; [auto|].
  pose proof (Hg (req d) r c) as G. pose proof (Hl (req d) r c) as L. dres (ev (req d) r c); simpl; auto.
  specialize (IH c0). destruct (repopt_loop ev k d r c0) as [x b]. simpl in *.
  eapply logok_then; [exact (proj1 L) | exact G | exact IH].
Qed.

Lemma look_logok inv c x : logok c x -> logok c (look inv c x).
Proof. dres x; simpl; auto; intros [H1 H2]; split; auto; destruct inv; exact I. Qed.

Lemma h_at_logok inv d r1 c : logok c (h_at ev inv d r1 c).
Proof. unfold h_at. apply look_logok. apply Hl. Qed.

Lemma h_seq_logok d rs c : logok c (h_seq ev d rs c).
Proof.
  unfold h_seq. destruct rs as [|r1 [|r2 rs]].
  - simpl. auto.
  - apply Hl.
  - apply logok_guard. apply seq_all_logok.
Qed.
Lemma h_seq_goodP d rs c : goodP (dM d) c (h_seq ev d rs c).
Proof. apply (h_seq_good _ R T ev Hg). Qed.

Lemma h_plus_logok n d r1 c : logok c (h_plus ev n d r1 c).
Proof.
  unfold h_plus, bind. pose proof (Hg d r1 c) as G. pose proof (Hl d r1 c) as L. dres (ev d r1 c); auto.
  simpl in G. eapply logok_then; [eapply logok_evs; exact L | exact G | apply star_loop_logok].
Qed.

Lemma h_partial_logok d rs c : logok c (h_partial ev d rs c).
Proof.
  unfold h_partial. pose proof (seq_all_logok (req d) rs c) as L. dres (seq_all ev (req d) rs c); auto.
Qed.

Lemma h_rep_min_max_logok mn mx d r1 c : logok c (h_rep_min_max ev mn mx d r1 c).
Proof.
  unfold h_rep_min_max. apply logok_guard. unfold bind.
  pose proof (rep_loop_good _ R T ev Hg mn (opt_ d) r1 eq_refl c) as G. pose proof (rep_loop_logok mn (opt_ d) r1 c) as L.
  dres (rep_loop ev mn (opt_ d) r1 c); auto. simpl in G.
  eapply logok_then; [eapply logok_evs; exact L | exact G |].
  pose proof (repopt_loop_ok _ R T ev Hg (mx - mn) d r1 c0) as G2. pose proof (repopt_loop_logok (mx - mn) d r1 c0) as L2.
  destruct (repopt_loop ev (mx - mn) d r1 c0) as [x b]. simpl in G2, L2.
  dres x; auto. destruct b; [|exact L2]. simpl in G2.
  eapply logok_then; [eapply logok_evs; exact L2 | exact G2 | apply h_at_logok].
Qed.

Lemma h_if_then_else_logok d cnd t e c : logok c (h_if_then_else ev d cnd t e c).
Proof.
  unfold h_if_then_else. apply logok_guard.
  pose proof (Hg (req d) cnd c) as G. pose proof (Hl (req d) cnd c) as L. dres (ev (req d) cnd c); auto; simpl in G.
  - eapply logok_then; [eapply logok_evs; exact L | exact G | apply Hl].
  - subst c0. apply logok_prepend; [eapply logok_evs; exact L | apply Hl].
Qed.

Lemma h_if_must_logok dflt d cnd rest_ c : logok c (h_if_must ev dflt d cnd rest_ c).
Proof.
  unfold h_if_must.
  pose proof (Hg (if dflt then req d else d) cnd c) as G. pose proof (Hl (if dflt then req d else d) cnd c) as L.
  dres (ev (if dflt then req d else d) cnd c); auto.
  - destruct rest_ as [|m ?]; [exact L|]. simpl in G.
    assert (K : logok c (prepend evs (ev d m c0))) by (eapply logok_then; [eapply logok_evs; exact L | exact G | apply Hl]).
    dres (ev d m c0); auto; try (simpl in K |- *; destruct K as [K1 _]; split; [exact K1 | exact I]).
  - eapply logok_chg; [exact L|]. destruct dflt; exact I.
Qed.

Lemma raise_at_logok d w c c1 evs : Forall (ev_ok c) evs -> reach c (cpos c1) -> logok c (raise_at d w c1 evs).
Proof.
  intros H Rc. unfold raise_at. simpl. split; [|exact Rc]. apply Forall_app. split; [exact H|]. constructor; [exact Rc | constructor].
Qed.

Lemma h_must_logok d r1 c : logok c (h_must ev d r1 c).
Proof.
  unfold h_must. pose proof (Hg (opt_ d) r1 c) as G. pose proof (Hl (opt_ d) r1 c) as L. dres (ev (opt_ d) r1 c); auto.
  simpl in G. apply raise_at_logok; [eapply logok_evs; exact L | apply reach_adv; exact G].
Qed.

Lemma h_strict_logok d r1 rs c : logok c (h_strict ev d r1 rs c).
Proof.
  unfold h_strict. apply logok_guard.
  pose proof (Hg (req d) r1 c) as G. pose proof (Hl (req d) r1 c) as L. dres (ev (req d) r1 c); auto.
  - simpl in G. eapply logok_then; [eapply logok_evs; exact L | exact G | apply h_seq_logok].
Qed.

Lemma star_strict_logok n d r1 rs : forall c, logok c (star_strict_loop ev n d r1 rs c).
Proof.
  induction n as [|n IH]; intros c; simpl; [exact I|].
  pose proof (Hg (req d) r1 c) as G. pose proof (Hl (req d) r1 c) as L. dres (ev (req d) r1 c); auto.
  - simpl in G. pose proof (h_seq_goodP (opt_ d) rs c0) as G2. pose proof (h_seq_logok (opt_ d) rs c0) as L2.
    assert (S : sub c0 c) by (apply sub_adv; exact G).
    apply (logok_sub _ _ _ S) in L2.
    dres (h_seq ev (opt_ d) rs c0); simpl in G2; try exact I;
      try (match goal with |- logok _ (Res ?o ?cc (_ ++ ?e2)) => apply (logok_prepend c evs (Res o cc e2)); [eapply logok_evs; exact L | exact L2] end).
    eapply logok_then; [apply Forall_app; split; eapply logok_evs; eassumption | eapply (adv_trans _ T); eassumption | apply IH].
Qed.

Lemma rematch_all_logok d rs i2 : logok i2 (rematch_all ev d rs i2).
Proof.
  induction rs as [|r rs IH]; simpl; [auto|].
  pose proof (Hl d r i2) as L. dres (ev d r i2); auto.
  apply logok_prepend; [eapply logok_evs; exact L | exact IH].
Qed.

Lemma h_rematch_logok d hd rs c : logok c (h_rematch ev d hd rs c).
Proof.
  unfold h_rematch. destruct rs as [|r rs']; [apply Hl|].
  pose proof (Hg (opt_ d) hd c) as G. pose proof (Hl (opt_ d) hd c) as L. dres (ev (opt_ d) hd c); auto.
  - destruct (take (length (rest c) - length (rest c0)) (rest c)) as [span|] eqn:Et; [|exact I].
    destruct (take_app _ _ _ Et) as [tl [E1 E2]].
    pose proof (rematch_all_logok (opt_ d) (r :: rs') (mkcur span (cpos c))) as L2.
    apply (logok_sub _ c _ (sub_window c span tl E1)) in L2.
    dres (rematch_all ev (opt_ d) (r :: rs') (mkcur span (cpos c))); auto; simpl in L2 |- *; destruct L2 as [L21 L22];
      (split; [apply Forall_app; split; [eapply logok_evs; exact L | exact L21] | exact L22]).
Qed.

Lemma h_try_false_logok f d r1 c : logok c (h_try_false ev f d r1 c).
Proof.
  unfold h_try_false. pose proof (Hl (opt_ d) r1 c) as L. dres (ev (opt_ d) r1 c); auto.
  - eapply logok_chg; [exact L|]. destruct (catches f e); [exact I | simpl in L; apply L].
Qed.

Lemma h_try_nested_logok f d r1 c : logok c (h_try_nested ev f d r1 c).
Proof.
  unfold h_try_nested. pose proof (Hl (opt_ d) r1 c) as L. dres (ev (opt_ d) r1 c); auto.
  - destruct (catches f e).
    + simpl in L |- *. destruct L as [L1 L2]. split.
      * apply Forall_app. split; [exact L1|]. constructor; [apply reach_self | constructor].
      * split; [apply reach_self | exact L2].
    + exact L.
Qed.

Lemma st_scope_logok b r c0 c x : reach c (cpos c0) ->
  goodP false c x -> logok c x -> logok c (st_scope b r c0 x).
Proof.
  intros Rc G L. dres x; simpl in *; auto; destruct L as [L1 L2]; (split; [|exact L2]).
  - constructor; [exact Rc|]. apply Forall_app. split; [exact L1|]. apply Forall_app. split; [|constructor; [exact I | constructor]].
    destruct b; [constructor; [apply reach_adv; exact G | constructor] | constructor].
  - constructor; [exact Rc|]. apply Forall_app. split; [exact L1 | constructor; [exact I | constructor]].
  - constructor; [exact Rc|]. apply Forall_app. split; [exact L1 | constructor; [exact I | constructor]].
Qed.

Lemma run_inline_logok c as_ b e : reach c b -> reach c e -> Forall (ev_ok c) (snd (run_inline C as_ b e)).
Proof.
  intros Rb Re. induction as_ as [|a tl IH]; simpl; [constructor|].
  destruct (ibeh C a b e) as [[|]|t]; simpl.
  - destruct (run_inline C tl b e) as [x evs]. simpl in *. constructor; [split; assumption | exact IH].
  - constructor; [split; assumption | constructor].
  - constructor; [split; assumption | constructor].
Qed.
Lemma run_inline0_logok c as_ p : Forall (ev_ok c) (snd (run_inline0 C as_ p)).
Proof.
  induction as_ as [|a tl IH]; simpl; [constructor|].
  destruct (ibeh C a p p) as [[|]|t]; simpl.
  - destruct (run_inline0 C tl p) as [x evs]. simpl in *. constructor; [exact I | exact IH].
  - constructor; [exact I | constructor].
  - constructor; [exact I | constructor].
Qed.
Lemma inline_result_logok c x c_ok c_fail pre : Forall (ev_ok c) pre -> Forall (ev_ok c) (snd x) -> logok c (inline_result x c_ok c_fail pre).
Proof.
  intros H1 H2. destruct x as [[[|]|t] evs]; simpl in *; (split; [apply Forall_app; split; assumption | exact I]).
Qed.

Lemma h_if_apply_logok d as_ r1 c : logok c (h_if_apply C ev d as_ r1 c).
Proof.
  unfold h_if_apply. destruct (dA d && negb match as_ with [] => true | _ => false end); [|apply Hl].
  pose proof (Hg (set_A (opt_ d) true) r1 c) as G. pose proof (Hl (set_A (opt_ d) true) r1 c) as L.
  dres (ev (set_A (opt_ d) true) r1 c); auto.
  - simpl in G. apply inline_result_logok; [eapply logok_evs; exact L|]. apply run_inline_logok; [apply reach_self | apply reach_adv; exact G].
Qed.

Lemma eval_head_logok n self h subs d c : logok c (eval_head C ev n self h subs d c).
Proof.
  unfold eval_head.
  destruct (eval_atom (ceol C) h c) as [x|] eqn:Ea; [eapply eval_atom_logok; eauto|].
  assert (F : forall o, out_ok c o -> logok c (Res o c [])) by (intros; apply logok_nil; assumption).
  destruct h; try (simpl in Ea; discriminate); try (apply F; exact I).
  - apply h_seq_logok.
  - apply sor_any_logok.
  - apply star_loop_logok.
  - destruct subs as [|r1 [|? ?]]; try (apply F; exact I). apply h_plus_logok.
  - apply h_partial_logok.
  - destruct subs as [|r1 [|? ?]]; try (apply F; exact I). apply h_at_logok.
  - destruct subs as [|r1 [|? ?]]; try (apply F; exact I). apply h_at_logok.
  - destruct subs as [|r1 [|? ?]]; try (apply F; exact I). apply logok_guard, until1_logok.
  - destruct subs as [|cn [|r1 [|? ?]]]; try (apply F; exact I). apply logok_guard, until2_logok.
  - destruct subs as [|r1 [|? ?]]; try (apply F; exact I). apply logok_guard, rep_loop_logok.
  - destruct subs as [|r1 [|? ?]]; try (apply F; exact I). apply h_rep_min_max_logok.
  - destruct subs as [|r1 [|? ?]]; try (apply F; exact I). apply repopt_loop_logok.
  - destruct subs as [|cn [|t [|e [|? ?]]]]; try (apply F; exact I). apply h_if_then_else_logok.
  - destruct subs as [|cn rest_]; try (apply F; exact I). apply h_if_must_logok.
  - destruct subs as [|r1 [|? ?]]; try (apply F; exact I). apply h_must_logok.
  - destruct subs as [|t [|? ?]]; try (apply F; exact I). apply raise_at_logok; [constructor | apply reach_self].
  - destruct subs as [|r1 rs]; try (apply F; exact I). apply h_strict_logok.
  - destruct subs as [|r1 rs]; try (apply F; exact I). apply logok_guard, star_strict_logok.
  - destruct subs as [|hd rs]; try (apply F; exact I). apply h_rematch_logok.
  - destruct subs as [|r1 [|? ?]]; try (apply F; exact I). apply h_try_false_logok.
  - destruct subs as [|r1 [|? ?]]; try (apply F; exact I). apply h_try_nested_logok.
  - destruct subs as [|r1 [|? ?]]; try (apply F; exact I).
    apply st_scope_logok; [apply reach_self | exact (good_false_of _ R _ _ _ (Hg _ _ _)) | apply Hl].
  - destruct subs as [|r1 [|? ?]]; try (apply F; exact I). apply Hl.
  - destruct subs as [|r1 [|? ?]]; try (apply F; exact I). apply Hl.
  - destruct subs as [|r1 [|? ?]]; try (apply F; exact I). apply Hl.
  - destruct subs as [|r1 [|? ?]]; try (apply F; exact I). apply Hl.
  - destruct subs; try (apply F; exact I). unfold h_apply. destruct (dA d); [|apply F; exact I].
    apply inline_result_logok; [constructor | apply run_inline_logok; apply reach_self].
  - destruct subs; try (apply F; exact I). unfold h_apply0. destruct (dA d); [|apply F; exact I].
    apply inline_result_logok; [constructor | apply run_inline0_logok].
  - destruct subs as [|r1 [|? ?]]; try (apply F; exact I). apply h_if_apply_logok.
Qed.

(* ---------- match.hpp ---------- *)
Lemma run_action_logok d ak r c c1 : advP c c1 -> Forall (ev_ok c) (snd (run_action C d ak r (cpos c) (cpos c1))).
Proof.
  intros A. unfold run_action. destruct (dA d); [|constructor]. destruct ak as [|isb|isb|mk]; simpl.
  - constructor.
  - constructor; [split; [apply reach_self | apply reach_adv; exact A] | constructor].
  - constructor; [simpl; apply reach_adv; exact A | constructor].
  - constructor.
Qed.
Lemma fail_hook_logok d r c c_back c1 evs : Forall (ev_ok c) evs -> reach c (cpos c1) -> logok c (fail_hook C d r c_back c1 evs).
Proof.
  intros H Rc. unfold fail_hook. destruct (raise_on_failure C (dCtl d) r); simpl; (split; [apply Forall_app; split; [exact H | constructor; [exact Rc | constructor]] | try exact I; exact Rc]).
Qed.

Lemma match_hpp_logok ak body d r c :
  (forall d c, goodP (dM d) c (body d c)) -> (forall d c, logok c (body d c)) -> logok c (match_hpp C ak body d r c).
Proof.
  intros Hbg Hbl. unfold match_hpp. set (g := use_guard d ak).
  pose proof (Hbg (if g then opt_ d else d) c) as G. pose proof (Hbl (if g then opt_ d else d) c) as L.
  assert (S0 : ev_ok c (EHook HkStart (dCtl d) r (cpos c))) by (apply reach_self).
  dres (body (if g then opt_ d else d) c); auto.
  - simpl in G. pose proof (run_action_logok d ak r c c0 G) as RA.
    destruct (run_action C d ak r (cpos c) (cpos c0)) as [[[|]|t] ea]; simpl in RA.
    + simpl. split; [|exact I]. constructor; [exact S0|]. apply Forall_app. split; [eapply logok_evs; exact L|].
      apply Forall_app. split; [exact RA | constructor; [apply reach_adv; exact G | constructor]].
    + apply fail_hook_logok; [|apply reach_adv; exact G]. constructor; [exact S0|]. apply Forall_app. split; [eapply logok_evs; exact L | exact RA].
    + simpl. split; [|exact I]. constructor; [exact S0|]. apply Forall_app. split; [eapply logok_evs; exact L | exact RA].
  - assert (A : reach c (cpos c0)).
    { simpl in G. destruct (dM (if g then opt_ d else d)); [subst c0; apply reach_self | apply reach_adv; exact G]. }
    apply fail_hook_logok; [|exact A]. constructor; [exact S0 | eapply logok_evs; exact L].
  - simpl in G, L |- *. destruct L as [L1 L2]. split; [|exact L2]. constructor; [exact S0|]. apply Forall_app. split; [exact L1|].
    destruct (has_unwind C (dCtl d)); [constructor; [apply reach_adv; exact G | constructor] | constructor].
Qed.

Lemma sub_firstn n c : sub (mkcur (firstn n (rest c)) (cpos c)) c.
Proof. apply (sub_window c (firstn n (rest c)) (skipn n (rest c))). symmetry. apply firstn_skipn. Qed.

Lemma action_match_logok plain enabled m d r c :
  (forall d c, goodP (dM d) c (plain d c)) -> (forall d c, logok c (plain d c)) -> logok c (action_match ev plain enabled m d r c).
Proof.
  intros Hpg Hpl. destruct m; simpl.
  - apply Hl.
  - apply st_scope_logok; [apply reach_self | exact (good_false_of _ R _ _ _ (Hpg _ _)) | apply Hpl].
  - apply st_scope_logok; [apply reach_self | exact (good_false_of _ R _ _ _ (Hg (set_act d fam) _ _)) | apply Hl].
  - apply Hpl.
  - apply Hpl.
  - apply Hpl.
  - destruct enabled; [|apply Hpl]. destruct (n <? S (dDepth d))%nat; [apply raise_at_logok; [constructor | apply reach_self] | apply Hpl].
  - pose proof (Hpg d (mkcur (firstn n (rest c)) (cpos c))) as G. pose proof (Hpl d (mkcur (firstn n (rest c)) (cpos c))) as L.
    apply (logok_sub _ c _ (sub_firstn n c)) in L.
    dres (plain d (mkcur (firstn n (rest c)) (cpos c))); auto.
    simpl in G. destruct (in_empty c0 && negb (is_nil (skipn n (rest c)))); [|exact L].
    apply raise_at_logok; [eapply logok_evs; exact L|]. simpl. apply (sub_firstn n c). apply reach_adv. exact G.
  - pose proof (Hpg d c) as G. pose proof (Hpl d c) as L. dres (plain d c); auto.
    destruct (n <? length (rest c) - length (rest c0))%nat; [|exact L].
    eapply logok_chg; [exact L|]. simpl. apply reach_adv. exact G.
Qed.

Lemma traced_logok k r a m c x : goodP false c x -> logok c x -> logok c (traced k r a m c x).
Proof.
  intros G L. destruct x as [o c' evs| |]; auto. simpl in L |- *. destruct L as [L1 L2]. split; [|exact L2].
  constructor; [apply reach_self|]. apply Forall_app. split; [exact L1|]. constructor; [|constructor].
  simpl. apply reach_adv. destruct o; exact G.
Qed.

End HelperLog.

Variable G : grammar.
Hypothesis HG : table_ok (ceol C) G.

Lemma eval_goodP' f d r c : goodP (dM d) c (eval G C f d r c).
Proof. rewrite <- HC. apply eval_goodP. exact HG. Qed.

Theorem eval_logok f : forall d r c, logok c (eval G C f d r c).
Proof.
  induction f as [|f IH]; intros d r c; simpl; [exact I|].
  destruct (nth_error G r) as [nd|] eqn:En; [|simpl; auto].
  pose proof (eval_goodP' (S f) d r c) as GS. simpl in GS. rewrite En in GS.
  match type of GS with goodP _ _ (traced _ _ _ _ _ ?x) =>
    assert (GX : goodP false c x) by (destruct x as [[| |?] ? ?| |]; simpl in GS |- *; auto; destruct (dM d); [subst; apply adv_refl; apply PTr_refl | exact GS]) end.
  apply traced_logok; [exact GX|]. clear GS GX.
  assert (Hhg : forall d' c', goodP (dM d') c' (eval_head C (eval G C f) f r (nhead nd) (nsubs nd) d' c')).
  { intros d' c'. rewrite <- HC.
    apply (eval_head_good _ (PTr_refl _) (PTr_trans _) C (fun h => head_ok (ceol C) h = true)).
    - intros n c0 c1 H. eapply bump_scan_track; eauto.
    - intros h c0 x m Hw H. eapply eval_atom_goodP; eauto.
    - intros d2 r2 c2. rewrite HC. apply eval_goodP'.
    - eapply HG; eauto. }
  assert (Hhl : forall d' c', logok c' (eval_head C (eval G C f) f r (nhead nd) (nsubs nd) d' c')).
  { intros d' c'. apply eval_head_logok; [apply eval_goodP' | exact IH]. }
  assert (Hpg : forall ak d' c', goodP (dM d') c'
            (if nenabled nd then match_hpp C ak (eval_head C (eval G C f) f r (nhead nd) (nsubs nd)) d' r c'
             else eval_head C (eval G C f) f r (nhead nd) (nsubs nd) d' c')).
  { intros ak d' c'. destruct (nenabled nd); [apply (match_hpp_good _ (PTr_refl _)); exact Hhg | apply Hhg]. }
  assert (Hpl : forall ak d' c', logok c'
            (if nenabled nd then match_hpp C ak (eval_head C (eval G C f) f r (nhead nd) (nsubs nd)) d' r c'
             else eval_head C (eval G C f) f r (nhead nd) (nsubs nd) d' c')).
  { intros ak d' c'. destruct (nenabled nd); [apply match_hpp_logok; assumption | apply Hhl]. }
  destruct (acts C (dAct d) r) as [| | |mk]; try apply Hpl.
  apply action_match_logok; [apply eval_goodP' | exact IH | apply Hpg | apply Hpl].
Qed.

End Log.
