(* UnescapeSpec.v — specification side of property C17, written from the RFCs and independent of
   the model in Unescape.v (no shifts, masks or fixed-width arithmetic here: only +, *, /, mod).
   - RFC 3629 section 3: the bit-layout table, as the reference encoder `encode`;
   - RFC 3629 section 4: the ABNF of well-formed UTF-8 (`utf8_char`), with the scalar value each
     sequence denotes;
   - RFC 8259 section 7: \uXXXX escapes, UTF-16 surrogate pairs (`pair_units`), two-character
     escapes (`json_escapes`);
   - the value of a hexadecimal digit string (`hexval`).
   Definitions only. *)
From Coq Require Import List NArith Bool.
Import ListNotations.
Local Open Scope N_scope.

(* ---------- Unicode scalar values: U+0000..U+D7FF and U+E000..U+10FFFF ---------- *)
Definition is_high (u : N) : bool := (0xD800 <=? u) && (u <=? 0xDBFF).
Definition is_low (u : N) : bool := (0xDC00 <=? u) && (u <=? 0xDFFF).
Definition is_surrogate (u : N) : bool := (0xD800 <=? u) && (u <=? 0xDFFF).
Definition is_scalar (cp : N) : bool := (cp <=? 0x10FFFF) && negb (is_surrogate cp).

(* ---------- RFC 3629 section 3 ----------
   Char. number range  |        UTF-8 octet sequence
   0000 0000-0000 007F | 0xxxxxxx
   0000 0080-0000 07FF | 110xxxxx 10xxxxxx
   0000 0800-0000 FFFF | 1110xxxx 10xxxxxx 10xxxxxx
   0001 0000-0010 FFFF | 11110xxx 10xxxxxx 10xxxxxx 10xxxxxx
   The x bits are the binary digits of the character number, most significant first:
   six-bit groups are (cp / 64^k) mod 64. *)
Definition encode (cp : N) : list N :=
  if cp <? 0x80 then [cp]
  else if cp <? 0x800 then [0xC0 + cp / 64; 0x80 + cp mod 64]
  else if cp <? 0x10000 then [0xE0 + cp / 4096; 0x80 + (cp / 64) mod 64; 0x80 + cp mod 64]
  else [0xF0 + cp / 262144; 0x80 + (cp / 4096) mod 64; 0x80 + (cp / 64) mod 64; 0x80 + cp mod 64].

Definition encode_all (cps : list N) : list N := flat_map encode cps.

(* ---------- RFC 3629 section 4 ----------
   UTF8-char   = UTF8-1 / UTF8-2 / UTF8-3 / UTF8-4
   UTF8-1      = %x00-7F
   UTF8-2      = %xC2-DF UTF8-tail
   UTF8-3      = %xE0 %xA0-BF UTF8-tail / %xE1-EC 2( UTF8-tail ) /
                 %xED %x80-9F UTF8-tail / %xEE-EF 2( UTF8-tail )
   UTF8-4      = %xF0 %x90-BF 2( UTF8-tail ) / %xF1-F3 3( UTF8-tail ) /
                 %xF4 %x80-8F 2( UTF8-tail )
   UTF8-tail   = %x80-BF
   `utf8_char bs v`: bs is one well-formed UTF8-char and v the character number carried by its
   x bits. *)
Definition tail (b : N) : Prop := 0x80 <= b <= 0xBF.

Definition lead3 (b0 b1 : N) : Prop :=
  (b0 = 0xE0 /\ 0xA0 <= b1 <= 0xBF) \/ (0xE1 <= b0 <= 0xEC /\ tail b1) \/
  (b0 = 0xED /\ 0x80 <= b1 <= 0x9F) \/ (0xEE <= b0 <= 0xEF /\ tail b1).

Definition lead4 (b0 b1 : N) : Prop :=
  (b0 = 0xF0 /\ 0x90 <= b1 <= 0xBF) \/ (0xF1 <= b0 <= 0xF3 /\ tail b1) \/
  (b0 = 0xF4 /\ 0x80 <= b1 <= 0x8F).

Inductive utf8_char : list N -> N -> Prop :=
| U8_1 b v : b <= 0x7F -> v = b -> utf8_char [b] v
| U8_2 b0 b1 v : 0xC2 <= b0 <= 0xDF -> tail b1 ->
    v = (b0 - 0xC0) * 64 + (b1 - 0x80) -> utf8_char [b0; b1] v
| U8_3 b0 b1 b2 v : lead3 b0 b1 -> tail b2 ->
    v = (b0 - 0xE0) * 4096 + (b1 - 0x80) * 64 + (b2 - 0x80) -> utf8_char [b0; b1; b2] v
| U8_4 b0 b1 b2 b3 v : lead4 b0 b1 -> tail b2 -> tail b3 ->
    v = (b0 - 0xF0) * 262144 + (b1 - 0x80) * 4096 + (b2 - 0x80) * 64 + (b3 - 0x80) ->
    utf8_char [b0; b1; b2; b3] v.

(* UTF8-octets = *( UTF8-char ), with the sequence of character numbers *)
Inductive wf_utf8 : list N -> list N -> Prop :=
| WF_nil : wf_utf8 [] []
| WF_cons bs v tl vs : utf8_char bs v -> wf_utf8 tl vs -> wf_utf8 (bs ++ tl) (v :: vs).

(* ---------- hexadecimal digit strings ----------
   HEXDIG: the value of a digit is its position in "0123456789abcdef" / "0123456789ABCDEF". *)
Fixpoint index_of (c : N) (l : list N) (i : N) : option N :=
  match l with
  | [] => None
  | x :: tl => if x =? c then Some i else index_of c tl (i + 1)
  end.
Definition hex_lower : list N := [48;49;50;51;52;53;54;55;56;57; 97;98;99;100;101;102].
Definition hex_upper : list N := [48;49;50;51;52;53;54;55;56;57; 65;66;67;68;69;70].
Definition hex_digit (c : N) : option N :=
  match index_of c hex_lower 0 with
  | Some v => Some v
  | None => index_of c hex_upper 0
  end.
Definition is_xdigit (c : N) : bool := match hex_digit c with Some _ => true | None => false end.
Definition digit_val (c : N) : N := match hex_digit c with Some v => v | None => 0 end.

Definition xdigits (l : list N) : Prop := Forall (fun c => is_xdigit c = true) l.

(* positional value, most significant digit first *)
Definition hexval (l : list N) : N := fold_left (fun acc c => acc * 16 + digit_val c) l 0.

(* ---------- RFC 8259 section 7: sequences of \uXXXX escapes ----------
   "To escape an extended character that is not in the Basic Multilingual Plane, the character is
   represented as a 12-character sequence, encoding the UTF-16 surrogate pair."
   UTF-16 (RFC 2781 2.2): U = 0x10000 + (W1 - 0xD800) * 0x400 + (W2 - 0xDC00).
   A surrogate that is not part of such a pair does not denote a character: error (None). *)
Definition combine_surrogates (h l : N) : N := 0x10000 + (h - 0xD800) * 1024 + (l - 0xDC00).

Fixpoint pair_units (us : list N) : option (list N) :=
  match us with
  | [] => Some []
  | u :: tl =>
    if is_high u then
      match tl with
      | l :: tl' =>
        if is_low l then option_map (cons (combine_surrogates u l)) (pair_units tl') else None
      | [] => None
      end
    else if is_low u then None
    else option_map (cons u) (pair_units tl)
  end.

(* the characters denoted before the first lone surrogate (what has been produced when the error
   is detected, scanning left to right) *)
Fixpoint pair_prefix (us : list N) : list N :=
  match us with
  | [] => []
  | u :: tl =>
    if is_high u then
      match tl with
      | l :: tl' => if is_low l then combine_surrogates u l :: pair_prefix tl' else []
      | [] => []
      end
    else if is_low u then []
    else u :: pair_prefix tl
  end.

(* ---------- documented two-character escapes ---------- *)
Fixpoint assoc (c : N) (t : list (N * N)) : option N :=
  match t with
  | [] => None
  | (k, v) :: tl => if k =? c then Some v else assoc c tl
  end.

(* RFC 8259 section 7: backslash followed by quotation mark, reverse solidus, solidus, b, f, n, r, t *)
Definition json_escapes : list (N * N) :=
  [ (34, 0x22); (92, 0x5C); (47, 0x2F); (98, 0x08); (102, 0x0C); (110, 0x0A); (114, 0x0D); (116, 0x09) ].

(* ISO C simple-escape-sequence: backslash followed by apostrophe, quotation mark, question mark,
   backslash, a, b, f, n, r, t, v  (the table of src/example/pegtl/unescape.cpp) *)
Definition c_escapes : list (N * N) :=
  [ (39, 0x27); (34, 0x22); (63, 0x3F); (92, 0x5C); (97, 0x07); (98, 0x08); (102, 0x0C);
    (110, 0x0A); (114, 0x0D); (116, 0x09); (118, 0x0B) ].

(* ---------- shape of the input matched for a run of \uXXXX escapes ----------
   json::unicode = list< seq< one< 'u' >, rep< 4, xdigit > >, one< '\\' > > matches
   u XXXX ( \ u XXXX )*.  `j_body b us`: b is that match without its first character, i.e.
   XXXX ( ?? XXXX )* with two arbitrary bytes ?? between the groups, and us are the values of
   the four-digit groups. *)
Definition xd4 (g : list N) : Prop := length g = 4%nat /\ xdigits g.

Inductive j_body : list N -> list N -> Prop :=
| JB_last g : xd4 g -> j_body g [hexval g]
| JB_more g x y b us : xd4 g -> j_body b us -> j_body (g ++ x :: y :: b) (hexval g :: us).
