(* ExactSound.v — C01, soundness half: whatever verdict the engine reaches on a table that denotes
   a classical surface grammar is the verdict of the PEG formalism, with the prescribed prefix
   consumed; and it never raises.  For every apply mode, rewind mode, control family and every
   attachment of void actions. *)
From Coq Require Import Lia.
From PegtlV Require Import Base Decode Grammar Engine EngineFacts AtomFacts Mono Spec Denote.
Local Open Scope N_scope.

Definition bytes_ok (s : list byte) : Prop := Forall (fun b => b < 256) s.
Lemma bytes_ok_app_r pre s : bytes_ok (pre ++ s) -> bytes_ok s.
Proof. unfold bytes_ok. rewrite Forall_app. tauto. Qed.

(* ---------- atoms against the one-byte classes of the formalism ---------- *)
Lemma schar_small b : b < 128 -> schar b = Z.of_N b.
Proof. intros H. unfold schar. destruct (b <? 128) eqn:E; [reflexivity|]. apply N.ltb_ge in E. lia. Qed.
Lemma schar_big b : 128 <= b -> b < 256 -> (schar b < 0)%Z.
Proof. intros H1 H2. unfold schar. destruct (b <? 128) eqn:E; [apply N.ltb_lt in E; lia | lia]. Qed.

Lemma zeqb_schar b c : b < 256 -> c < 128 -> Z.eqb (schar b) (Z.of_N c) = N.eqb b c.
Proof.
  intros Hb Hc. destruct (N.lt_ge_cases b 128) as [L|L].
  - rewrite schar_small by exact L. destruct (N.eqb_spec b c) as [->|N]; [apply Z.eqb_refl|].
    apply Z.eqb_neq. intros E. apply N2Z.inj in E. contradiction.
  - pose proof (schar_big b L Hb). destruct (N.eqb_spec b c) as [->|N]; [lia|]. apply Z.eqb_neq. lia.
Qed.

Lemma test_set_mem found cs b : b < 256 -> small cs = true ->
  test_one_set found (map Z.of_N cs) (schar b) = Bool.eqb (mem b cs) found.
Proof.
  intros Hb Hs. unfold test_one_set, mem. f_equal.
  induction cs as [|c cs IH]; simpl; [reflexivity|].
  simpl in Hs. apply andb_true_iff in Hs. destruct Hs as [Hc Hs]. apply N.ltb_lt in Hc.
  rewrite zeqb_schar by assumption. rewrite IH by exact Hs. reflexivity.
Qed.

Lemma eqb_true_r x : Bool.eqb x true = x.
Proof. destruct x; reflexivity. Qed.
Lemma test_range_mem lo hi b : b < 256 -> lo < 128 -> hi < 128 ->
  test_one_range true (Z.of_N lo) (Z.of_N hi) (schar b) = ((lo <=? b) && (b <=? hi)).
Proof.
  intros Hb Hl Hh. unfold test_one_range. rewrite eqb_true_r.
  destruct (N.lt_ge_cases b 128) as [L|L].
  - rewrite schar_small by exact L.
    destruct (N.leb_spec lo b), (N.leb_spec b hi), (Z.leb_spec (Z.of_N lo) (Z.of_N b)), (Z.leb_spec (Z.of_N b) (Z.of_N hi)); simpl; try reflexivity; lia.
  - pose proof (schar_big b L Hb).
    destruct (N.leb_spec b hi); [lia|]. rewrite andb_false_r.
    destruct (Z.leb_spec (Z.of_N lo) (schar b)); [lia | reflexivity].
Qed.

(* verdict of a result: Some (Some rest') / Some None / no verdict (exception, out of fuel, error) *)
Definition vres (x : result) : option (option (list byte)) :=
  match x with Res Ok c' _ => Some (Some (rest c')) | Res Fail _ _ => Some None | _ => None end.

Lemma bump_scan_drop ch n : forall c c', bump_scan ch n c = Some c' -> drop n (rest c) = Some (rest c').
Proof.
  induction n as [|n IH]; intros c c' H; simpl in *; [inversion H; reflexivity|].
  destruct (rest c) as [|b tl]; [discriminate|]. apply IH in H. exact H.
Qed.
Lemma bump_help_ok ch t n c : (n <= in_size c)%nat ->
  exists c', bump_help ch t n c = Res Ok c' [] /\ drop n (rest c) = Some (rest c').
Proof.
  intros H. unfold bump_help. destruct t.
  - destruct (bump_scan_some ch n c H) as [c' Hc]. rewrite Hc. exists c'. split; [reflexivity | eapply bump_scan_drop; eauto].
  - unfold bump_in_line. destruct (drop_some n (rest c) H) as [tl Ht]. rewrite Ht. eexists. split; reflexivity.
Qed.

Lemma ptb_char ch test (t : byte -> bool) c :
  bytes_ok (rest c) -> (forall b, b < 256 -> test (schar b) = t b) ->
  vres (peek_test_bump ch PkChar test c) = Some (atom1 t (rest c)).
Proof.
  intros Hb Ht. unfold peek_test_bump, do_peek, peek_char, in_empty, rd, peek_at.
  destruct (rest c) as [|b tl] eqn:E; [reflexivity|]. simpl.
  inversion Hb as [|? ? Hb1 _]; subst. rewrite (Ht b Hb1).
  destruct (t b); [|reflexivity].
  destruct (bump_help_ok ch (test (ch_as_data PkChar ch)) 1 c) as [c' [H1 H2]]; [unfold in_size; rewrite E; simpl; lia|].
  rewrite H1. simpl. rewrite E in H2. simpl in H2. inversion H2. reflexivity.
Qed.

Lemma string_atom cs : forall s,
  match strip cs s with
  | Some s' => (length cs <= length s)%nat /\ exists bs, take (length cs) s = Some bs /\ eqb_bytes cs bs = true /\ drop (length cs) s = Some s'
  | None => (length s < length cs)%nat \/ exists bs, take (length cs) s = Some bs /\ eqb_bytes cs bs = false
  end.
Proof.
  induction cs as [|c cs IH]; intros s; simpl.
  - split; [lia|]. exists []. auto.
  - destruct s as [|b s]; simpl; [left; lia|].
    destruct (c =? b) eqn:E.
    + specialize (IH s). destruct (strip cs s) as [s'|].
      * destruct IH as [L [bs [H1 [H2 H3]]]]. split; [lia|]. exists (b :: bs). rewrite H1. simpl. rewrite E, H2. auto.
      * destruct IH as [L|[bs [H1 H2]]]; [left; lia|]. right. exists (b :: bs). rewrite H1. simpl. rewrite E, H2. auto.
    + destruct (Nat.le_gt_cases (length cs) (length s)) as [L|L]; [|left; lia].
      destruct (take_some (length cs) s L) as [bs Hbs]. right. exists (b :: bs). rewrite Hbs. simpl. rewrite E. auto.
Qed.

Lemma string_verdict eol cs c x : eval_atom eol (HString cs) c = Some x -> vres x = Some (strip cs (rest c)).
Proof.
  simpl. intros H. injection H as <-.
  pose proof (string_atom cs (rest c)) as K. unfold in_size.
  destruct (strip cs (rest c)) as [s'|].
  - destruct K as [L [bs [H1 [H2 H3]]]]. apply Nat.leb_le in L. rewrite L, H1, H2.
    destruct (bump_help_ok (eol_ch eol) (existsb (N.eqb (eol_ch eol)) cs) (length cs) c) as [c' [B1 B2]]; [apply Nat.leb_le in L; exact L|].
    rewrite B1. simpl. rewrite H3 in B2. inversion B2. reflexivity.
  - destruct K as [L|[bs [H1 H2]]].
    + apply Nat.leb_gt in L. rewrite L. reflexivity.
    + destruct (length cs <=? length (rest c))%nat; [|reflexivity]. rewrite H1, H2. reflexivity.
Qed.

Lemma any_verdict eol c x : eval_atom eol (HAny PkChar) c = Some x -> vres x = Some (atom1 (fun _ => true) (rest c)).
Proof.
  cbn [eval_atom]. intros H. injection H as <-. unfold in_empty.
  destruct (rest c) as [|b tl] eqn:Er; reflexivity.
Qed.
Lemma eof_verdict eol c x : eval_atom eol HEof c = Some x -> vres x = Some (match rest c with [] => Some [] | _ => None end).
Proof. cbn [eval_atom]. intros H. injection H as <-. unfold in_empty. destruct (rest c) eqn:Er; simpl; rewrite ?Er; reflexivity. Qed.

Lemma eqb_zs_eq a : forall b, eqb_zs a b = true -> a = b.
Proof. induction a as [|x a IH]; intros [|y b] H; simpl in H; try discriminate; [reflexivity|].
  apply andb_true_iff in H. destruct H as [H1 H2]. apply Z.eqb_eq in H1. f_equal; auto. Qed.
Lemma eqb_ns_eq a : forall b, eqb_ns a b = true -> a = b.
Proof. induction a as [|x a IH]; intros [|y b] H; simpl in H; try discriminate; [reflexivity|].
  apply andb_true_iff in H. destruct H as [H1 H2]. apply N.eqb_eq in H1. f_equal; auto. Qed.

Section Exact.
Variable G : grammar.
Variable g : sgrammar.
Variable nm : nat -> rid.
Variable C : cfg.
Hypothesis HG : table_wf G.

Definition void_ak (ak : akind) : Prop := match ak with AKNone | AKApply false | AKApply0 false => True | _ => False end.
Hypothesis Hacts : forall fam r, void_ak (acts C fam r).
Hypothesis Habeh : forall fam r b e, exists x, abeh C fam r b e = ARet x.
Hypothesis Hrof : forall k r, raise_on_failure C k r = false.
Hypothesis Hdefs : forall k e, nth_error g k = Some e -> not_ref e = true /\ exists n, denb G g nm n (nm k) e = true.

Definition concl (e : sexp) (c : cursor) (o : outcome) (c' : cursor) : Prop :=
  match o with
  | Ok => Peg g e (rest c) (Some (rest c'))
  | Fail => Peg g e (rest c) None
  | Exc _ => False
  end.

Lemma run_action_void d ak r b e : void_ak ak -> exists ea, run_action C d ak r b e = (ARet true, ea).
Proof.
  intros H. unfold run_action. destruct (dA d); [|eexists; reflexivity].
  destruct ak as [|[|]|[|]|m]; simpl in H; try contradiction; try (eexists; reflexivity);
  destruct (Habeh (dAct d) r b e) as [x ->]; rewrite orb_true_r; eexists; reflexivity.
Qed.

Lemma match_hpp_void ak body d r c o c' evs : void_ak ak ->
  match_hpp C ak body d r c = Res o c' evs ->
  exists d' c1 evs1, body d' c = Res o c1 evs1 /\ (o = Ok -> c' = c1) /\ (d' = d \/ d' = opt_ d).
Proof.
  intros Hv. unfold match_hpp. set (d' := if use_guard d ak then opt_ d else d).
  assert (Hd : d' = d \/ d' = opt_ d) by (unfold d'; destruct (use_guard d ak); auto).
  destruct (body d' c) as [[| |e] c1 evs1| |] eqn:Eb; try discriminate.
  - destruct (run_action_void d ak r (cpos c) (cpos c1) Hv) as [ea ->].
    intros H. inversion H; subst. exists d', c', evs1. split; [exact Eb|]. split; [reflexivity | exact Hd].
  - unfold fail_hook. rewrite Hrof. intros H. inversion H; subst. exists d', c1, evs1. split; [exact Eb|]. split; [discriminate | exact Hd].
  - intros H. inversion H; subst. exists d', c1, evs1. split; [exact Eb|]. split; [discriminate | exact Hd].
Qed.

Lemma traced_inv k r a m c x o c' evs : traced k r a m c x = Res o c' evs -> exists evs0, x = Res o c' evs0.
Proof. destruct x as [o0 c0 e0| |]; simpl; intros H; inversion H; subst. eexists; reflexivity. Qed.

Lemma eval_unfold f d r c o c' evs nd : nth_error G r = Some nd ->
  eval G C (S f) d r c = Res o c' evs ->
  exists d' c1 evs1, eval_head C (eval G C f) f r (nhead nd) (nsubs nd) d' c = Res o c1 evs1 /\ (o = Ok -> c' = c1) /\ (d' = d \/ d' = opt_ d).
Proof.
  intros Hn. simpl. rewrite Hn. intros H. apply traced_inv in H. destruct H as [evs0 H].
  pose proof (Hacts (dAct d) r) as Hv.
  destruct (acts C (dAct d) r) as [|isb|isb|m] eqn:Ea; simpl in Hv; try contradiction.
  - destruct (nenabled nd); [eapply (match_hpp_void AKNone); [exact I | exact H] | exists d, c', evs0; auto].
  - destruct isb; [contradiction|]. destruct (nenabled nd); [eapply (match_hpp_void (AKApply false)); [exact I | exact H] | exists d, c', evs0; auto].
  - destruct isb; [contradiction|]. destruct (nenabled nd); [eapply (match_hpp_void (AKApply0 false)); [exact I | exact H] | exists d, c', evs0; auto].
Qed.

Lemma guard_inv m s x o c' evs : guard m s x = Res o c' evs -> exists c1, x = Res o c1 evs /\ (o = Ok -> c1 = c').
Proof.
  destruct x as [[| |e] c1 e1| |]; simpl; intros H; inversion H; subst; eexists; split; try reflexivity; try discriminate; auto.
Qed.

Lemma ev_bytes f d r c o c' evs : eval G C f d r c = Res o c' evs -> o <> Fail -> bytes_ok (rest c) -> bytes_ok (rest c').
Proof.
  intros H Ho Hb. pose proof (eval_goodT G C f d r c HG) as K. rewrite H in K.
  destruct o as [| |e]; [|congruence|]; destruct K as [pre [K _]]; rewrite K in Hb; eapply bytes_ok_app_r; eauto.
Qed.
Lemma ev_req_fail f d r c c' evs : eval G C f (req d) r c = Res Fail c' evs -> c' = c.
Proof. intros H. pose proof (eval_goodT G C f (req d) r c HG) as K. rewrite H in K. exact K. Qed.

Lemma seq_all_cons ev d r rs c : seq_all ev d (r :: rs) c = bind (ev d r c) (seq_all ev d rs).
Proof. reflexivity. Qed.

Section Step.
Variable f : nat.
Variable n : nat.
(* induction hypothesis: the statement for the sub-evaluations (fuel f) *)
Hypothesis IH : forall d r e c o c' evs, denb G g nm n r e = true -> bytes_ok (rest c) ->
  eval G C f d r c = Res o c' evs -> concl e c o c'.

Lemma seq_sound rs : forall e d c o c' evs, den_seqb (denb G g nm n) rs e = true -> bytes_ok (rest c) ->
  seq_all (eval G C f) d rs c = Res o c' evs -> concl e c o c'.
Proof.
  induction rs as [|r rs IHrs]; intros e d c o c' evs Hd Hb H; [discriminate|].
  destruct rs as [|r2 rs'].
  - simpl in Hd, H. unfold bind in H. destruct (eval G C f d r c) as [[| |ex] c1 vs1| |] eqn:E; try discriminate.
    + simpl in H. inversion H; subst. eapply IH; eauto.
    + inversion H; subst. eapply IH; eauto.
    + inversion H; subst. eapply IH; eauto.
  - cbn [den_seqb] in Hd. destruct e; try discriminate. apply andb_true_iff in Hd. destruct Hd as [Hd1 Hd2].
    rewrite seq_all_cons in H. unfold bind in H.
    destruct (eval G C f d r c) as [[| |ex] c1 vs1| |] eqn:E; try discriminate.
    + pose proof (IH _ _ _ _ _ _ _ Hd1 Hb E) as K1. simpl in K1.
      destruct (seq_all (eval G C f) d (r2 :: rs') c1) as [o2 c2 e2'| |] eqn:E2; try discriminate.
      simpl in H. inversion H; subst.
      assert (Hb1 : bytes_ok (rest c1)) by (eapply ev_bytes; eauto; discriminate).
      pose proof (IHrs _ _ _ _ _ _ Hd2 Hb1 E2) as K2.
      destruct o; simpl in *; [eapply P_seq_ok; eauto | eapply P_seq_ok; eauto | exact K2].
    + inversion H; subst. pose proof (IH _ _ _ _ _ _ _ Hd1 Hb E) as K1. simpl in *. apply P_seq_fail; exact K1.
    + inversion H; subst. pose proof (IH _ _ _ _ _ _ _ Hd1 Hb E) as K1. exact K1.
Qed.

Lemma sor_sound rs : forall e d c o c' evs, den_sorb (denb G g nm n) rs e = true -> bytes_ok (rest c) ->
  sor_any (eval G C f) d rs c = Res o c' evs -> concl e c o c'.
Proof.
  induction rs as [|r rs IHrs]; intros e d c o c' evs Hd Hb H; [discriminate|].
  destruct rs as [|r2 rs'].
  - simpl in Hd, H. eapply IH; eauto.
  - cbn [den_sorb] in Hd. destruct e; try discriminate. apply andb_true_iff in Hd. destruct Hd as [Hd1 Hd2].
    change (sor_any (eval G C f) d (r :: r2 :: rs') c) with
      (match eval G C f (req d) r c with Res Fail c1 vs1 => prepend vs1 (sor_any (eval G C f) d (r2 :: rs') c1) | x => x end) in H.
    destruct (eval G C f (req d) r c) as [[| |ex] c1 vs1| |] eqn:E; try discriminate.
    + inversion H; subst. pose proof (IH _ _ _ _ _ _ _ Hd1 Hb E) as K1. simpl in *. eapply P_sor_ok; exact K1.
    + pose proof (ev_req_fail _ _ _ _ _ _ E) as ->.
      destruct (sor_any (eval G C f) d (r2 :: rs') c) as [o2 c2 e2'| |] eqn:E2; try discriminate.
      simpl in H. inversion H; subst.
      pose proof (IH _ _ _ _ _ _ _ Hd1 Hb E) as K1. pose proof (IHrs _ _ _ _ _ _ Hd2 Hb E2) as K2.
      destruct o; simpl in *; [eapply P_sor_next; eauto | eapply P_sor_next; eauto | exact K2].
    + inversion H; subst. pose proof (IH _ _ _ _ _ _ _ Hd1 Hb E) as K1. exact K1.
Qed.

Lemma star_sound k : forall e1 d r1 c o c' evs, denb G g nm n r1 e1 = true -> bytes_ok (rest c) ->
  star_loop (eval G C f) k d [r1] c = Res o c' evs -> concl (SStar e1) c o c' /\ o <> Fail.
Proof.
  induction k as [|k IHk]; intros e1 d r1 c o c' evs Hd Hb H; [discriminate|].
  cbn [star_loop seq_all] in H. unfold bind in H.
  destruct (eval G C f (req d) r1 c) as [[| |ex] c1 e1'| |] eqn:E; try discriminate.
  - simpl in H. rewrite app_nil_r in H.
    destruct (star_loop (eval G C f) k d [r1] c1) as [o2 c2 e2'| |] eqn:E2; try discriminate.
    simpl in H. inversion H; subst.
    assert (Hb1 : bytes_ok (rest c1)) by (eapply ev_bytes; eauto; discriminate).
    pose proof (IH _ _ _ _ _ _ _ Hd Hb E) as K1. destruct (IHk _ _ _ _ _ _ _ Hd Hb1 E2) as [K2 N2]. simpl in K1.
    split; [|exact N2]. destruct o; simpl in *; [eapply P_star_step; eauto | congruence | exact K2].
  - pose proof (ev_req_fail _ _ _ _ _ _ E) as ->. inversion H; subst.
    pose proof (IH _ _ _ _ _ _ _ Hd Hb E) as K1. simpl in *. split; [apply P_star_end; exact K1 | discriminate].
  - inversion H; subst. pose proof (IH _ _ _ _ _ _ _ Hd Hb E) as K1. simpl in K1. contradiction.
Qed.

Lemma look_inv inv s x o c' evs : look inv s x = Res o c' evs ->
  c' = s /\ match x with
            | Res Ok _ _ => o = (if inv then Fail else Ok)
            | Res Fail _ _ => o = (if inv then Ok else Fail)
            | Res (Exc e) _ _ => o = Exc e
            | _ => False end.
Proof. destruct x as [[| |e] c1 e1| |]; simpl; intros H; inversion H; subst; auto. Qed.

(* one node, given that its sub-rules satisfy IH *)
Lemma node_sound nd e d r c o c' evs : nth_error G r = Some nd ->
  den_node (denb G g nm n) nd e = true -> bytes_ok (rest c) ->
  eval G C (S f) d r c = Res o c' evs -> concl e c o c'.
Proof.
  intros Hn Hd Hb H.
  destruct (eval_unfold _ _ _ _ _ _ _ _ Hn H) as [d' [c1 [evs1 [Hh [Hc _]]]]]. clear H.
  assert (Hconcl : forall c2, concl e c o c2 -> (o = Ok -> c' = c2) -> concl e c o c').
  { intros c2 K E. destruct o; simpl in *; auto. rewrite (E eq_refl). exact K. }
  unfold den_node in Hd. unfold eval_head in Hh.
  destruct (nhead nd) eqn:Eh; try discriminate Hd.
  - (* success *) destruct (nsubs nd); [|discriminate]. destruct e; try discriminate. simpl in Hh. inversion Hh; subst.
    rewrite (Hc eq_refl). simpl. constructor.
  - (* failure *) destruct (nsubs nd); [|discriminate]. destruct e; try discriminate. simpl in Hh. inversion Hh; subst. simpl. constructor.
  - (* eof *) destruct (nsubs nd); [|discriminate]. destruct e; try discriminate.
    destruct (eval_atom (ceol C) HEof c) as [x|] eqn:Ea; [|discriminate Ea].
    pose proof (eof_verdict _ _ _ Ea) as K. rewrite Hh in K.
    pose proof (P_eof g (rest c)) as P. destruct o; simpl in K; inversion K as [K']; simpl.
    + rewrite (Hc eq_refl). rewrite K'. exact P.
    + rewrite K'. exact P.
  - (* any *) destruct pk; try discriminate. destruct (nsubs nd); [|discriminate]. destruct e; try discriminate.
    destruct (eval_atom (ceol C) (HAny PkChar) c) as [x|] eqn:Ea; [|discriminate Ea].
    pose proof (any_verdict _ _ _ Ea) as K. rewrite Hh in K.
    pose proof (P_any g (rest c)) as P. destruct o; simpl in K; inversion K as [K']; simpl.
    + rewrite (Hc eq_refl). rewrite K'. exact P.
    + rewrite K'. exact P.
  - (* one / not_one *)
    destruct found; destruct pk; try discriminate; destruct (nsubs nd); try discriminate; destruct e; try discriminate;
    apply andb_true_iff in Hd; destruct Hd as [Hz Hs]; apply eqb_zs_eq in Hz; subst cs; simpl in Hh.
    + pose proof (ptb_char (eol_ch (ceol C)) (test_one_set true (map Z.of_N cs0)) (fun b => mem b cs0) c Hb) as K.
      rewrite Hh in K. specialize (K (fun b Hb' => eq_trans (test_set_mem true cs0 b Hb' Hs) (eqb_true_r _))).
      pose proof (P_one g cs0 (rest c)) as P. destruct o; simpl in K; inversion K as [K']; simpl.
      * rewrite (Hc eq_refl). rewrite K'. exact P.
      * rewrite K'. exact P.
    + pose proof (ptb_char (eol_ch (ceol C)) (test_one_set false (map Z.of_N cs0)) (fun b => negb (mem b cs0)) c Hb) as K.
      rewrite Hh in K.
      assert (T : forall b, b < 256 -> test_one_set false (map Z.of_N cs0) (schar b) = negb (mem b cs0)).
      { intros b Hb'. rewrite (test_set_mem false cs0 b Hb' Hs). destruct (mem b cs0); reflexivity. }
      specialize (K T).
      pose proof (P_not_one g cs0 (rest c)) as P. destruct o; simpl in K; inversion K as [K']; simpl.
      * rewrite (Hc eq_refl). rewrite K'. exact P.
      * rewrite K'. exact P.
  - (* range *)
    destruct found; destruct pk; try discriminate; destruct (nsubs nd); try discriminate; destruct e; try discriminate.
    apply andb_true_iff in Hd. destruct Hd as [Hd Hh2]. apply andb_true_iff in Hd. destruct Hd as [Hd Hl2].
    apply andb_true_iff in Hd. destruct Hd as [Hz1 Hz2]. apply Z.eqb_eq in Hz1, Hz2. subst lo hi.
    apply N.ltb_lt in Hl2, Hh2. simpl in Hh.
    pose proof (ptb_char (eol_ch (ceol C)) (test_one_range true (Z.of_N lo0) (Z.of_N hi0)) (fun b => (lo0 <=? b) && (b <=? hi0)) c Hb) as K.
    rewrite Hh in K. specialize (K (fun b Hb' => test_range_mem lo0 hi0 b Hb' Hl2 Hh2)).
    pose proof (P_range g lo0 hi0 (rest c)) as P. destruct o; simpl in K; inversion K as [K']; simpl.
    + rewrite (Hc eq_refl). rewrite K'. exact P.
    + rewrite K'. exact P.
  - (* string *)
    destruct (nsubs nd); try discriminate; destruct e; try discriminate. apply eqb_ns_eq in Hd. subst cs.
    destruct (eval_atom (ceol C) (HString cs0) c) as [x|] eqn:Ea; [|discriminate Ea].
    pose proof (string_verdict _ _ _ _ Ea) as K. rewrite Hh in K.
    pose proof (P_string g cs0 (rest c)) as P. destruct o; simpl in K; inversion K as [K']; simpl.
    + rewrite (Hc eq_refl). rewrite K'. exact P.
    + rewrite K'. exact P.
  - (* seq *) simpl in Hh. unfold h_seq in Hh. apply andb_true_iff in Hd. destruct Hd as [Hl Hd].
    destruct (nsubs nd) as [|r1 [|r2 rs]] eqn:Es; [discriminate Hd | discriminate Hl |].
    apply guard_inv in Hh. destruct Hh as [c2 [Hh Hc2]].
    eapply Hconcl; [eapply seq_sound; eauto|]. intros E. rewrite (Hc E). symmetry. apply Hc2. exact E.
  - (* sor *) simpl in Hh. apply andb_true_iff in Hd. destruct Hd as [Hl Hd]. eapply Hconcl; [eapply sor_sound; eauto | exact Hc].
  - (* star *) destruct (nsubs nd) as [|r1 [|? ?]]; try discriminate. destruct e; try discriminate. simpl in Hh.
    destruct (star_sound _ _ _ _ _ _ _ _ Hd Hb Hh) as [K _]. eapply Hconcl; [exact K | exact Hc].
  - (* plus *) destruct (nsubs nd) as [|r1 [|? ?]]; try discriminate. destruct e; try discriminate. simpl in Hh.
    unfold h_plus, bind in Hh.
    destruct (eval G C f d' r1 c) as [[| |ex] c2 e2| |] eqn:E; try discriminate.
    + destruct (star_loop (eval G C f) f d' [r1] c2) as [o3 c3 e3| |] eqn:E3; try discriminate.
      simpl in Hh. inversion Hh; subst.
      assert (Hb2 : bytes_ok (rest c2)) by (eapply ev_bytes; eauto; discriminate).
      pose proof (IH _ _ _ _ _ _ _ Hd Hb E) as K1. destruct (star_sound _ _ _ _ _ _ _ _ Hd Hb2 E3) as [K2 N2]. simpl in K1.
      destruct o; simpl in *; [rewrite (Hc eq_refl); eapply P_plus_step; eauto | congruence | exact K2].
    + inversion Hh; subst. pose proof (IH _ _ _ _ _ _ _ Hd Hb E) as K1. simpl in *. apply P_plus_fail; exact K1.
    + inversion Hh; subst. pose proof (IH _ _ _ _ _ _ _ Hd Hb E) as K1. exact K1.
  - (* opt = partial with one sub *) destruct (nsubs nd) as [|r1 [|? ?]]; try discriminate. destruct e; try discriminate. simpl in Hh.
    unfold h_partial in Hh. cbn [seq_all] in Hh. unfold bind in Hh.
    destruct (eval G C f (req d') r1 c) as [[| |ex] c2 e2| |] eqn:E; try discriminate.
    + simpl in Hh. inversion Hh; subst. pose proof (IH _ _ _ _ _ _ _ Hd Hb E) as K1. simpl in *.
      rewrite (Hc eq_refl). eapply P_opt_ok; exact K1.
    + pose proof (ev_req_fail _ _ _ _ _ _ E) as ->. inversion Hh; subst. pose proof (IH _ _ _ _ _ _ _ Hd Hb E) as K1. simpl in *.
      rewrite (Hc eq_refl). apply P_opt_none; exact K1.
    + inversion Hh; subst. pose proof (IH _ _ _ _ _ _ _ Hd Hb E) as K1. exact K1.
  - (* at *) destruct (nsubs nd) as [|r1 [|? ?]]; try discriminate. destruct e; try discriminate. simpl in Hh.
    unfold h_at in Hh. apply look_inv in Hh. destruct Hh as [-> Hx].
    destruct (eval G C f (set_A (opt_ d') false) r1 c) as [[| |ex] c2 e2| |] eqn:E; try contradiction;
    pose proof (IH _ _ _ _ _ _ _ Hd Hb E) as K1; subst o; simpl in *.
    + rewrite (Hc eq_refl). eapply P_at_ok; exact K1.
    + apply P_at_fail; exact K1.
    + exact K1.
  - (* not_at *) destruct (nsubs nd) as [|r1 [|? ?]]; try discriminate. destruct e; try discriminate. simpl in Hh.
    unfold h_at in Hh. apply look_inv in Hh. destruct Hh as [-> Hx].
    destruct (eval G C f (set_A (opt_ d') false) r1 c) as [[| |ex] c2 e2| |] eqn:E; try contradiction;
    pose proof (IH _ _ _ _ _ _ _ Hd Hb E) as K1; subst o; simpl in *.
    + eapply P_not_at_ok; exact K1.
    + rewrite (Hc eq_refl). apply P_not_at_fail; exact K1.
    + exact K1.
Qed.
End Step.

Theorem exact_sound : forall f n d r e c o c' evs,
  denb G g nm n r e = true -> bytes_ok (rest c) -> eval G C f d r c = Res o c' evs -> concl e c o c'.
Proof.
  induction f as [|f IHf]; intros n d r e c o c' evs Hd Hb H; [discriminate|].
  destruct n as [|n]; [discriminate|]. cbn [denb] in Hd.
  destruct (nth_error G r) as [nd|] eqn:Hn; [|discriminate].
  assert (Node : forall n' e', den_node (denb G g nm n') nd e' = true -> concl e' c o c').
  { intros n' e' Hd'. eapply (node_sound f n'); eauto. }
  destruct e; try (apply (Node n); exact Hd).
  apply orb_true_iff in Hd. destruct Hd as [Hd|Hd]; [|apply (Node n); exact Hd].
  apply andb_true_iff in Hd. destruct Hd as [Hr Hk]. apply Nat.eqb_eq in Hr. subst r.
  destruct (nth_error g k) as [e'|] eqn:Ek; [|discriminate].
  destruct (Hdefs k e' Ek) as [Hnr [n2 Hd2]].
  destruct n2 as [|n2]; [discriminate|]. cbn [denb] in Hd2. rewrite Hn in Hd2.
  assert (Hd3 : den_node (denb G g nm n2) nd e' = true) by (destruct e'; try exact Hd2; discriminate Hnr).
  pose proof (Node n2 e' Hd3) as K. destruct o; simpl in *; try (eapply P_ref; eauto). exact K.
Qed.

End Exact.
