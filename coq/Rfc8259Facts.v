(* Rfc8259Facts.v — proofs about Rfc8259.v (property C14, specification side):
   the executable recogniser rfc8259_b is equivalent to the RFC 8259 grammar JSON_text. *)
From Coq Require Import List NArith Bool Lia Arith.
From PegtlV Require Import Utf Rfc8259.
Import ListNotations.
Local Open Scope N_scope.

(* ====================================================================================== *)
(* Boolean reflection helpers                                                              *)
(* ====================================================================================== *)
Lemma in_rng_spec lo hi b : in_rng lo hi b = true <-> lo <= b /\ b <= hi.
Proof. unfold in_rng. rewrite andb_true_iff, !N.leb_le. tauto. Qed.

Lemma in_rng_false lo hi b : in_rng lo hi b = false <-> ~ (lo <= b /\ b <= hi).
Proof.
  rewrite <- in_rng_spec. destruct (in_rng lo hi b); split; intro H;
    try reflexivity; try discriminate H; try (intro H'; discriminate H').
  exfalso; apply H; reflexivity.
Qed.

Ltac b2p :=
  repeat match goal with
  | H : _ && _ = true |- _ => apply andb_true_iff in H; destruct H
  | H : _ || _ = false |- _ => apply orb_false_iff in H; destruct H
  | H : _ || _ = true |- _ => apply orb_true_iff in H
  | H : _ && _ = false |- _ => apply andb_false_iff in H
  | H : in_rng _ _ _ = true |- _ => apply in_rng_spec in H
  | H : in_rng _ _ _ = false |- _ => apply in_rng_false in H
  | H : tail_b _ = true |- _ => unfold tail_b in H
  | H : tail_b _ = false |- _ => unfold tail_b in H
  | H : is_digitb _ = true |- _ => unfold is_digitb in H
  | H : is_digitb _ = false |- _ => unfold is_digitb in H
  | H : (_ <=? _) = true |- _ => apply N.leb_le in H
  | H : (_ <=? _) = false |- _ => apply N.leb_gt in H
  | H : (_ =? _) = true |- _ => apply N.eqb_eq in H
  | H : (_ =? _) = false |- _ => apply N.eqb_neq in H
  end.

(* ====================================================================================== *)
(* scan_utf8 = the table of RFC 3629 section 4 = Utf.utf8_enc                              *)
(* ====================================================================================== *)
Lemma scan_utf8_sound s cp r : scan_utf8 s = Some (cp, r) -> exists u, s = u ++ r /\ utf8_enc cp u.
Proof.
  intro H. unfold scan_utf8 in H.
  destruct s as [|b0 [|b1 [|b2 [|b3 t3]]]]; cbv beta iota in H;
  repeat match type of H with
  | context [if ?c then _ else _] => let E := fresh "E" in destruct c eqn:E
  | None = Some _ => discriminate H
  end; try discriminate H;
  injection H as <- <-; b2p; subst.
  all: try (exists [b0]; split; [reflexivity | constructor; lia]).
  all: try (exists [b0; b1]; split; [reflexivity | constructor; unfold utf8_tail; lia]).
  all: try (exists [0xE0; b1; b2]; split; [reflexivity | apply U8_3a; unfold utf8_tail; lia]).
  all: try (exists [0xED; b1; b2]; split; [reflexivity | apply U8_3c; unfold utf8_tail; lia]).
  all: try (exists [b0; b1; b2]; split; [reflexivity | first [apply U8_3b; unfold utf8_tail; lia | apply U8_3d; unfold utf8_tail; lia]]).
  all: try (exists [0xF0; b1; b2; b3]; split; [reflexivity | apply U8_4a; unfold utf8_tail; lia]).
  all: try (exists [0xF4; b1; b2; b3]; split; [reflexivity | apply U8_4c; unfold utf8_tail; lia]).
  all: try (exists [b0; b1; b2; b3]; split; [reflexivity | apply U8_4b; unfold utf8_tail; lia]).
Qed.

Lemma scan_utf8_complete cp u r : utf8_enc cp u -> scan_utf8 (u ++ r) = Some (cp, r).
Proof.
  intro H. destruct H; unfold utf8_tail in *; cbn [app]; unfold scan_utf8, tail_b, in_rng;
  repeat (match goal with
  | |- context [?a <=? ?b] => destruct (N.leb_spec a b); try lia
  | |- context [?a =? ?b] => destruct (N.eqb_spec a b); try lia
  end; cbn [andb]); reflexivity.
Qed.

Lemma scan_utf8_spec s cp r : scan_utf8 s = Some (cp, r) <-> exists u, s = u ++ r /\ utf8_enc cp u.
Proof.
  split.
  - apply scan_utf8_sound.
  - intros [u [-> H]]. apply scan_utf8_complete; exact H.
Qed.

Lemma scan_utf8_ascii b t : b <= 0x7F -> scan_utf8 (b :: t) = Some (b, t).
Proof. intro H. unfold scan_utf8. apply N.leb_le in H. rewrite H. reflexivity. Qed.

Lemma utf8_enc_nonempty cp u : utf8_enc cp u -> (1 <= length u)%nat.
Proof. intro H; destruct H; cbn [length]; lia. Qed.

(* first byte of a well-formed sequence: ASCII (the byte is the code point) or a lead byte *)
Lemma utf8_enc_head cp b u : utf8_enc cp (b :: u) ->
  (b <= 0x7F /\ cp = b /\ u = []) \/ (0xC2 <= b /\ 0x80 <= cp).
Proof.
  intro H. inversion H; subst; unfold utf8_tail, val2, val3, val4 in *; try (left; repeat split; lia); right; split; lia.
Qed.

Lemma scan_utf8_multibyte b t cp r : 0x7F < b -> scan_utf8 (b :: t) = Some (cp, r) -> 0x80 <= cp.
Proof.
  intros Hb H. apply scan_utf8_sound in H. destruct H as [u [Hs Hu]].
  destruct u as [|b' u'].
  - apply utf8_enc_nonempty in Hu. cbn in Hu. lia.
  - cbn [app] in Hs. injection Hs as <- _. apply utf8_enc_head in Hu. lia.
Qed.

Lemma scan_utf8_len s cp r : scan_utf8 s = Some (cp, r) -> (length r < length s)%nat.
Proof.
  intro H. apply scan_utf8_sound in H. destruct H as [u [-> Hu]].
  apply utf8_enc_nonempty in Hu. rewrite app_length. lia.
Qed.

(* ====================================================================================== *)
(* Length facts: every scanner returns a suffix that is not longer than its input          *)
(* ====================================================================================== *)
Lemma skip_ws_len s : (length (skip_ws s) <= length s)%nat.
Proof. induction s as [|b t IH]; cbn [skip_ws]; [lia|]. destruct (is_wsb b); cbn [length]; lia. Qed.

Lemma skip_digits_len s : (length (skip_digits s) <= length s)%nat.
Proof. induction s as [|b t IH]; cbn [skip_digits]; [lia|]. destruct (is_digitb b); cbn [length]; lia. Qed.

Lemma scan_digits1_len s r : scan_digits1 s = Some r -> (length r < length s)%nat.
Proof.
  destruct s as [|b t]; cbn [scan_digits1]; [discriminate|].
  destruct (is_digitb b); [|discriminate]. intro H; injection H as <-.
  pose proof (skip_digits_len t). cbn [length]; lia.
Qed.

Lemma scan_int_len s r : scan_int s = Some r -> (length r < length s)%nat.
Proof.
  destruct s as [|b t]; cbn [scan_int]; [discriminate|].
  destruct (b =? 0x30).
  - intro H; injection H as <-. cbn [length]; lia.
  - destruct (is_digitb b); [|discriminate]. intro H; injection H as <-.
    pose proof (skip_digits_len t). cbn [length]; lia.
Qed.

Lemma scan_frac_len s : (length (scan_frac s) <= length s)%nat.
Proof.
  destruct s as [|b t]; cbn [scan_frac]; [lia|].
  destruct (b =? 0x2E); [|lia].
  destruct (scan_digits1 t) as [r|] eqn:E; [|lia].
  apply scan_digits1_len in E. cbn [length]; lia.
Qed.

Lemma skip_sign_len s : (length (skip_sign s) <= length s)%nat.
Proof. destruct s as [|b t]; cbn [skip_sign]; [lia|]. destruct (is_signb b); cbn [length]; lia. Qed.

Lemma skip_minus_len s : (length (skip_minus s) <= length s)%nat.
Proof. destruct s as [|b t]; cbn [skip_minus]; [lia|]. destruct (b =? 0x2D); cbn [length]; lia. Qed.

Lemma scan_exp_len s : (length (scan_exp s) <= length s)%nat.
Proof.
  destruct s as [|b t]; cbn [scan_exp]; [lia|].
  destruct (is_eb b); [|lia].
  destruct (scan_digits1 (skip_sign t)) as [r|] eqn:E; [|lia].
  apply scan_digits1_len in E. pose proof (skip_sign_len t). cbn [length]; lia.
Qed.

Lemma scan_number_len s r : scan_number s = Some r -> (length r < length s)%nat.
Proof.
  unfold scan_number. destruct (scan_int (skip_minus s)) as [r1|] eqn:E; [|discriminate].
  intro H; injection H as <-. apply scan_int_len in E.
  pose proof (skip_minus_len s). pose proof (scan_frac_len r1). pose proof (scan_exp_len (scan_frac r1)). lia.
Qed.

Lemma scan_chars_len f : forall s r, scan_chars f s = Some r -> (length r < length s)%nat.
Proof.
  induction f as [|f IH]; intros s r H; cbn [scan_chars] in H; [discriminate|].
  destruct s as [|b t]; [discriminate|].
  destruct (b =? 0x22).
  { injection H as <-. cbn [length]; lia. }
  destruct (b =? 0x5C).
  { destruct t as [|e t']; [discriminate|].
    destruct (is_escb e).
    { apply IH in H. cbn [length]; lia. }
    destruct (e =? 0x75); [|discriminate].
    destruct t' as [|h1 [|h2 [|h3 [|h4 t'']]]]; try discriminate.
    destruct (is_hexb h1 && is_hexb h2 && is_hexb h3 && is_hexb h4); [|discriminate].
    apply IH in H. cbn [length]; lia. }
  destruct (scan_utf8 (b :: t)) as [[cp r']|] eqn:E; [|discriminate].
  destruct (unescaped_cpb cp); [|discriminate].
  apply IH in H. apply scan_utf8_len in E. lia.
Qed.

Lemma scan_string_len s r : scan_string s = Some r -> (length r < length s)%nat.
Proof.
  destruct s as [|b t]; cbn [scan_string]; [discriminate|].
  destruct (b =? 0x22); [|discriminate]. intro H. apply scan_chars_len in H. cbn [length]; lia.
Qed.

Lemma strip_prefix_app p : forall s r, strip_prefix p s = Some r -> s = p ++ r.
Proof.
  induction p as [|x p IH]; intros s r H; cbn [strip_prefix] in H.
  - injection H as <-. reflexivity.
  - destruct s as [|y s']; [discriminate|].
    destruct (N.eqb_spec x y) as [->|]; [|discriminate].
    apply IH in H. subst s'. reflexivity.
Qed.

Lemma strip_prefix_complete p r : strip_prefix p (p ++ r) = Some r.
Proof. induction p as [|x p IH]; cbn [strip_prefix app]; [reflexivity|]. rewrite N.eqb_refl. exact IH. Qed.

Definition nonlen (item : list N -> option (list N)) : Prop :=
  forall x y, item x = Some y -> (length y <= length x)%nat.

Lemma scan_element_len val : nonlen val -> forall x y, scan_element val x = Some y -> (length y <= length x)%nat.
Proof.
  intros Hv x y. unfold scan_element. destruct (val x) as [z|] eqn:E; cbn [option_map]; [|discriminate].
  intro H; injection H as <-. apply Hv in E. pose proof (skip_ws_len z). lia.
Qed.

Lemma scan_member_len val : nonlen val -> forall x y, scan_member val x = Some y -> (length y < length x)%nat.
Proof.
  intros Hv x y. unfold scan_member.
  destruct (scan_string x) as [s1|] eqn:E1; [|discriminate].
  destruct (skip_ws s1) as [|c s2] eqn:E2; [discriminate|].
  destruct (c =? 0x3A); [|discriminate].
  destruct (val (skip_ws s2)) as [z|] eqn:E3; cbn [option_map]; [|discriminate].
  intro H; injection H as <-.
  apply scan_string_len in E1. apply Hv in E3.
  pose proof (skip_ws_len s1) as L1. rewrite E2 in L1. cbn [length] in L1.
  pose proof (skip_ws_len s2). pose proof (skip_ws_len z). lia.
Qed.

Lemma scan_tail_len item close : nonlen item ->
  forall n s r, scan_tail item close n s = Some r -> (length r < length s)%nat.
Proof.
  intros Hi. induction n as [|n IH]; intros s r H; cbn [scan_tail] in H; [discriminate|].
  destruct s as [|c t]; [discriminate|].
  destruct (c =? close).
  { injection H as <-. cbn [length]; lia. }
  destruct (c =? 0x2C); [|discriminate].
  destruct (item (skip_ws t)) as [s'|] eqn:E; [|discriminate].
  apply IH in H. apply Hi in E. pose proof (skip_ws_len t). cbn [length]; lia.
Qed.

Lemma scan_container_len item close : nonlen item ->
  forall t r, scan_container item close t = Some r -> (length r < length t)%nat.
Proof.
  intros Hi t r. unfold scan_container.
  destruct (skip_ws t) as [|c t'] eqn:E; [discriminate|].
  pose proof (skip_ws_len t) as L. rewrite E in L. cbn [length] in L.
  destruct (c =? close).
  { intro H; injection H as <-. lia. }
  destruct (item (c :: t')) as [s'|] eqn:E2; [|discriminate].
  intro H. apply scan_tail_len in H; [|exact Hi]. apply Hi in E2. cbn [length] in E2. lia.
Qed.

Lemma scan_value_len f : forall s r, scan_value f s = Some r -> (length r < length s)%nat.
Proof.
  induction f as [|f IH]; intros s r H; cbn [scan_value] in H; [discriminate|].
  assert (Hn : nonlen (scan_value f)).
  { intros x y Hx. apply IH in Hx. lia. }
  destruct s as [|b t]; [discriminate|].
  destruct (b =? 0x22); [apply scan_string_len; exact H|].
  destruct (b =? 0x7B).
  { apply scan_container_len in H; [cbn [length]; lia|].
    intros x y Hx. apply scan_member_len in Hx; [lia|exact Hn]. }
  destruct (b =? 0x5B).
  { apply scan_container_len in H; [cbn [length]; lia|].
    intros x y Hx. apply scan_element_len in Hx; [lia|exact Hn]. }
  destruct (b =? 0x66).
  { apply strip_prefix_app in H. rewrite H. rewrite app_length. cbn; lia. }
  destruct (b =? 0x74).
  { apply strip_prefix_app in H. rewrite H. rewrite app_length. cbn; lia. }
  destruct (b =? 0x6E).
  { apply strip_prefix_app in H. rewrite H. rewrite app_length. cbn; lia. }
  apply scan_number_len; exact H.
Qed.

Lemma scan_value_nonlen f : nonlen (scan_value f).
Proof. intros x y H. apply scan_value_len in H. lia. Qed.

Lemma scan_element_nonlen f : nonlen (scan_element (scan_value f)).
Proof. intros x y H. apply scan_element_len in H; [exact H|apply scan_value_nonlen]. Qed.

Lemma scan_member_nonlen f : nonlen (scan_member (scan_value f)).
Proof. intros x y H. apply scan_member_len in H; [lia|apply scan_value_nonlen]. Qed.

(* ====================================================================================== *)
(* Fuel stability                                                                          *)
(* ====================================================================================== *)
Lemma scan_chars_fuel2 f1 : forall f2 s, (length s < f1)%nat -> (length s < f2)%nat ->
  scan_chars f1 s = scan_chars f2 s.
Proof.
  induction f1 as [|f1 IH]; intros f2 s H1 H2; [lia|].
  destruct f2 as [|f2]; [lia|].
  cbn [scan_chars].
  destruct s as [|b t]; [reflexivity|]. cbn [length] in H1, H2.
  destruct (b =? 0x22); [reflexivity|].
  destruct (b =? 0x5C).
  { destruct t as [|e t']; [reflexivity|]. cbn [length] in H1, H2.
    destruct (is_escb e).
    { apply IH; lia. }
    destruct (e =? 0x75); [|reflexivity].
    destruct t' as [|h1 [|h2 [|h3 [|h4 t'']]]]; try reflexivity. cbn [length] in H1, H2.
    destruct (is_hexb h1 && is_hexb h2 && is_hexb h3 && is_hexb h4); [|reflexivity].
    apply IH; lia. }
  destruct (scan_utf8 (b :: t)) as [[cp r']|] eqn:E; [|reflexivity].
  destruct (unescaped_cpb cp); [|reflexivity].
  apply scan_utf8_len in E. cbn [length] in E. apply IH; lia.
Qed.

Lemma scan_chars_fuel f s : (length s < f)%nat -> scan_chars f s = scan_chars (S (length s)) s.
Proof. intro H. apply scan_chars_fuel2; lia. Qed.

Lemma scan_tail_fuel2 item close : nonlen item ->
  forall n1 n2 s, (length s < n1)%nat -> (length s < n2)%nat ->
  scan_tail item close n1 s = scan_tail item close n2 s.
Proof.
  intros Hi. induction n1 as [|n1 IH]; intros n2 s H1 H2; [lia|].
  destruct n2 as [|n2]; [lia|].
  cbn [scan_tail]. destruct s as [|c t]; [reflexivity|]. cbn [length] in H1, H2.
  destruct (c =? close); [reflexivity|].
  destruct (c =? 0x2C); [|reflexivity].
  destruct (item (skip_ws t)) as [s'|] eqn:E; [|reflexivity].
  apply Hi in E. pose proof (skip_ws_len t). apply IH; lia.
Qed.

Lemma scan_tail_fuel item close n s :
  (forall x y, item x = Some y -> (length y <= length x)%nat) -> (length s < n)%nat ->
  scan_tail item close n s = scan_tail item close (S (length s)) s.
Proof. intros Hi H. apply scan_tail_fuel2; [exact Hi|lia|lia]. Qed.

(* two item scanners that agree on all inputs up to length m *)
Lemma scan_tail_ext item1 item2 close m : nonlen item1 ->
  (forall x, (length x <= m)%nat -> item1 x = item2 x) ->
  forall n s, (length s <= S m)%nat -> scan_tail item1 close n s = scan_tail item2 close n s.
Proof.
  intros Hi Hx. induction n as [|n IH]; intros s Hs; [reflexivity|].
  cbn [scan_tail]. destruct s as [|c t]; [reflexivity|]. cbn [length] in Hs.
  destruct (c =? close); [reflexivity|].
  destruct (c =? 0x2C); [|reflexivity].
  pose proof (skip_ws_len t) as L.
  rewrite <- (Hx (skip_ws t)) by lia.
  destruct (item1 (skip_ws t)) as [s'|] eqn:E; [|reflexivity].
  apply Hi in E. apply IH; lia.
Qed.

Lemma scan_container_ext item1 item2 close t : nonlen item1 ->
  (forall x, (length x <= length t)%nat -> item1 x = item2 x) ->
  scan_container item1 close t = scan_container item2 close t.
Proof.
  intros Hi Hx. unfold scan_container.
  destruct (skip_ws t) as [|c t'] eqn:E; [reflexivity|].
  pose proof (skip_ws_len t) as L. rewrite E in L.
  destruct (c =? close); [reflexivity|].
  rewrite <- (Hx (c :: t')) by exact L.
  destruct (item1 (c :: t')) as [s'|] eqn:E2; [|reflexivity].
  apply Hi in E2.
  apply (scan_tail_ext item1 item2 close (length t) Hi Hx). lia.
Qed.

Lemma scan_element_ext val1 val2 x : val1 x = val2 x -> scan_element val1 x = scan_element val2 x.
Proof. unfold scan_element. intros ->. reflexivity. Qed.

Lemma scan_member_ext val1 val2 x :
  (forall y, (length y <= length x)%nat -> val1 y = val2 y) -> scan_member val1 x = scan_member val2 x.
Proof.
  intro H. unfold scan_member.
  destruct (scan_string x) as [s1|] eqn:E1; [|reflexivity].
  destruct (skip_ws s1) as [|c s2] eqn:E2; [reflexivity|].
  destruct (c =? 0x3A); [|reflexivity].
  apply scan_string_len in E1.
  pose proof (skip_ws_len s1) as L1. rewrite E2 in L1. cbn [length] in L1.
  pose proof (skip_ws_len s2).
  rewrite H by lia. reflexivity.
Qed.

Lemma scan_value_fuel2 f1 : forall f2 s, (length s < f1)%nat -> (length s < f2)%nat ->
  scan_value f1 s = scan_value f2 s.
Proof.
  induction f1 as [|f1 IH]; intros f2 s H1 H2; [lia|].
  destruct f2 as [|f2]; [lia|].
  cbn [scan_value]. destruct s as [|b t]; [reflexivity|]. cbn [length] in H1, H2.
  destruct (b =? 0x22); [reflexivity|].
  destruct (b =? 0x7B).
  { apply scan_container_ext; [apply scan_member_nonlen|].
    intros x Hx. apply scan_member_ext. intros y Hy. apply IH; lia. }
  destruct (b =? 0x5B).
  { apply scan_container_ext; [apply scan_element_nonlen|].
    intros x Hx. apply scan_element_ext. apply IH; lia. }
  reflexivity.
Qed.

Lemma scan_value_fuel f s : (length s < f)%nat -> scan_value f s = scan_val s.
Proof. intro H. unfold scan_val. apply scan_value_fuel2; lia. Qed.

(* ====================================================================================== *)
(* Soundness: what a scanner consumed is derivable in the grammar                          *)
(* ====================================================================================== *)
Lemma is_wsb_spec b : is_wsb b = true <-> is_ws b.
Proof. unfold is_wsb, is_ws. rewrite !orb_true_iff, !N.eqb_eq. tauto. Qed.

Lemma is_digitb_spec b : is_digitb b = true <-> DIGIT b.
Proof. unfold is_digitb, DIGIT. apply in_rng_spec. Qed.

Lemma is_hexb_spec b : is_hexb b = true <-> HEXDIG b.
Proof. unfold is_hexb, HEXDIG. rewrite !orb_true_iff, is_digitb_spec, !in_rng_spec. tauto. Qed.

Lemma is_escb_spec b : is_escb b = true <-> escapable b.
Proof. unfold is_escb, escapable. rewrite !orb_true_iff, !N.eqb_eq. tauto. Qed.

Lemma unescaped_cpb_spec cp : unescaped_cpb cp = true <-> unescaped_cp cp.
Proof. unfold unescaped_cpb, unescaped_cp. rewrite !orb_true_iff, !in_rng_spec. tauto. Qed.

Lemma is_eb_spec b : is_eb b = true <-> is_e b.
Proof. unfold is_eb, is_e. rewrite !orb_true_iff, !N.eqb_eq. tauto. Qed.

Lemma is_signb_spec b : is_signb b = true <-> is_sign b.
Proof. unfold is_signb, is_sign. rewrite !orb_true_iff, !N.eqb_eq. tauto. Qed.

Lemma skip_ws_spec s : exists w, s = w ++ skip_ws s /\ ws w.
Proof.
  induction s as [|b t [w [E W]]]; cbn [skip_ws].
  - exists []. split; [reflexivity|constructor].
  - destruct (is_wsb b) eqn:Eb.
    + exists (b :: w). split.
      * cbn [app]. f_equal. exact E.
      * constructor; [apply is_wsb_spec; exact Eb|exact W].
    + exists []. split; [reflexivity|constructor].
Qed.

Lemma skip_digits_spec s : exists d, s = d ++ skip_digits s /\ digits0 d.
Proof.
  induction s as [|b t [d [E D]]]; cbn [skip_digits].
  - exists []. split; [reflexivity|constructor].
  - destruct (is_digitb b) eqn:Eb.
    + exists (b :: d). split.
      * cbn [app]. f_equal. exact E.
      * constructor; [apply is_digitb_spec; exact Eb|exact D].
    + exists []. split; [reflexivity|constructor].
Qed.

Lemma scan_digits1_sound s r : scan_digits1 s = Some r -> exists d, s = d ++ r /\ digits1 d.
Proof.
  destruct s as [|b t]; cbn [scan_digits1]; [discriminate|].
  destruct (is_digitb b) eqn:Eb; [|discriminate]. intro H; injection H as <-.
  destruct (skip_digits_spec t) as [d [E D]].
  exists (b :: d). split.
  - cbn [app]. f_equal. exact E.
  - constructor; [apply is_digitb_spec; exact Eb|exact D].
Qed.

Lemma scan_int_sound s r : scan_int s = Some r -> exists i, s = i ++ r /\ int_ i.
Proof.
  destruct s as [|b t]; cbn [scan_int]; [discriminate|].
  destruct (N.eqb_spec b 0x30) as [->|Hne].
  - intro H; injection H as <-. exists [0x30]. split; [reflexivity|constructor].
  - destruct (is_digitb b) eqn:Eb; [|discriminate]. intro H; injection H as <-.
    destruct (skip_digits_spec t) as [d [E D]].
    exists (b :: d). split.
    + cbn [app]. f_equal. exact E.
    + apply is_digitb_spec in Eb. unfold DIGIT in Eb. constructor; [unfold digit1_9; lia|exact D].
Qed.

Lemma scan_frac_sound s : exists p, s = p ++ scan_frac s /\ optional frac p.
Proof.
  assert (Hnil : exists p, s = p ++ s /\ optional frac p).
  { exists []. split; [reflexivity|left; reflexivity]. }
  destruct s as [|b t]; cbn [scan_frac]; [exact Hnil|].
  destruct (N.eqb_spec b 0x2E) as [->|Hne]; [|exact Hnil].
  destruct (scan_digits1 t) as [r|] eqn:E; [|exact Hnil].
  apply scan_digits1_sound in E. destruct E as [d [-> D]].
  exists (0x2E :: d). split; [reflexivity|right; constructor; exact D].
Qed.

Lemma scan_exp_sound s : exists p, s = p ++ scan_exp s /\ optional exp_ p.
Proof.
  assert (Hnil : exists p, s = p ++ s /\ optional exp_ p).
  { exists []. split; [reflexivity|left; reflexivity]. }
  destruct s as [|b t]; cbn [scan_exp]; [exact Hnil|].
  destruct (is_eb b) eqn:Eb; [|exact Hnil]. apply is_eb_spec in Eb.
  destruct (scan_digits1 (skip_sign t)) as [r|] eqn:E; [|exact Hnil].
  apply scan_digits1_sound in E. destruct E as [d [E D]].
  destruct t as [|sg t']; cbn [skip_sign] in E.
  - destruct D as [b' d' Hb' Hd']; discriminate E.
  - destruct (is_signb sg) eqn:Es.
    + apply is_signb_spec in Es. subst t'.
      exists (b :: sg :: d). split; [reflexivity|right; apply exp_signed; assumption].
    + exists (b :: d). split; [cbn [app]; f_equal; exact E|right; apply exp_plain; assumption].
Qed.

Lemma skip_minus_spec s : exists m, s = m ++ skip_minus s /\ optional minus m.
Proof.
  assert (Hnil : exists m, s = m ++ s /\ optional minus m).
  { exists []. split; [reflexivity|left; reflexivity]. }
  destruct s as [|b t]; cbn [skip_minus]; [exact Hnil|].
  destruct (N.eqb_spec b 0x2D) as [->|Hne]; [|exact Hnil].
  exists [0x2D]. split; [reflexivity|right; reflexivity].
Qed.

Lemma scan_number_sound s r : scan_number s = Some r -> exists n, s = n ++ r /\ number n.
Proof.
  unfold scan_number. destruct (scan_int (skip_minus s)) as [r1|] eqn:E; [|discriminate].
  intro H; injection H as <-.
  destruct (skip_minus_spec s) as [m [Em M]].
  apply scan_int_sound in E. destruct E as [i [Ei I]].
  destruct (scan_frac_sound r1) as [f [Ef F]].
  destruct (scan_exp_sound (scan_frac r1)) as [e [Ee EE]].
  exists (m ++ i ++ f ++ e). split; [|constructor; assumption].
  rewrite Em at 1. rewrite Ei. rewrite Ef at 1. rewrite Ee at 1.
  rewrite <- !app_assoc. reflexivity.
Qed.

Lemma scan_chars_sound f : forall s r, scan_chars f s = Some r -> exists cs, s = cs ++ 0x22 :: r /\ chars cs.
Proof.
  induction f as [|f IH]; intros s r H; cbn [scan_chars] in H; [discriminate|].
  destruct s as [|b t]; [discriminate|].
  destruct (N.eqb_spec b 0x22) as [->|Hq].
  { injection H as <-. exists []. split; [reflexivity|constructor]. }
  destruct (N.eqb_spec b 0x5C) as [->|Hb].
  { destruct t as [|e t']; [discriminate|].
    destruct (is_escb e) eqn:Ee.
    { apply IH in H. destruct H as [cs [-> C]].
      exists ([0x5C; e] ++ cs). split; [reflexivity|].
      apply chars_app; [apply char_escaped; apply is_escb_spec; exact Ee|exact C]. }
    destruct (N.eqb_spec e 0x75) as [->|Hu]; [|discriminate].
    destruct t' as [|h1 [|h2 [|h3 [|h4 t'']]]]; try discriminate.
    destruct (is_hexb h1 && is_hexb h2 && is_hexb h3 && is_hexb h4) eqn:Eh; [|discriminate].
    apply andb_true_iff in Eh. destruct Eh as [Eh E4].
    apply andb_true_iff in Eh. destruct Eh as [Eh E3].
    apply andb_true_iff in Eh. destruct Eh as [E1 E2].
    apply IH in H. destruct H as [cs [-> C]].
    exists ([0x5C; 0x75; h1; h2; h3; h4] ++ cs). split; [reflexivity|].
    apply chars_app; [apply char_unicode; apply is_hexb_spec; assumption|exact C]. }
  destruct (scan_utf8 (b :: t)) as [[cp r']|] eqn:E; [|discriminate].
  destruct (unescaped_cpb cp) eqn:Eu; [|discriminate].
  apply scan_utf8_sound in E. destruct E as [u [Es U]].
  apply IH in H. destruct H as [cs [-> C]].
  exists (u ++ cs). split; [rewrite <- app_assoc; exact Es|].
  apply chars_app; [|exact C].
  apply (char_unescaped cp); [exact U|apply unescaped_cpb_spec; exact Eu].
Qed.

Lemma scan_string_sound s r : scan_string s = Some r -> exists k, s = k ++ r /\ string_ k.
Proof.
  destruct s as [|b t]; cbn [scan_string]; [discriminate|].
  destruct (N.eqb_spec b 0x22) as [->|Hq]; [|discriminate].
  intro H. apply scan_chars_sound in H. destruct H as [cs [-> C]].
  exists (0x22 :: cs ++ [0x22]). split; [|constructor; exact C].
  cbn [app]. rewrite <- app_assoc. reflexivity.
Qed.

Definition sound_for (P : list N -> Prop) (scan : list N -> option (list N)) : Prop :=
  forall x y, scan x = Some y -> exists p, x = p ++ y /\ P p.
(* item followed by skipped blanks *)
Definition sound_item (P : list N -> Prop) (item : list N -> option (list N)) : Prop :=
  forall x y, item x = Some y -> exists p w, x = p ++ w ++ y /\ P p /\ ws w.

Section ContainerSound.
Variables (item : list N -> option (list N)) (close : N) (Item Items : list N -> Prop).
Hypothesis item_sound : sound_item Item item.
Hypothesis items_one : forall p, Item p -> Items p.
Hypothesis items_more : forall p sep ps, Item p -> value_separator sep -> Items ps -> Items (p ++ sep ++ ps).

Lemma scan_tail_sound : forall n s r, scan_tail item close n s = Some r ->
  forall p w, Item p -> ws w -> exists ps e, p ++ w ++ s = ps ++ e ++ r /\ Items ps /\ structural close e.
Proof.
  induction n as [|n IH]; intros s r H p w Hp Hw; cbn [scan_tail] in H; [discriminate|].
  destruct s as [|c t]; [discriminate|].
  destruct (N.eqb_spec c close) as [->|Hc].
  { injection H as <-. exists p, (w ++ [close] ++ []). split; [|split].
    - cbn [app]. rewrite <- app_assoc. reflexivity.
    - apply items_one; exact Hp.
    - exists w, []. split; [exact Hw|split; [constructor|reflexivity]]. }
  destruct (N.eqb_spec c 0x2C) as [->|Hcomma]; [|discriminate].
  destruct (item (skip_ws t)) as [s'|] eqn:E; [|discriminate].
  destruct (skip_ws_spec t) as [w2 [Et W2]].
  apply item_sound in E. destruct E as [p' [w' [E [Hp' Hw']]]].
  destruct (IH _ _ H p' w' Hp' Hw') as [ps [e [Eq [Hps He]]]].
  exists (p ++ (w ++ [0x2C] ++ w2) ++ ps), e. split; [|split].
  - rewrite Et, E, Eq. rewrite <- !app_assoc. reflexivity.
  - apply items_more; [exact Hp| |exact Hps].
    exists w, w2. split; [exact Hw|split; [exact W2|reflexivity]].
  - exact He.
Qed.

Lemma scan_container_sound t r : scan_container item close t = Some r ->
  (exists w, ws w /\ t = w ++ close :: r) \/
  (exists w ps e, ws w /\ Items ps /\ structural close e /\ t = w ++ ps ++ e ++ r).
Proof.
  unfold scan_container. destruct (skip_ws_spec t) as [w [Et W]].
  destruct (skip_ws t) as [|c t']; [discriminate|].
  destruct (N.eqb_spec c close) as [->|Hc].
  { intro H; injection H as <-. left. exists w. split; [exact W|exact Et]. }
  destruct (item (c :: t')) as [s'|] eqn:E; [|discriminate].
  intro H. apply item_sound in E. destruct E as [p [w' [E [Hp Hw']]]].
  destruct (scan_tail_sound _ _ _ H p w' Hp Hw') as [ps [e [Eq [Hps He]]]].
  right. exists w, ps, e. split; [exact W|split; [exact Hps|split; [exact He|]]].
  rewrite Et, E, Eq. reflexivity.
Qed.
End ContainerSound.

Lemma scan_element_sound val : sound_for value val -> sound_item value (scan_element val).
Proof.
  intros Hv x y. unfold scan_element. destruct (val x) as [z|] eqn:E; cbn [option_map]; [|discriminate].
  intro H; injection H as <-. apply Hv in E. destruct E as [v [-> V]].
  destruct (skip_ws_spec z) as [w [Ez W]].
  exists v, w. split; [rewrite <- Ez; reflexivity|split; assumption].
Qed.

Lemma scan_member_sound val : sound_for value val -> sound_item member (scan_member val).
Proof.
  intros Hv x y. unfold scan_member.
  destruct (scan_string x) as [s1|] eqn:E1; [|discriminate].
  destruct (skip_ws_spec s1) as [w1 [Es1 W1]].
  destruct (skip_ws s1) as [|c s2]; [discriminate|].
  destruct (N.eqb_spec c 0x3A) as [->|Hc]; [|discriminate].
  destruct (skip_ws_spec s2) as [w2 [Es2 W2]].
  destruct (val (skip_ws s2)) as [z|] eqn:E3; cbn [option_map]; [|discriminate].
  intro H; injection H as <-.
  apply scan_string_sound in E1. destruct E1 as [k [-> K]].
  apply Hv in E3. destruct E3 as [v [E3 V]].
  destruct (skip_ws_spec z) as [w [Ez W]].
  exists (k ++ (w1 ++ [0x3A] ++ w2) ++ v), w. split; [|split].
  - rewrite Es1, Es2, E3. rewrite Ez at 1. rewrite <- !app_assoc. reflexivity.
  - constructor; [exact K| |exact V]. exists w1, w2. split; [exact W1|split; [exact W2|reflexivity]].
  - exact W.
Qed.

Lemma scan_value_sound f : sound_for value (scan_value f).
Proof.
  induction f as [|f IH]; intros s r H; cbn [scan_value] in H; [discriminate|].
  destruct s as [|b t]; [discriminate|].
  destruct (b =? 0x22).
  { apply scan_string_sound in H. destruct H as [k [E K]]. exists k. split; [exact E|apply v_string; exact K]. }
  destruct (N.eqb_spec b 0x7B) as [->|_].
  { apply (scan_container_sound _ _ member members (scan_member_sound _ IH) members_one members_more) in H.
    destruct H as [[w [W ->]]|[w [ps [e [W [Hps [He ->]]]]]]].
    - exists (([] ++ [0x7B] ++ w) ++ ([] ++ [0x7D] ++ [])). split.
      + cbn [app]. rewrite <- app_assoc. reflexivity.
      + apply v_object. apply object_empty.
        * exists [], w. split; [constructor|split; [exact W|reflexivity]].
        * exists [], []. split; [constructor|split; [constructor|reflexivity]].
    - exists (([] ++ [0x7B] ++ w) ++ ps ++ e). split.
      + cbn [app]. rewrite <- !app_assoc. reflexivity.
      + apply v_object. apply object_members; [|exact Hps|exact He].
        exists [], w. split; [constructor|split; [exact W|reflexivity]]. }
  destruct (N.eqb_spec b 0x5B) as [->|_].
  { apply (scan_container_sound _ _ value elements (scan_element_sound _ IH) elements_one elements_more) in H.
    destruct H as [[w [W ->]]|[w [ps [e [W [Hps [He ->]]]]]]].
    - exists (([] ++ [0x5B] ++ w) ++ ([] ++ [0x5D] ++ [])). split.
      + cbn [app]. rewrite <- app_assoc. reflexivity.
      + apply v_array. apply array_empty.
        * exists [], w. split; [constructor|split; [exact W|reflexivity]].
        * exists [], []. split; [constructor|split; [constructor|reflexivity]].
    - exists (([] ++ [0x5B] ++ w) ++ ps ++ e). split.
      + cbn [app]. rewrite <- !app_assoc. reflexivity.
      + apply v_array. apply array_elements; [|exact Hps|exact He].
        exists [], w. split; [constructor|split; [exact W|reflexivity]]. }
  destruct (b =? 0x66).
  { apply strip_prefix_app in H. exists lit_false. split; [exact H|constructor]. }
  destruct (b =? 0x74).
  { apply strip_prefix_app in H. exists lit_true. split; [exact H|constructor]. }
  destruct (b =? 0x6E).
  { apply strip_prefix_app in H. exists lit_null. split; [exact H|constructor]. }
  apply scan_number_sound in H. destruct H as [n [E Hn]]. exists n. split; [exact E|apply v_number; exact Hn].
Qed.

Theorem rfc8259_b_sound s : rfc8259_b s = true -> JSON_text s.
Proof.
  unfold rfc8259_b, scan_val. intro H.
  destruct (skip_ws_spec s) as [w1 [Es W1]].
  destruct (scan_value (S (length (skip_ws s))) (skip_ws s)) as [r|] eqn:E; [|discriminate].
  apply scan_value_sound in E. destruct E as [v [Ev V]].
  destruct (skip_ws_spec r) as [w2 [Er W2]].
  destruct (skip_ws r); [|discriminate].
  exists w1, v, w2. split; [exact W1|split; [exact V|split; [exact W2|]]].
  rewrite Es, Ev. rewrite Er at 1. rewrite app_nil_r. reflexivity.
Qed.

(* ====================================================================================== *)
(* Completeness: the greedy scanner accepts every derivation, given a FOLLOW condition      *)
(* ====================================================================================== *)
(* a property of the first byte of the continuation (vacuous at end of input) *)
Definition hd_ok (P : N -> Prop) (r : list N) : Prop :=
  match r with [] => True | b :: _ => P b end.
Definition nodigit := hd_ok (fun b => is_digitb b = false).
Definition numfollow := hd_ok (fun b => is_digitb b = false /\ b <> 0x2E /\ is_eb b = false).
(* what can follow a value inside a JSON text: ws, ',', ']', '}' or the end *)
Definition follow := hd_ok (fun b => is_wsb b = true \/ b = 0x2C \/ b = 0x5D \/ b = 0x7D).

Lemma skip_ws_app w r : ws w -> skip_ws (w ++ r) = skip_ws r.
Proof.
  induction 1 as [|b s Hb W IH]; cbn [app skip_ws]; [reflexivity|].
  apply is_wsb_spec in Hb. rewrite Hb. exact IH.
Qed.

Lemma skip_ws_ws w : ws w -> skip_ws w = [].
Proof. intro W. rewrite <- (app_nil_r w). rewrite skip_ws_app by exact W. reflexivity. Qed.

Lemma skip_ws_cons_nows b t : is_wsb b = false -> skip_ws (b :: t) = b :: t.
Proof. intro H. cbn [skip_ws]. rewrite H. reflexivity. Qed.

Lemma skip_digits_complete d r : digits0 d -> nodigit r -> skip_digits (d ++ r) = r.
Proof.
  intros D Hr. induction D as [|b s Hb D IH]; cbn [app].
  - destruct r as [|b t]; [reflexivity|]. cbn in Hr. cbn [skip_digits]. rewrite Hr. reflexivity.
  - cbn [skip_digits]. apply is_digitb_spec in Hb. rewrite Hb. exact IH.
Qed.

Lemma scan_digits1_complete d r : digits1 d -> nodigit r -> scan_digits1 (d ++ r) = Some r.
Proof.
  intros D Hr. destruct D as [b s Hb D]. cbn [app scan_digits1].
  apply is_digitb_spec in Hb. rewrite Hb. rewrite skip_digits_complete by assumption. reflexivity.
Qed.

Lemma scan_int_complete i r : int_ i -> nodigit r -> scan_int (i ++ r) = Some r.
Proof.
  intros I Hr. destruct I as [|b s Hb D]; cbn [app scan_int].
  - reflexivity.
  - unfold digit1_9 in Hb. destruct (N.eqb_spec b 0x30) as [E|_]; [lia|].
    assert (Hd : is_digitb b = true) by (apply is_digitb_spec; unfold DIGIT; lia).
    rewrite Hd. rewrite skip_digits_complete by assumption. reflexivity.
Qed.

Lemma scan_frac_none r : hd_ok (fun b => b <> 0x2E) r -> scan_frac r = r.
Proof.
  destruct r as [|b t]; [reflexivity|]. cbn [hd_ok scan_frac]. intro H.
  destruct (N.eqb_spec b 0x2E) as [E|_]; [contradiction|reflexivity].
Qed.

Lemma scan_frac_some f r : frac f -> nodigit r -> scan_frac (f ++ r) = r.
Proof.
  intros F Hr. destruct F as [d D]. cbn [app scan_frac].
  change (0x2E =? 0x2E) with true. cbv iota.
  rewrite scan_digits1_complete by assumption. reflexivity.
Qed.

Lemma scan_exp_none r : hd_ok (fun b => is_eb b = false) r -> scan_exp r = r.
Proof.
  destruct r as [|b t]; [reflexivity|]. cbn [hd_ok scan_exp]. intro H. rewrite H. reflexivity.
Qed.

Lemma scan_exp_some e r : exp_ e -> nodigit r -> scan_exp (e ++ r) = r.
Proof.
  intros E Hr. destruct E as [e d He D|e sg d He Hs D]; cbn [app scan_exp];
    apply is_eb_spec in He; rewrite He.
  - assert (Hk : skip_sign (d ++ r) = d ++ r).
    { destruct D as [b s Hb D]. cbn [app skip_sign].
      assert (Hsg : is_signb b = false).
      { unfold DIGIT in Hb. unfold is_signb. apply orb_false_iff. split; apply N.eqb_neq; lia. }
      rewrite Hsg. reflexivity. }
    rewrite Hk. rewrite scan_digits1_complete by assumption. reflexivity.
  - cbn [skip_sign]. apply is_signb_spec in Hs. rewrite Hs.
    rewrite scan_digits1_complete by assumption. reflexivity.
Qed.

Lemma int_head i : int_ i -> exists b t, i = b :: t /\ is_digitb b = true.
Proof.
  intro I. destruct I as [|b s Hb D].
  - exists 0x30, []. split; reflexivity.
  - exists b, s. split; [reflexivity|]. apply is_digitb_spec. unfold digit1_9 in Hb. unfold DIGIT. lia.
Qed.

Lemma is_eb_digit b : is_eb b = true -> is_digitb b = false /\ b <> 0x2E.
Proof. intro H. apply is_eb_spec in H. destruct H as [->| ->]; split; try reflexivity; discriminate. Qed.

Lemma scan_number_complete n r : number n -> numfollow r -> scan_number (n ++ r) = Some r.
Proof.
  intros Hn Hr. destruct Hn as [m i f e M I F E].
  rewrite <- !app_assoc. unfold scan_number.
  assert (Hr1 : nodigit r /\ hd_ok (fun b => b <> 0x2E) r /\ hd_ok (fun b => is_eb b = false) r).
  { destruct r as [|b t]; cbn in Hr |- *; tauto. }
  destruct Hr1 as [Hr1 [Hr2 Hr3]].
  assert (A1 : nodigit (e ++ r) /\ hd_ok (fun b => b <> 0x2E) (e ++ r)).
  { destruct E as [->|E]; [split; assumption|].
    destruct E as [e d He D|e sg d He Hs D]; cbn [app nodigit hd_ok];
      apply is_eb_spec in He; apply is_eb_digit in He; exact He. }
  destruct A1 as [A1 A1'].
  assert (A2 : nodigit (f ++ e ++ r)).
  { destruct F as [->|F]; [exact A1|]. destruct F as [d D]. reflexivity. }
  assert (Hm : skip_minus (m ++ i ++ f ++ e ++ r) = i ++ f ++ e ++ r).
  { destruct M as [->| ->]; [|reflexivity].
    destruct (int_head i I) as [b [t [-> Hb]]]. cbn [app skip_minus].
    apply is_digitb_spec in Hb. unfold DIGIT in Hb.
    destruct (N.eqb_spec b 0x2D) as [Eb|_]; [lia|reflexivity]. }
  rewrite Hm. rewrite scan_int_complete by assumption.
  assert (Hf : scan_frac (f ++ e ++ r) = e ++ r).
  { destruct F as [->|F]; [apply scan_frac_none; exact A1'|apply scan_frac_some; assumption]. }
  rewrite Hf.
  assert (He : scan_exp (e ++ r) = r).
  { destruct E as [->|E]; [apply scan_exp_none; exact Hr3|apply scan_exp_some; assumption]. }
  rewrite He. reflexivity.
Qed.

Lemma scan_chars_complete cs : chars cs -> forall f r, (length cs < f)%nat ->
  scan_chars f (cs ++ 0x22 :: r) = Some r.
Proof.
  induction 1 as [|c s Hc Hs IH]; intros f r Hf.
  - destruct f as [|f]; [lia|]. reflexivity.
  - destruct f as [|f]; [lia|]. rewrite <- app_assoc. rewrite app_length in Hf.
    destruct Hc as [cp u U Ucp|b Hb|h1 h2 h3 h4 H1 H2 H3 H4].
    + destruct u as [|b0 u'].
      { apply utf8_enc_nonempty in U. cbn in U. lia. }
      pose proof (utf8_enc_head _ _ _ U) as Hh. unfold unescaped_cp in Ucp.
      pose proof (scan_utf8_complete cp _ (s ++ 0x22 :: r) U) as Hu.
      cbn [app] in Hu |- *. cbn [scan_chars].
      destruct (N.eqb_spec b0 0x22) as [E|_]; [lia|].
      destruct (N.eqb_spec b0 0x5C) as [E|_]; [lia|].
      rewrite Hu.
      assert (Hb : unescaped_cpb cp = true) by (apply unescaped_cpb_spec; exact Ucp).
      rewrite Hb. apply IH. cbn [length] in Hf. lia.
    + cbn [app scan_chars]. change (0x5C =? 0x22) with false. change (0x5C =? 0x5C) with true. cbv iota.
      apply is_escb_spec in Hb. rewrite Hb. apply IH. cbn [length] in Hf. lia.
    + cbn [app scan_chars]. change (0x5C =? 0x22) with false. change (0x5C =? 0x5C) with true.
      change (is_escb 0x75) with false. change (0x75 =? 0x75) with true. cbv iota.
      apply is_hexb_spec in H1, H2, H3, H4. rewrite H1, H2, H3, H4. cbn [andb].
      apply IH. cbn [length] in Hf. lia.
Qed.

Lemma string_complete k r : string_ k -> scan_string (k ++ r) = Some r.
Proof.
  intro K. destruct K as [cs C]. cbn [app scan_string].
  change (0x22 =? 0x22) with true. cbv iota.
  rewrite <- app_assoc. cbn [app]. apply scan_chars_complete; [exact C|].
  rewrite app_length. lia.
Qed.

Lemma string_head k : string_ k -> exists t, k = 0x22 :: t.
Proof. intro K. destruct K as [cs C]. eexists; reflexivity. Qed.

Lemma number_head n : number n -> exists b t, n = b :: t /\ (b = 0x2D \/ is_digitb b = true).
Proof.
  intro Hn. destruct Hn as [m i f e M I F E].
  destruct (int_head i I) as [b [t [-> Hb]]].
  destruct M as [->| ->]; cbn [app].
  - exists b, (t ++ f ++ e). split; [reflexivity|right; exact Hb].
  - eexists _, _. split; [reflexivity|left; reflexivity].
Qed.

Lemma numhead_nows b : b = 0x2D \/ is_digitb b = true -> is_wsb b = false.
Proof.
  intros [->|H]; [reflexivity|]. apply is_digitb_spec in H. unfold DIGIT in H.
  unfold is_wsb. repeat (apply orb_false_iff; split); apply N.eqb_neq; lia.
Qed.

Lemma scan_value_number f b t : b = 0x2D \/ is_digitb b = true ->
  scan_value (S f) (b :: t) = scan_number (b :: t).
Proof.
  intros [->|H]; [reflexivity|]. cbn [scan_value].
  apply is_digitb_spec in H. unfold DIGIT in H.
  repeat (match goal with |- context [?a =? ?c] => destruct (N.eqb_spec a c); [lia|] end).
  reflexivity.
Qed.

Lemma follow_numfollow r : follow r -> numfollow r.
Proof.
  destruct r as [|b t]; [exact (fun x => x)|]. cbn [follow numfollow hd_ok].
  intros [H|[->|[->| ->]]]; [|repeat split; try reflexivity; discriminate ..].
  apply is_wsb_spec in H. destruct H as [->|[->|[->| ->]]]; repeat split; try reflexivity; discriminate.
Qed.

Lemma follow_structural w c x : ws w -> c = 0x2C \/ c = 0x5D \/ c = 0x7D -> follow (w ++ c :: x).
Proof.
  intros W Hc. destruct W as [|b s Hb W]; cbn [app follow hd_ok].
  - right. exact Hc.
  - left. apply is_wsb_spec. exact Hb.
Qed.

Lemma follow_ws w : ws w -> follow w.
Proof. intro W. destruct W as [|b s Hb W]; cbn [follow hd_ok]; [exact I|left; apply is_wsb_spec; exact Hb]. Qed.

(* ---------- containers, generically in the item scanner ---------- *)
Section ItemsComplete.
Variables (item : list N -> option (list N)) (close : N).
Hypothesis Hclose : close = 0x5D \/ close = 0x7D.
Hypothesis Hnl : nonlen item.
Hypothesis item_nil : item [] = None.
Hypothesis item_close : forall t, item (close :: t) = None.

(* x = item *( value-separator item ) ws close r' : the first item is found (after blanks) and
   scan_tail then runs up to and including the closing bracket *)
Definition items_ok (x r' : list N) : Prop :=
  exists s', item (skip_ws x) = Some s' /\
             forall n, (length s' < n)%nat -> scan_tail item close n s' = Some r'.

Lemma close_nows : is_wsb close = false.
Proof using All. destruct Hclose as [->| ->]; reflexivity. Qed.

Lemma close_not_comma : (close =? 0x2C) = false.
Proof using All. destruct Hclose as [->| ->]; reflexivity. Qed.

Lemma items_ok_one p w r' : ws w ->
  item (skip_ws (p ++ w ++ close :: r')) = Some (skip_ws (w ++ close :: r')) ->
  items_ok (p ++ w ++ close :: r') r'.
Proof using All.
  intros W H. exists (close :: r'). split.
  - rewrite H. rewrite skip_ws_app by exact W. rewrite skip_ws_cons_nows by exact close_nows. reflexivity.
  - intros n Hn. destruct n as [|n]; [lia|]. cbn [scan_tail]. rewrite N.eqb_refl. reflexivity.
Qed.

Lemma items_ok_more p u1 u2 rest r' : ws u1 -> ws u2 ->
  item (skip_ws (p ++ u1 ++ 0x2C :: u2 ++ rest)) = Some (skip_ws (u1 ++ 0x2C :: u2 ++ rest)) ->
  items_ok rest r' ->
  items_ok (p ++ u1 ++ 0x2C :: u2 ++ rest) r'.
Proof using All.
  intros U1 U2 H [s' [Hs' Ht]]. exists (0x2C :: u2 ++ rest). split.
  - rewrite H. rewrite skip_ws_app by exact U1. rewrite skip_ws_cons_nows by reflexivity. reflexivity.
  - intros n Hn. destruct n as [|n]; [lia|]. cbn [scan_tail].
    assert (Hc : (0x2C =? close) = false).
    { rewrite N.eqb_sym. exact close_not_comma. }
    rewrite Hc. change (0x2C =? 0x2C) with true. cbv iota.
    rewrite skip_ws_app by exact U2. rewrite Hs'. apply Ht.
    apply Hnl in Hs'. pose proof (skip_ws_len rest). cbn [length] in Hn. rewrite app_length in Hn. lia.
Qed.

Lemma scan_container_empty w t : ws w -> scan_container item close (w ++ close :: t) = Some t.
Proof using All.
  intro W. unfold scan_container. rewrite skip_ws_app by exact W.
  rewrite skip_ws_cons_nows by exact close_nows. rewrite N.eqb_refl. reflexivity.
Qed.

Lemma scan_container_items w x r' : ws w -> items_ok x r' -> scan_container item close (w ++ x) = Some r'.
Proof using All.
  intros W [s' [Hs' Ht]]. unfold scan_container. rewrite skip_ws_app by exact W.
  destruct (skip_ws x) as [|c t'] eqn:E.
  { rewrite item_nil in Hs'. discriminate Hs'. }
  destruct (N.eqb_spec c close) as [->|Hc].
  { rewrite item_close in Hs'. discriminate Hs'. }
  rewrite Hs'. apply Ht. lia.
Qed.
End ItemsComplete.

Lemma scan_member_step val s s1 s2 : scan_string s = Some s1 -> skip_ws s1 = 0x3A :: s2 ->
  scan_member val s = option_map skip_ws (val (skip_ws s2)).
Proof. intros H1 H2. unfold scan_member. rewrite H1, H2. reflexivity. Qed.

Lemma scan_member_nil val : scan_member val [] = None.
Proof. reflexivity. Qed.
Lemma scan_member_close val t : scan_member val (0x7D :: t) = None.
Proof. reflexivity. Qed.
Lemma scan_element_nil f : scan_element (scan_value f) [] = None.
Proof. destruct f; reflexivity. Qed.
Lemma scan_element_close f t : scan_element (scan_value f) (0x5D :: t) = None.
Proof. destruct f; reflexivity. Qed.

Lemma ws_app a b : ws a -> ws b -> ws (a ++ b).
Proof. intros A B. induction A as [|x s Hx A IH]; cbn [app]; [exact B|constructor; assumption]. Qed.

Lemma scan_value_obj f t : scan_value (S f) (0x7B :: t) = scan_container (scan_member (scan_value f)) 0x7D t.
Proof. reflexivity. Qed.
Lemma scan_value_arr f t : scan_value (S f) (0x5B :: t) = scan_container (scan_element (scan_value f)) 0x5D t.
Proof. reflexivity. Qed.

Local Ltac len := repeat (progress (rewrite ?app_length in *; cbn [length] in * )); lia.

Scheme value_min := Minimality for value Sort Prop
with object_min := Minimality for object Sort Prop
with members_min := Minimality for members Sort Prop
with member_min := Minimality for member Sort Prop
with array_min := Minimality for array Sort Prop
with elements_min := Minimality for elements Sort Prop.
Combined Scheme value_mutind from value_min, object_min, members_min, member_min, array_min, elements_min.

(* "ws value ws" scanned with fuel f *)
Definition Pvalue (v : list N) : Prop := forall f r, (length (v ++ r) < f)%nat -> follow r ->
  option_map skip_ws (scan_value f (skip_ws (v ++ r))) = Some (skip_ws r).
Definition Pcontainer (o : list N) : Prop := forall f r, (length (o ++ r) <= f)%nat ->
  option_map skip_ws (scan_value (S f) (skip_ws (o ++ r))) = Some (skip_ws r).
Definition Pmember (m : list N) : Prop := forall f r, (length (m ++ r) < f)%nat -> follow r ->
  scan_member (scan_value f) (skip_ws (m ++ r)) = Some (skip_ws r).
Definition Pmembers (ms : list N) : Prop := forall f w r', ws w -> (length (ms ++ w ++ 0x7D%N :: r') < f)%nat ->
  items_ok (scan_member (scan_value f)) 0x7D (ms ++ w ++ 0x7D :: r') r'.
Definition Pelements (vs : list N) : Prop := forall f w r', ws w -> (length (vs ++ w ++ 0x5D%N :: r') < f)%nat ->
  items_ok (scan_element (scan_value f)) 0x5D (vs ++ w ++ 0x5D :: r') r'.

Lemma Pvalue_lit l : (l = lit_false \/ l = lit_null \/ l = lit_true) -> Pvalue l.
Proof.
  intros H f r Hf Hr. destruct f as [|f]; [lia|].
  destruct H as [->|[->| ->]]; reflexivity.
Qed.

Lemma complete_all :
  (forall v, value v -> Pvalue v) /\ (forall o, object o -> Pcontainer o) /\
  (forall ms, members ms -> Pmembers ms) /\ (forall m, member m -> Pmember m) /\
  (forall a, array a -> Pcontainer a) /\ (forall vs, elements vs -> Pelements vs).
Proof.
  apply value_mutind.
  - (* false *) apply Pvalue_lit; tauto.
  - (* null *) apply Pvalue_lit; tauto.
  - (* true *) apply Pvalue_lit; tauto.
  - (* object *) intros s _ IH f r Hf Hr. destruct f as [|f]; [lia|]. apply IH. lia.
  - (* array *) intros s _ IH f r Hf Hr. destruct f as [|f]; [lia|]. apply IH. lia.
  - (* number *) intros s Hn f r Hf Hr. destruct f as [|f]; [lia|].
    pose proof (scan_number_complete s r Hn (follow_numfollow r Hr)) as Hc.
    destruct (number_head s Hn) as [b [t [-> Hb]]]. cbn [app] in Hc |- *.
    rewrite skip_ws_cons_nows by (apply numhead_nows; exact Hb).
    rewrite scan_value_number by exact Hb. rewrite Hc. reflexivity.
  - (* string *) intros s Hs f r Hf Hr. destruct f as [|f]; [lia|].
    pose proof (string_complete s r Hs) as Hc.
    destruct (string_head s Hs) as [t ->]. cbn [app] in Hc |- *.
    rewrite skip_ws_cons_nows by reflexivity.
    change (scan_value (S f) (0x22 :: t ++ r)) with (scan_string (0x22 :: t ++ r)).
    rewrite Hc. reflexivity.
  - (* object_empty *) intros b e [w1 [w2 [W1 [W2 ->]]]] [u1 [u2 [U1 [U2 ->]]]] f r Hf.
    rewrite <- !app_assoc. cbn [app]. rewrite skip_ws_app by exact W1.
    rewrite skip_ws_cons_nows by reflexivity. rewrite scan_value_obj.
    rewrite (app_assoc w2 u1).
    rewrite (scan_container_empty _ 0x7D (or_intror eq_refl) (scan_member_nonlen f)
               (scan_member_nil _) (scan_member_close _) (w2 ++ u1)) by (apply ws_app; assumption).
    cbn [option_map]. rewrite skip_ws_app by exact U2. reflexivity.
  - (* object_members *) intros b ms e [w1 [w2 [W1 [W2 ->]]]] _ IH [u1 [u2 [U1 [U2 ->]]]] f r Hf.
    rewrite <- !app_assoc in Hf |- *. cbn [app] in Hf |- *. rewrite skip_ws_app by exact W1.
    rewrite skip_ws_cons_nows by reflexivity. rewrite scan_value_obj.
    rewrite (scan_container_items _ 0x7D (or_intror eq_refl) (scan_member_nonlen f)
               (scan_member_nil _) (scan_member_close _) w2 _ (u2 ++ r) W2).
    + cbn [option_map]. rewrite skip_ws_app by exact U2. reflexivity.
    + apply IH; [exact U1|len].
  - (* members_one *) intros m _ IH f w r' W Hf.
    apply (items_ok_one _ 0x7D (or_intror eq_refl) (scan_member_nonlen f)
             (scan_member_nil _) (scan_member_close _) m w r' W).
    apply IH; [exact Hf|apply follow_structural; [exact W|tauto]].
  - (* members_more *) intros m sep ms _ IHm [u1 [u2 [U1 [U2 ->]]]] _ IHms f w r' W Hf.
    rewrite <- !app_assoc in Hf |- *. cbn [app] in Hf |- *.
    apply (items_ok_more _ 0x7D (or_intror eq_refl) (scan_member_nonlen f)
             (scan_member_nil _) (scan_member_close _) m u1 u2 _ r' U1 U2).
    + apply IHm; [exact Hf|apply follow_structural; [exact U1|tauto]].
    + apply IHms; [exact W|len].
  - (* member *) intros k ns v Hk [u1 [u2 [U1 [U2 ->]]]] _ IHv f r Hf Hr.
    rewrite <- !app_assoc in Hf |- *. cbn [app] in Hf |- *.
    assert (Hsk : forall x, skip_ws (k ++ x) = k ++ x).
    { intro x. destruct (string_head k Hk) as [t ->]. reflexivity. }
    rewrite Hsk.
    rewrite (scan_member_step (scan_value f) _ _ (u2 ++ v ++ r) (string_complete k _ Hk))
      by (rewrite skip_ws_app by exact U1; reflexivity).
    rewrite skip_ws_app by exact U2. apply IHv; [len|exact Hr].
  - (* array_empty *) intros b e [w1 [w2 [W1 [W2 ->]]]] [u1 [u2 [U1 [U2 ->]]]] f r Hf.
    rewrite <- !app_assoc. cbn [app]. rewrite skip_ws_app by exact W1.
    rewrite skip_ws_cons_nows by reflexivity. rewrite scan_value_arr.
    rewrite (app_assoc w2 u1).
    rewrite (scan_container_empty _ 0x5D (or_introl eq_refl) (scan_element_nonlen f)
               (scan_element_nil _) (scan_element_close _) (w2 ++ u1)) by (apply ws_app; assumption).
    cbn [option_map]. rewrite skip_ws_app by exact U2. reflexivity.
  - (* array_elements *) intros b vs e [w1 [w2 [W1 [W2 ->]]]] _ IH [u1 [u2 [U1 [U2 ->]]]] f r Hf.
    rewrite <- !app_assoc in Hf |- *. cbn [app] in Hf |- *. rewrite skip_ws_app by exact W1.
    rewrite skip_ws_cons_nows by reflexivity. rewrite scan_value_arr.
    rewrite (scan_container_items _ 0x5D (or_introl eq_refl) (scan_element_nonlen f)
               (scan_element_nil _) (scan_element_close _) w2 _ (u2 ++ r) W2).
    + cbn [option_map]. rewrite skip_ws_app by exact U2. reflexivity.
    + apply IH; [exact U1|len].
  - (* elements_one *) intros v _ IH f w r' W Hf.
    apply (items_ok_one _ 0x5D (or_introl eq_refl) (scan_element_nonlen f)
             (scan_element_nil _) (scan_element_close _) v w r' W).
    unfold scan_element. apply IH; [exact Hf|apply follow_structural; [exact W|tauto]].
  - (* elements_more *) intros v sep vs _ IHv [u1 [u2 [U1 [U2 ->]]]] _ IHvs f w r' W Hf.
    rewrite <- !app_assoc in Hf |- *. cbn [app] in Hf |- *.
    apply (items_ok_more _ 0x5D (or_introl eq_refl) (scan_element_nonlen f)
             (scan_element_nil _) (scan_element_close _) v u1 u2 _ r' U1 U2).
    + unfold scan_element. apply IHv; [exact Hf|apply follow_structural; [exact U1|tauto]].
    + apply IHvs; [exact W|len].
Qed.

Lemma value_complete v : value v -> forall f r, (length (v ++ r) < f)%nat -> follow r ->
  option_map skip_ws (scan_value f (skip_ws (v ++ r))) = Some (skip_ws r).
Proof. exact (proj1 complete_all v). Qed.

Theorem rfc8259_b_complete s : JSON_text s -> rfc8259_b s = true.
Proof.
  intros [w1 [v [w2 [W1 [V [W2 ->]]]]]]. unfold rfc8259_b.
  rewrite skip_ws_app by exact W1.
  pose proof (value_complete v V (S (length (v ++ w2))) w2 (Nat.lt_succ_diag_r _) (follow_ws w2 W2)) as H.
  rewrite scan_value_fuel in H by (pose proof (skip_ws_len (v ++ w2)); lia).
  destruct (scan_val (skip_ws (v ++ w2))) as [r|]; cbn [option_map] in H; [|discriminate H].
  injection H as H. rewrite H. rewrite skip_ws_ws by exact W2. reflexivity.
Qed.

Theorem rfc8259_b_correct : forall s, rfc8259_b s = true <-> JSON_text s.
Proof. intro s. split; [apply rfc8259_b_sound|apply rfc8259_b_complete]. Qed.

