(* Rfc8259Facts.v — proofs about Rfc8259.v (property C14, specification side):
   the executable recogniser rfc8259_b is equivalent to the RFC 8259 grammar JSON_text. *)
From Coq Require Import List NArith Bool Lia Arith.
From PegtlV Require Import Utf Rfc8259.
Import ListNotations.
Local Open Scope N_scope.

(* ====================================================================================== *)
(* Boolean reflection helpers                                                              *)
(* ====================================================================================== *)
Lemma in_rng_spec lo hi b : in_rng lo hi b = true <-> lo <= b /\ b <= hi.
Proof. unfold in_rng. rewrite andb_true_iff, !N.leb_le. tauto. Qed.

Lemma in_rng_false lo hi b : in_rng lo hi b = false <-> ~ (lo <= b /\ b <= hi).
Proof.
  rewrite <- in_rng_spec. destruct (in_rng lo hi b); split; intro H;
    try reflexivity; try discriminate H; try (intro H'; discriminate H').
  exfalso; apply H; reflexivity.
Qed.

Ltac b2p :=
  repeat match goal with
  | H : _ && _ = true |- _ => apply andb_true_iff in H; destruct H
  | H : _ || _ = false |- _ => apply orb_false_iff in H; destruct H
  | H : _ || _ = true |- _ => apply orb_true_iff in H
  | H : _ && _ = false |- _ => apply andb_false_iff in H
  | H : in_rng _ _ _ = true |- _ => apply in_rng_spec in H
  | H : in_rng _ _ _ = false |- _ => apply in_rng_false in H
  | H : tail_b _ = true |- _ => unfold tail_b in H
  | H : tail_b _ = false |- _ => unfold tail_b in H
  | H : is_digitb _ = true |- _ => unfold is_digitb in H
  | H : is_digitb _ = false |- _ => unfold is_digitb in H
  | H : (_ <=? _) = true |- _ => apply N.leb_le in H
  | H : (_ <=? _) = false |- _ => apply N.leb_gt in H
  | H : (_ =? _) = true |- _ => apply N.eqb_eq in H
  | H : (_ =? _) = false |- _ => apply N.eqb_neq in H
  end.

(* ====================================================================================== *)
(* scan_utf8 = the table of RFC 3629 section 4 = Utf.utf8_enc                              *)
(* ====================================================================================== *)
Lemma scan_utf8_sound s cp r : scan_utf8 s = Some (cp, r) -> exists u, s = u ++ r /\ utf8_enc cp u.
Proof.
  intro H. unfold scan_utf8 in H.
  destruct s as [|b0 [|b1 [|b2 [|b3 t3]]]]; cbv beta iota in H;
  repeat match type of H with
  | context [if ?c then _ else _] => let E := fresh "E" in destruct c eqn:E
  | None = Some _ => discriminate H
  end; try discriminate H;
  injection H as <- <-; b2p; subst.
  all: try (exists [b0]; split; [reflexivity | constructor; lia]).
  all: try (exists [b0; b1]; split; [reflexivity | constructor; unfold utf8_tail; lia]).
  all: try (exists [0xE0; b1; b2]; split; [reflexivity | apply U8_3a; unfold utf8_tail; lia]).
  all: try (exists [0xED; b1; b2]; split; [reflexivity | apply U8_3c; unfold utf8_tail; lia]).
  all: try (exists [b0; b1; b2]; split; [reflexivity | first [apply U8_3b; unfold utf8_tail; lia | apply U8_3d; unfold utf8_tail; lia]]).
  all: try (exists [0xF0; b1; b2; b3]; split; [reflexivity | apply U8_4a; unfold utf8_tail; lia]).
  all: try (exists [0xF4; b1; b2; b3]; split; [reflexivity | apply U8_4c; unfold utf8_tail; lia]).
  all: try (exists [b0; b1; b2; b3]; split; [reflexivity | apply U8_4b; unfold utf8_tail; lia]).
Qed.

Lemma scan_utf8_complete cp u r : utf8_enc cp u -> scan_utf8 (u ++ r) = Some (cp, r).
Proof.
  intro H. destruct H; unfold utf8_tail in *; cbn [app]; unfold scan_utf8, tail_b, in_rng;
  repeat (match goal with
  | |- context [?a <=? ?b] => destruct (N.leb_spec a b); try lia
  | |- context [?a =? ?b] => destruct (N.eqb_spec a b); try lia
  end; cbn [andb]); reflexivity.
Qed.

Lemma scan_utf8_spec s cp r : scan_utf8 s = Some (cp, r) <-> exists u, s = u ++ r /\ utf8_enc cp u.
Proof.
  split.
  - apply scan_utf8_sound.
  - intros [u [-> H]]. apply scan_utf8_complete; exact H.
Qed.

Lemma scan_utf8_ascii b t : b <= 0x7F -> scan_utf8 (b :: t) = Some (b, t).
Proof. intro H. unfold scan_utf8. apply N.leb_le in H. rewrite H. reflexivity. Qed.

Lemma utf8_enc_nonempty cp u : utf8_enc cp u -> (1 <= length u)%nat.
Proof. intro H; destruct H; cbn [length]; lia. Qed.

(* first byte of a well-formed sequence: ASCII (the byte is the code point) or a lead byte *)
Lemma utf8_enc_head cp b u : utf8_enc cp (b :: u) ->
  (b <= 0x7F /\ cp = b /\ u = []) \/ (0xC2 <= b /\ 0x80 <= cp).
Proof.
  intro H. inversion H; subst; unfold utf8_tail, val2, val3, val4 in *; try (left; repeat split; lia); right; split; lia.
Qed.

Lemma scan_utf8_multibyte b t cp r : 0x7F < b -> scan_utf8 (b :: t) = Some (cp, r) -> 0x80 <= cp.
Proof.
  intros Hb H. apply scan_utf8_sound in H. destruct H as [u [Hs Hu]].
  destruct u as [|b' u'].
  - apply utf8_enc_nonempty in Hu. cbn in Hu. lia.
  - cbn [app] in Hs. injection Hs as <- _. apply utf8_enc_head in Hu. lia.
Qed.

Lemma scan_utf8_len s cp r : scan_utf8 s = Some (cp, r) -> (length r < length s)%nat.
Proof.
  intro H. apply scan_utf8_sound in H. destruct H as [u [-> Hu]].
  apply utf8_enc_nonempty in Hu. rewrite app_length. lia.
Qed.

(* ====================================================================================== *)
(* Length facts: every scanner returns a suffix that is not longer than its input          *)
(* ====================================================================================== *)
Lemma skip_ws_len s : (length (skip_ws s) <= length s)%nat.
Proof. induction s as [|b t IH]; cbn [skip_ws]; [lia|]. destruct (is_wsb b); cbn [length]; lia. Qed.

Lemma skip_digits_len s : (length (skip_digits s) <= length s)%nat.
Proof. induction s as [|b t IH]; cbn [skip_digits]; [lia|]. destruct (is_digitb b); cbn [length]; lia. Qed.

Lemma scan_digits1_len s r : scan_digits1 s = Some r -> (length r < length s)%nat.
Proof.
  destruct s as [|b t]; cbn [scan_digits1]; [discriminate|].
  destruct (is_digitb b); [|discriminate]. intro H; injection H as <-.
  pose proof (skip_digits_len t). cbn [length]; lia.
Qed.

Lemma scan_int_len s r : scan_int s = Some r -> (length r < length s)%nat.
Proof.
  destruct s as [|b t]; cbn [scan_int]; [discriminate|].
  destruct (b =? 0x30).
  - intro H; injection H as <-. cbn [length]; lia.
  - destruct (is_digitb b); [|discriminate]. intro H; injection H as <-.
    pose proof (skip_digits_len t). cbn [length]; lia.
Qed.

Lemma scan_frac_len s : (length (scan_frac s) <= length s)%nat.
Proof.
  destruct s as [|b t]; cbn [scan_frac]; [lia|].
  destruct (b =? 0x2E); [|lia].
  destruct (scan_digits1 t) as [r|] eqn:E; [|lia].
  apply scan_digits1_len in E. cbn [length]; lia.
Qed.

Lemma skip_sign_len s : (length (skip_sign s) <= length s)%nat.
Proof. destruct s as [|b t]; cbn [skip_sign]; [lia|]. destruct (is_signb b); cbn [length]; lia. Qed.

Lemma skip_minus_len s : (length (skip_minus s) <= length s)%nat.
Proof. destruct s as [|b t]; cbn [skip_minus]; [lia|]. destruct (b =? 0x2D); cbn [length]; lia. Qed.

Lemma scan_exp_len s : (length (scan_exp s) <= length s)%nat.
Proof.
  destruct s as [|b t]; cbn [scan_exp]; [lia|].
  destruct (is_eb b); [|lia].
  destruct (scan_digits1 (skip_sign t)) as [r|] eqn:E; [|lia].
  apply scan_digits1_len in E. pose proof (skip_sign_len t). cbn [length]; lia.
Qed.

Lemma scan_number_len s r : scan_number s = Some r -> (length r < length s)%nat.
Proof.
  unfold scan_number. destruct (scan_int (skip_minus s)) as [r1|] eqn:E; [|discriminate].
  intro H; injection H as <-. apply scan_int_len in E.
  pose proof (skip_minus_len s). pose proof (scan_frac_len r1). pose proof (scan_exp_len (scan_frac r1)). lia.
Qed.

Lemma scan_chars_len f : forall s r, scan_chars f s = Some r -> (length r < length s)%nat.
Proof.
  induction f as [|f IH]; intros s r H; cbn [scan_chars] in H; [discriminate|].
  destruct s as [|b t]; [discriminate|].
  destruct (b =? 0x22).
  { injection H as <-. cbn [length]; lia. }
  destruct (b =? 0x5C).
  { destruct t as [|e t']; [discriminate|].
    destruct (is_escb e).
    { apply IH in H. cbn [length]; lia. }
    destruct (e =? 0x75); [|discriminate].
    destruct t' as [|h1 [|h2 [|h3 [|h4 t'']]]]; try discriminate.
    destruct (is_hexb h1 && is_hexb h2 && is_hexb h3 && is_hexb h4); [|discriminate].
    apply IH in H. cbn [length]; lia. }
  destruct (scan_utf8 (b :: t)) as [[cp r']|] eqn:E; [|discriminate].
  destruct (unescaped_cpb cp); [|discriminate].
  apply IH in H. apply scan_utf8_len in E. lia.
Qed.

Lemma scan_string_len s r : scan_string s = Some r -> (length r < length s)%nat.
Proof.
  destruct s as [|b t]; cbn [scan_string]; [discriminate|].
  destruct (b =? 0x22); [|discriminate]. intro H. apply scan_chars_len in H. cbn [length]; lia.
Qed.

Lemma strip_prefix_app p : forall s r, strip_prefix p s = Some r -> s = p ++ r.
Proof.
  induction p as [|x p IH]; intros s r H; cbn [strip_prefix] in H.
  - injection H as <-. reflexivity.
  - destruct s as [|y s']; [discriminate|].
    destruct (N.eqb_spec x y) as [->|]; [|discriminate].
    apply IH in H. subst s'. reflexivity.
Qed.

Lemma strip_prefix_complete p r : strip_prefix p (p ++ r) = Some r.
Proof. induction p as [|x p IH]; cbn [strip_prefix app]; [reflexivity|]. rewrite N.eqb_refl. exact IH. Qed.

Definition nonlen (item : list N -> option (list N)) : Prop :=
  forall x y, item x = Some y -> (length y <= length x)%nat.

Lemma scan_element_len val : nonlen val -> forall x y, scan_element val x = Some y -> (length y <= length x)%nat.
Proof.
  intros Hv x y. unfold scan_element. destruct (val x) as [z|] eqn:E; cbn [option_map]; [|discriminate].
  intro H; injection H as <-. apply Hv in E. pose proof (skip_ws_len z). lia.
Qed.

Lemma scan_member_len val : nonlen val -> forall x y, scan_member val x = Some y -> (length y < length x)%nat.
Proof.
  intros Hv x y. unfold scan_member.
  destruct (scan_string x) as [s1|] eqn:E1; [|discriminate].
  destruct (skip_ws s1) as [|c s2] eqn:E2; [discriminate|].
  destruct (c =? 0x3A); [|discriminate].
  destruct (val (skip_ws s2)) as [z|] eqn:E3; cbn [option_map]; [|discriminate].
  intro H; injection H as <-.
  apply scan_string_len in E1. apply Hv in E3.
  pose proof (skip_ws_len s1) as L1. rewrite E2 in L1. cbn [length] in L1.
  pose proof (skip_ws_len s2). pose proof (skip_ws_len z). lia.
Qed.

Lemma scan_tail_len item close : nonlen item ->
  forall n s r, scan_tail item close n s = Some r -> (length r < length s)%nat.
Proof.
  intros Hi. induction n as [|n IH]; intros s r H; cbn [scan_tail] in H; [discriminate|].
  destruct s as [|c t]; [discriminate|].
  destruct (c =? close).
  { injection H as <-. cbn [length]; lia. }
  destruct (c =? 0x2C); [|discriminate].
  destruct (item (skip_ws t)) as [s'|] eqn:E; [|discriminate].
  apply IH in H. apply Hi in E. pose proof (skip_ws_len t). cbn [length]; lia.
Qed.

Lemma scan_container_len item close : nonlen item ->
  forall t r, scan_container item close t = Some r -> (length r < length t)%nat.
Proof.
  intros Hi t r. unfold scan_container.
  destruct (skip_ws t) as [|c t'] eqn:E; [discriminate|].
  pose proof (skip_ws_len t) as L. rewrite E in L. cbn [length] in L.
  destruct (c =? close).
  { intro H; injection H as <-. lia. }
  destruct (item (c :: t')) as [s'|] eqn:E2; [|discriminate].
  intro H. apply scan_tail_len in H; [|exact Hi]. apply Hi in E2. cbn [length] in E2. lia.
Qed.

Lemma scan_value_len f : forall s r, scan_value f s = Some r -> (length r < length s)%nat.
Proof.
  induction f as [|f IH]; intros s r H; cbn [scan_value] in H; [discriminate|].
  assert (Hn : nonlen (scan_value f)).
  { intros x y Hx. apply IH in Hx. lia. }
  destruct s as [|b t]; [discriminate|].
  destruct (b =? 0x22); [apply scan_string_len; exact H|].
  destruct (b =? 0x7B).
  { apply scan_container_len in H; [cbn [length]; lia|].
    intros x y Hx. apply scan_member_len in Hx; [lia|exact Hn]. }
  destruct (b =? 0x5B).
  { apply scan_container_len in H; [cbn [length]; lia|].
    intros x y Hx. apply scan_element_len in Hx; [lia|exact Hn]. }
  destruct (b =? 0x66).
  { apply strip_prefix_app in H. rewrite H. rewrite app_length. cbn; lia. }
  destruct (b =? 0x74).
  { apply strip_prefix_app in H. rewrite H. rewrite app_length. cbn; lia. }
  destruct (b =? 0x6E).
  { apply strip_prefix_app in H. rewrite H. rewrite app_length. cbn; lia. }
  apply scan_number_len; exact H.
Qed.

Lemma scan_value_nonlen f : nonlen (scan_value f).
Proof. intros x y H. apply scan_value_len in H. lia. Qed.

Lemma scan_element_nonlen f : nonlen (scan_element (scan_value f)).
Proof. intros x y H. apply scan_element_len in H; [exact H|apply scan_value_nonlen]. Qed.

Lemma scan_member_nonlen f : nonlen (scan_member (scan_value f)).
Proof. intros x y H. apply scan_member_len in H; [lia|apply scan_value_nonlen]. Qed.

(* ====================================================================================== *)
(* Fuel stability                                                                          *)
(* ====================================================================================== *)
Lemma scan_chars_fuel2 f1 : forall f2 s, (length s < f1)%nat -> (length s < f2)%nat ->
  scan_chars f1 s = scan_chars f2 s.
Proof.
  induction f1 as [|f1 IH]; intros f2 s H1 H2; [lia|].
  destruct f2 as [|f2]; [lia|].
  cbn [scan_chars].
  destruct s as [|b t]; [reflexivity|]. cbn [length] in H1, H2.
  destruct (b =? 0x22); [reflexivity|].
  destruct (b =? 0x5C).
  { destruct t as [|e t']; [reflexivity|]. cbn [length] in H1, H2.
    destruct (is_escb e).
    { apply IH; lia. }
    destruct (e =? 0x75); [|reflexivity].
    destruct t' as [|h1 [|h2 [|h3 [|h4 t'']]]]; try reflexivity. cbn [length] in H1, H2.
    destruct (is_hexb h1 && is_hexb h2 && is_hexb h3 && is_hexb h4); [|reflexivity].
    apply IH; lia. }
  destruct (scan_utf8 (b :: t)) as [[cp r']|] eqn:E; [|reflexivity].
  destruct (unescaped_cpb cp); [|reflexivity].
  apply scan_utf8_len in E. cbn [length] in E. apply IH; lia.
Qed.

Lemma scan_chars_fuel f s : (length s < f)%nat -> scan_chars f s = scan_chars (S (length s)) s.
Proof. intro H. apply scan_chars_fuel2; lia. Qed.

Lemma scan_tail_fuel2 item close : nonlen item ->
  forall n1 n2 s, (length s < n1)%nat -> (length s < n2)%nat ->
  scan_tail item close n1 s = scan_tail item close n2 s.
Proof.
  intros Hi. induction n1 as [|n1 IH]; intros n2 s H1 H2; [lia|].
  destruct n2 as [|n2]; [lia|].
  cbn [scan_tail]. destruct s as [|c t]; [reflexivity|]. cbn [length] in H1, H2.
  destruct (c =? close); [reflexivity|].
  destruct (c =? 0x2C); [|reflexivity].
  destruct (item (skip_ws t)) as [s'|] eqn:E; [|reflexivity].
  apply Hi in E. pose proof (skip_ws_len t). apply IH; lia.
Qed.

Lemma scan_tail_fuel item close n s :
  (forall x y, item x = Some y -> (length y <= length x)%nat) -> (length s < n)%nat ->
  scan_tail item close n s = scan_tail item close (S (length s)) s.
Proof. intros Hi H. apply scan_tail_fuel2; [exact Hi|lia|lia]. Qed.

(* two item scanners that agree on all inputs up to length m *)
Lemma scan_tail_ext item1 item2 close m : nonlen item1 ->
  (forall x, (length x <= m)%nat -> item1 x = item2 x) ->
  forall n s, (length s <= S m)%nat -> scan_tail item1 close n s = scan_tail item2 close n s.
Proof.
  intros Hi Hx. induction n as [|n IH]; intros s Hs; [reflexivity|].
  cbn [scan_tail]. destruct s as [|c t]; [reflexivity|]. cbn [length] in Hs.
  destruct (c =? close); [reflexivity|].
  destruct (c =? 0x2C); [|reflexivity].
  pose proof (skip_ws_len t) as L.
  rewrite <- (Hx (skip_ws t)) by lia.
  destruct (item1 (skip_ws t)) as [s'|] eqn:E; [|reflexivity].
  apply Hi in E. apply IH; lia.
Qed.

Lemma scan_container_ext item1 item2 close t : nonlen item1 ->
  (forall x, (length x <= length t)%nat -> item1 x = item2 x) ->
  scan_container item1 close t = scan_container item2 close t.
Proof.
  intros Hi Hx. unfold scan_container.
  destruct (skip_ws t) as [|c t'] eqn:E; [reflexivity|].
  pose proof (skip_ws_len t) as L. rewrite E in L.
  destruct (c =? close); [reflexivity|].
  rewrite <- (Hx (c :: t')) by exact L.
  destruct (item1 (c :: t')) as [s'|] eqn:E2; [|reflexivity].
  apply Hi in E2.
  apply (scan_tail_ext item1 item2 close (length t) Hi Hx). lia.
Qed.

Lemma scan_element_ext val1 val2 x : val1 x = val2 x -> scan_element val1 x = scan_element val2 x.
Proof. unfold scan_element. intros ->. reflexivity. Qed.

Lemma scan_member_ext val1 val2 x :
  (forall y, (length y <= length x)%nat -> val1 y = val2 y) -> scan_member val1 x = scan_member val2 x.
Proof.
  intro H. unfold scan_member.
  destruct (scan_string x) as [s1|] eqn:E1; [|reflexivity].
  destruct (skip_ws s1) as [|c s2] eqn:E2; [reflexivity|].
  destruct (c =? 0x3A); [|reflexivity].
  apply scan_string_len in E1.
  pose proof (skip_ws_len s1) as L1. rewrite E2 in L1. cbn [length] in L1.
  pose proof (skip_ws_len s2).
  rewrite H by lia. reflexivity.
Qed.

Lemma scan_value_fuel2 f1 : forall f2 s, (length s < f1)%nat -> (length s < f2)%nat ->
  scan_value f1 s = scan_value f2 s.
Proof.
  induction f1 as [|f1 IH]; intros f2 s H1 H2; [lia|].
  destruct f2 as [|f2]; [lia|].
  cbn [scan_value]. destruct s as [|b t]; [reflexivity|]. cbn [length] in H1, H2.
  destruct (b =? 0x22); [reflexivity|].
  destruct (b =? 0x7B).
  { apply scan_container_ext; [apply scan_member_nonlen|].
    intros x Hx. apply scan_member_ext. intros y Hy. apply IH; lia. }
  destruct (b =? 0x5B).
  { apply scan_container_ext; [apply scan_element_nonlen|].
    intros x Hx. apply scan_element_ext. apply IH; lia. }
  reflexivity.
Qed.

Lemma scan_value_fuel f s : (length s < f)%nat -> scan_value f s = scan_val s.
Proof. intro H. unfold scan_val. apply scan_value_fuel2; lia. Qed.
